"""C07 - ilength inverts length on [0, L], is total and terminates (thin: structure only).

Decided: the range error is raised before anything else and exactly for s outside [0, L]; the
boundary values short-circuit; the bisection loop has a bounded variant and cannot reach the bound
by stalling (abstract case analysis of one iteration with the midpoint rounded onto either
bound); the Path branch subtracts the consumed length, recurses with all tolerances and maps back
through t2T by *index*; all five ilength methods forward every parameter.
Not decided: inverse accuracy, monotonicity (numeric)."""
import ast
from svtstatic import poly
from svtstatic.cfg import CFG, ENTRY, EXIT, RAISE, walk_no_nested, enclosing_stmt
from svtstatic.interp import Env, _Return, _Break, _Continue
from svtstatic.values import ExtRef
from .common import *

PROPERTY = 'C07'
LEVEL = 'other'
Q = 'path.inv_arclength'


def run(ctx):
    mdl = ctx.model
    fi = mdl.func(Q)
    ctx.assume('length() of the curve is a positive symbol L; float rounding is modelled only as: the computed midpoint may equal either bound')
    ctx.rule('R07.1', 'ValueError iff s < 0 or s > L, decided before any other work; s == 0 -> 0; s == L -> 1', 1)
    ctx.rule('R07.2', 'bisection loop variant: counter incremented on every iteration path, tested against maxits, exception after the loop', 1)
    ctx.rule('R07.3', 'stall exit: when the midpoint equals a bound (the bracket cannot shrink) every path of the iteration leaves the loop', 2)
    ctx.rule('R07.4', 'Path branch: the segment containing s is searched on cumulative lengths; recursion on (segment, s - consumed) with all '
                      'tolerances; result mapped by t2T(index, t)', 3)
    ctx.rule('R07.5', 'the five ilength methods forward s, s_tol, maxits, error, min_depth to inv_arclength', 5)
    ob = lambda r: Obligation(ctx, r)
    S = Rat.sym('s')
    L = Rat.sym('L')
    poly.POSITIVE.add('L')

    # ---------------------------------------------------------------- R07.1
    def th1(it):
        curve = it.construct('path.CubicBezier', *cpoints(4))
        order = []

        def len_hook(it2, a, k):
            order.append(('length', dict(k), a[1:]))
            if not k.get('t1') and len(a) < 3:
                return L
            return Rat.sym('S_t')
        it.call_hooks['path.CubicBezier.length'] = len_hook
        r = it.call(it.closure_of(Q), [curve, S], {'maxits': 1})
        return r, path_sign(it, S), path_sign(it, S - L)

    try:
        paths = explore(ctx.model, th1, {})
        probs = []
        for p in paths:
            if p.raised is not None and p.raised.exc_name not in ('ValueError', 'Exception'):
                probs.append('raises %s' % p.raised.exc_name)
        # classify by the sign facts each path ends with
        for p in paths:
            it = p.interp
            s_sign, sl_sign = path_sign(it, S), path_sign(it, S - L)
            outside = s_sign == frozenset('-') or sl_sign == frozenset('+')
            inside = s_sign <= frozenset('0+') and sl_sign <= frozenset('-0')
            if p.raised is not None and p.raised.exc_name == 'ValueError':
                if not outside:
                    probs.append('ValueError although s may be in [0, L] (%s)' % p.cond_text()[:80])
            elif outside:
                probs.append('no ValueError for s outside [0, L] (%s)' % p.cond_text()[:80])
            elif not inside:
                probs.append('a result is produced on a path that has not established 0 <= s <= L (%s)' % p.cond_text()[:80])
            elif p.raised is None:
                if s_sign == frozenset('0') and not to_rat(p.value[0]).equals(0):
                    probs.append('ilength(0) returns %r' % (p.value[0],))
                if sl_sign == frozenset('0') and not to_rat(p.value[0]).equals(1):
                    probs.append('ilength(L) returns %r' % (p.value[0],))
                # the boundary answers are for the boundary only: s merely CLOSE to 0 or L (a tolerance test) still has to be inverted
                try:
                    v_ = to_rat(p.value[0])
                except Exception:
                    v_ = None
                if v_ is not None and v_.equals(1) and sl_sign != frozenset('0'):
                    probs.append('returns exactly 1 on a path that does not know s == L (%s)' % p.cond_text()[:80])
                if v_ is not None and v_.is_zero() and s_sign != frozenset('0'):
                    probs.append('returns exactly 0 on a path that does not know s == 0 (%s)' % p.cond_text()[:80])
        ctx.record('R07.1', fi.qualname, 'range check and boundary values (%d paths)' % len(paths), not probs, detail='; '.join(probs[:4]),
                   where=where(fi))
    except Undecidable as e:
        ctx.undecided('R07.1', fi.qualname, 'range check', str(e), where=where(fi))

    # ---------------------------------------------------------------- R07.2 loop variant (structure)
    # the bisection loop lives in inv_arclength or in a function it reaches (a helper it was moved to, an ilength method it dispatches to)
    entry_fi = fi
    seen_f = {fi.qualname}
    work = [fi]
    cands = []
    while work:
        f_ = work.pop(0)
        for n in walk_no_nested(f_.node):
            if isinstance(n, ast.While) and any(isinstance(st_, ast.Assign) and isinstance(st_.targets[0], ast.Name) and _is_midpoint(st_.value)
                                                for st_ in n.body):
                cands.append((f_, n))
            if isinstance(n, ast.Call):
                tgt = None
                if isinstance(n.func, ast.Name):
                    r_ = mdl.resolve_global(f_.module, n.func.id)
                    tgt = r_[1] if r_ and r_[0] == 'func' else None
                elif isinstance(n.func, ast.Attribute) and n.func.attr == 'ilength':
                    for cn_ in ('Line', 'QuadraticBezier', 'CubicBezier', 'Arc', 'Path'):
                        m_ = mdl.cls('path.' + cn_).methods.get('ilength')
                        if m_ is not None and m_.qualname not in seen_f:
                            seen_f.add(m_.qualname)
                            work.append(m_)
                if tgt is not None and tgt.qualname not in seen_f and len(seen_f) < 40:
                    seen_f.add(tgt.qualname)
                    work.append(tgt)
    if not cands:
        loops = [n for n in walk_no_nested(fi.node) if isinstance(n, ast.While)]
        if not loops:
            raise AnchorMissing('bisection loop in inv_arclength (or a function it reaches)')
        cands = [(fi, loops[-1])]
    fi, loop = next((c for c in cands if c[0] is entry_fi), cands[0])
    cfg = CFG(fi.node)
    probs = []
    counter = None
    if isinstance(loop.test, ast.Compare) and isinstance(loop.test.left, ast.Name) and isinstance(loop.test.ops[0], (ast.Lt, ast.LtE)) \
            and isinstance(loop.test.comparators[0], ast.Name) and loop.test.comparators[0].id in fi.params():
        counter = loop.test.left.id
    else:
        probs.append('loop test is not `counter < <parameter>`: %s' % norm(loop.test))
    if counter:
        incs = [s for s in walk_no_nested(loop) if isinstance(s, ast.AugAssign) and isinstance(s.target, ast.Name) and s.target.id == counter
                and isinstance(s.op, ast.Add)]
        # every path from the loop head through the body back to the head passes an increment
        first = loop.body[0]
        back_without = loop in cfg.reachable(first, avoid=set(incs)) if first not in incs else False
        if not incs or back_without:
            probs.append('an iteration can return to the loop test without incrementing `%s`' % counter)
    after = [s for s in cfg.succ[loop] if s[1] == 'false']
    ends_in_raise = any(isinstance(t, ast.Raise) for t, l in after)
    if not ends_in_raise:
        probs.append('falling out of the loop does not raise')
    ctx.record('R07.2', fi.qualname, 'while %s' % norm(loop.test), not probs, detail='; '.join(probs), where=where(fi, loop))

    # ---------------------------------------------------------------- R07.3 stall analysis of one iteration
    mids = [s for s in loop.body if isinstance(s, ast.Assign) and isinstance(s.targets[0], ast.Name) and _is_midpoint(s.value)]
    if not mids:
        ctx.undecided('R07.3', fi.qualname, 'bisection idiom', 'no `t = (lo + hi)/2` statement in the loop body', where=where(fi, loop))
    else:
        mid = mids[0]
        lo_name, hi_name = _is_midpoint(mid.value)
        tname = mid.targets[0].id
        for case, which in (('midpoint == lower bound', 'lo'), ('midpoint == upper bound', 'hi')):
            LO, HI, TM = Rat.sym('LO'), Rat.sym('HI'), Rat.sym('TM')
            pres = [(HI - LO, '+'), (TM - (LO if which == 'lo' else HI), '0'), (TM - (HI if which == 'lo' else LO), '-' if which == 'lo' else '+')]

            def th3(it):
                curve = Opaque('curve')
                curve.attrs['length'] = ExtRef('__len__')
                it.ext_hooks['__len__'] = lambda it2, a, k: Rat.sym('S_t')
                env = Env(module=fi.module)
                # parameters by role: the first one is the curve, the others are recognised by their public names; anything else the
                # loop's function binds before the loop is an unknown symbol
                params_ = fi.params()
                known = {'s': S, 's_tol': Rat.sym('tol'), 'maxits': Rat.sym('maxits'), 'error': Rat.sym('err'), 'min_depth': Rat.sym('md'),
                         'curve_length': L}
                for pn_ in params_[1:]:
                    env.vars[pn_] = known.get(pn_, Rat.sym('par_' + pn_))
                for nm_ in known:
                    env.vars.setdefault(nm_, known[nm_])
                if params_:
                    env.vars[params_[0]] = curve
                env.vars.setdefault('curve', curve)
                env.vars.update({lo_name: LO, hi_name: HI, (counter or 'iteration'): Rat.sym('it0')})
                it.func_stack.append(fi.qualname)
                try:
                    for st in loop.body:
                        try:
                            it.exec_stmt(st, env)
                        except _Return as r:
                            return ('return', r.v)
                        except _Break:
                            return ('break', None)
                        except _Continue:
                            return ('continue', None)
                        if st is mid:
                            env.vars[tname] = TM      # the float midpoint, about which only the case assumption is known
                finally:
                    it.func_stack.pop()
                return ('next-iteration', (env.vars[lo_name], env.vars[hi_name]))
            try:
                paths = explore(ctx.model, th3, {'presign': pres})
                stuck = [p for p in paths if p.raised is None and p.value[0] in ('next-iteration', 'continue')]
                detail = ''
                if stuck:
                    p = stuck[0]
                    detail = 'the iteration continues with an unchanged bracket (lo, hi) = %s when %s: the loop spins to maxits and raises' % (
                        tuple(map(short, p.value[1])) if p.value[1] else '', p.cond_text()[:200])
                ctx.record('R07.3', fi.qualname, case, not stuck, detail=detail, where=where(fi, loop), sample={'paths': len(paths)})
            except Undecidable as e:
                ctx.undecided('R07.3', fi.qualname, case, str(e), where=where(fi, loop))

    # ---------------------------------------------------------------- R07.4 Path branch
    fi = entry_fi
    for entry, k in [(e_, k_) for e_ in ('inv_arclength', 'Path.ilength') for k_ in range(3)]:
        rec = {}

        def th4(it, k=k, rec=rec, entry=entry):
            rec.clear()
            segs = [it.construct('path.Line', Rat.csym('A%d' % j), Rat.csym('B%d' % j)) for j in range(3)]
            p = it.construct('path.Path', *segs)
            lens = [Rat.sym('len%d' % j) for j in range(3)]
            poly.POSITIVE.update({'len0', 'len1', 'len2'})
            it.call_hooks['path.Line.length'] = lambda it2, a, kw: lens[[i for i, x in enumerate(segs) if x is a[0]][0]]
            it.call_hooks['path.Path.length'] = lambda it2, a, kw: lens[0] + lens[1] + lens[2]

            def inner(it2, a, kw):
                if a and a[0] is p:
                    return NotImplemented          # the call on the path itself runs the real code; only the recursion is summarised
                rec['inner'] = (a, dict(kw))
                return Rat.sym('TT')
            it.call_hooks[Q] = inner
            # a segment's own ilength (when the Path branch recurses through the method) is the same recursion
            it.call_hooks['path.Line.ilength'] = inner

            def t2T(it2, a, kw):
                rec['t2T'] = a[1:]
                return Rat.sym('RESULT')
            it.call_hooks['path.Path.t2T'] = t2T
            kws = {'s_tol': Rat.sym('tol'), 'maxits': Rat.sym('mi'), 'error': Rat.sym('err'), 'min_depth': Rat.sym('md')}
            if entry == 'inv_arclength':
                r = it.call(it.closure_of(Q), [p, S], kws)
            else:
                r = it.call_method(p, 'ilength', S, **kws)
            return r, dict(rec), segs, lens

        def judge4(v, k=k):
            r, rec, segs, lens = v
            if 'inner' not in rec:
                return True, ''      # boundary shortcut path
            a, kw = rec['inner']
            idx = [i for i, x in enumerate(segs) if x is a[0]]
            if not idx:
                return False, 'recursion is not on a segment of the path'
            j = idx[0]
            if j != k:
                return True, ''      # judged under its own k
            consumed = sum(lens[:j], Rat.const(0))
            pairs = [('s handed down', a[1], S - consumed), ('s_tol', kw.get('s_tol', 0), Rat.sym('tol')), ('maxits', kw.get('maxits', 0), Rat.sym('mi')),
                     ('error', kw.get('error', 0), Rat.sym('err')), ('min_depth', kw.get('min_depth', 0), Rat.sym('md'))]
            ok, d = decide_all_equal(pairs)
            if ok is not True:
                return ok, d
            t = rec.get('t2T')
            if not t or not (isinstance(t[0], int) and t[0] == j):
                return False, 't2T must be given the segment INDEX %d (got %r): a segment object is looked up by equality and finds the first equal segment' % (j, t[0] if t else None)
            return decide_all_equal([('t handed to t2T', t[1], Rat.sym('TT')), ('result', r, Rat.sym('RESULT'))])
        ob('R07.4').run(fi if entry == 'inv_arclength' else mdl.func('path.Path.ilength'), 'Path branch (entered through %s) when s falls on segment %d' % (entry, k),
                        th4, judge4, allowed_raises=('ValueError', 'AssertionError'))

    # ---------------------------------------------------------------- R07.5 delegation (or an equivalent own contract)
    for cname in ('Line', 'QuadraticBezier', 'CubicBezier', 'Arc', 'Path'):
        f = mdl.func('path.%s.ilength' % cname)
        rec = {}

        def th5(it, f=f, rec=rec, cname=cname):
            rec.clear()
            it.call_hooks[Q] = lambda it2, a, kw: rec.update(a=a, kw=dict(kw)) or Rat.sym('R')
            if cname == 'Line':
                self_ = it.construct('path.Line', *cpoints(2))
            elif cname == 'QuadraticBezier':
                self_ = it.construct('path.QuadraticBezier', *cpoints(3))
            elif cname == 'CubicBezier':
                self_ = it.construct('path.CubicBezier', *cpoints(4))
            elif cname == 'Arc':
                self_ = sym_arc(it, 'A', True, False)
            else:
                self_ = it.construct('path.Path', it.construct('path.Line', *cpoints(2)))
            it.call_hooks['path.%s.length' % cname] = lambda it2, a, kw: L
            if cname == 'Path':
                it.call_hooks['path.Line.length'] = lambda it2, a, kw: L      # its only segment: the same length
            r = it.call_method(self_, 'ilength', S, s_tol=Rat.sym('tol'), maxits=Rat.sym('mi'), error=Rat.sym('err'), min_depth=Rat.sym('md'))
            return r, dict(rec), self_, path_sign(it, S), path_sign(it, S - L), it, cname

        def judge5(v):
            r, rec, self_, s_sign, sl_sign, it_, cname_ = v
            own = 'a' not in rec
            if not own:
                a, kw = rec['a'], rec['kw']
                params = ['curve', 's', 's_tol', 'maxits', 'error', 'min_depth']
                bound = dict(zip(params, a))
                bound.update(kw)
                if bound.get('curve') is not self_:
                    segs_ = self_.attrs.get('_segments') if isinstance(self_, Obj) else None
                    if segs_ is not None and any(bound.get('curve') is x for x in segs_):
                        return True, ''        # the Path branch lives in the method and recurses on a segment: judged by R07.4 through this entry
                    return False, 'first argument is not self'
            if own:
                # not delegated: the method must honour the contract itself on this path
                inside = s_sign <= frozenset('0+') and sl_sign <= frozenset('-0')
                if not inside:
                    return False, 'does not delegate to inv_arclength and returns a result on a path that has not established 0 <= s <= L'
                if s_sign == frozenset('0') or sl_sign == frozenset('0'):
                    want_ = 0 if s_sign == frozenset('0') else 1
                    ok_ = to_rat(r).equals(Rat.const(want_))
                    return ok_, '' if ok_ else 'own implementation returns %s at s = %s' % (short(r, 30), '0' if want_ == 0 else 'L')
                if cname_ == 'Line':
                    # a Line's arc length is linear in t: the own answer must be s / L (0 and 1 at the ends)
                    ok_ = it_.trace.reduce(to_rat(r) * L - S).is_zero()
                    return ok_, '' if ok_ else 'own closed form returns %s, not s/L' % short(r, 40)
                return None, 'own implementation instead of inv_arclength: inverse relation not comparable'
            return decide_all_equal([('s', bound.get('s', 0), S), ('s_tol', bound.get('s_tol', 0), Rat.sym('tol')), ('maxits', bound.get('maxits', 0), Rat.sym('mi')),
                                     ('error', bound.get('error', 0), Rat.sym('err')), ('min_depth', bound.get('min_depth', 0), Rat.sym('md')),
                                     ('result', r, Rat.sym('R'))])
        opts = dict(arc_opts(mdl) if cname == 'Arc' else {}, time_limit=20)
        ob('R07.5').run(f, '%s.ilength forwards its arguments' % cname, th5, judge5, allowed_raises=('AssertionError', 'ValueError'), opts=opts)

    # concrete straight-but-unevenly-parameterised Beziers (all control points on one line, speed not constant): whatever route
    # ilength takes, a parameter it computes itself must satisfy length(0, t) == s for the curve's real arc length
    shapes = [('Line', [0, 4], lambda t: 4 * t, 4), ('QuadraticBezier', [0, 0, 2], lambda t: 2 * t * t, 2),
              ('CubicBezier', [0, 0, 0, 3], lambda t: 3 * t * t * t, 3), ('CubicBezier', [0, 1, 2, 3], lambda t: 3 * t, 3)]
    for cname, pts, arc, total in shapes:
        f = mdl.func('path.%s.ilength' % cname)

        def th6(it, cname=cname, pts=pts, arc=arc):
            it.call_hooks[Q] = lambda it2, a, kw: 'INV'

            def length(it2, a, kw):
                t0 = to_rat(kw.get('t0', a[1] if len(a) > 1 else 0))
                t1 = to_rat(kw.get('t1', a[2] if len(a) > 2 else 1))
                return arc(t1) - arc(t0)
            it.call_hooks['path.%s.length' % cname] = length
            seg = it.construct('path.' + cname, *[Rat.const(x) for x in pts])
            return it.call_method(seg, 'ilength', S)

        def judge6(v, arc=arc):
            if isinstance(v, str) and v == 'INV':
                return True, ''
            try:
                t = to_rat(v)
            except Exception:
                return None, 'returns %r' % (v,)
            ok = (arc(t) - S).is_zero()
            return ok, '' if ok else 'returns t = %s without inverting the arc length: length(0, t) = %s, not s' % (short(t, 30), short(arc(t), 40))
        ob('R07.5').run(f, '%s%r.ilength(s) inverts the arc length' % (cname, tuple(pts)), th6, judge6, allowed_raises=('AssertionError', 'ValueError'),
                        opts={'presign': [(S, '+'), (S - total, '-')], 'time_limit': 20})


def _is_midpoint(e):
    """(a + b)/2 with names a, b -> (a, b)"""
    if isinstance(e, ast.BinOp) and isinstance(e.op, ast.Div) and isinstance(e.right, ast.Constant) and e.right.value in (2, 2.0) \
            and isinstance(e.left, ast.BinOp) and isinstance(e.left.op, ast.Add) and isinstance(e.left.left, ast.Name) \
            and isinstance(e.left.right, ast.Name):
        return e.left.left.id, e.left.right.id
    if isinstance(e, ast.BinOp) and isinstance(e.op, ast.Mult) and isinstance(e.left, ast.Constant) and e.left.value == 0.5:
        return _is_midpoint(ast.BinOp(left=e.right, op=ast.Div(), right=ast.Constant(value=2)))
    return None
