"""C03 - Line/Quadratic/Cubic point, poly, points and derivative are the Bernstein curve.

Every obligation is an identity over C in the control points and t, decided by normal-form
comparison of what the *source* computes (interpreted over svtstatic.poly) with the Bernstein
definition built here.  Not decided: the 'numerically to within rounding' clause."""
from .common import *

PROPERTY = 'C03'
LEVEL = 'proof'

CLASSES = [('Line', 2), ('QuadraticBezier', 3), ('CubicBezier', 4)]


def run(ctx):
    ctx.assume('Python arithmetic on these expressions is ring arithmetic over C (rounding not modelled)')
    ctx.assume('numpy.poly1d is modelled as a formal polynomial (Horner evaluation, .deriv, arithmetic)')
    R = 'R03'
    ctx.rule(R + '.point', 'point(t) == sum C(n,i)(1-t)^(n-i) t^i P_i as a polynomial identity', 3)
    ctx.rule(R + '.ends', 'point(0) == start and point(1) == end identically', 3)
    ctx.rule(R + '.poly', 'poly()(t), poly(return_coeffs=True) and points([t,u]) denote the same polynomial', 9)
    ctx.rule(R + '.deriv', 'derivative(t, n) is the n-th formal t-derivative for n=1..deg, 0 for n>deg, ValueError for n<1', 3 * 6)
    ctx.rule(R + '.bpoints', 'bpoints()/len()/[] list the control points in constructor order', 3)
    ctx.rule(R + '.basis', 'bezier2polynomial / polynomial2bezier are mutually inverse and agree with poly()', 9)
    ctx.rule(R + '.bezier_point', 'bezier_point(p, t) for len(p)=1..4 is the Bernstein curve', 4)
    ctx.rule(R + '.dispatch', 'bpoints2bezier / bezier_segment / poly2bez / bez2poly map length <-> class bijectively and preserve the curve', 12)
    ob = lambda rule: Obligation(ctx, rule)
    mdl = ctx.model

    for cname, n in CLASSES:
        P = cpoints(n)
        B = bernstein(P, T)
        cq = 'path.' + cname
        deg = n - 1

        # --- point
        f = mdl.func(cq + '.point')
        ob(R + '.point').run(f, '%s.point(t) vs Bernstein deg %d' % (cname, deg),
                             lambda it, P=P, cq=cq: it.call_method(it.construct(cq, *P), 'point', T),
                             lambda v, B=B: decide_equal(v, B),
                             sample={'lhs': '%s(P0..P%d).point(t)' % (cname, deg), 'rhs': short(B)})
        ob(R + '.ends').run(f, '%s.point(0)==start, point(1)==end' % cname,
                            lambda it, P=P, cq=cq: (it.call_method(it.construct(cq, *P), 'point', 0),
                                                    it.call_method(it.construct(cq, *P), 'point', 1)),
                            lambda v, P=P: decide_all_equal([('point(0)', v[0], P[0]), ('point(1)', v[1], P[-1])]))

        # --- poly / coefficients / points
        f = mdl.func(cq + '.poly')
        ob(R + '.poly').run(f, '%s.poly()(t)' % cname,
                            lambda it, P=P, cq=cq: it.call_method(it.construct(cq, *P), 'poly'),
                            lambda v, B=B: (False, 'not a poly1d') if not isinstance(v, PolyT) else decide_equal(v(T), B))

        def judge_coeffs(v, B=B, deg=deg):
            cs = list(v)
            if len(cs) != deg + 1:
                return False, 'expected %d coefficients, got %d' % (deg + 1, len(cs))
            val = Rat.const(0)
            for c in cs:
                val = val * T + to_rat(c)
            return decide_equal(val, B)
        ob(R + '.poly').run(f, '%s.poly(return_coeffs=True)' % cname,
                            lambda it, P=P, cq=cq: it.call_method(it.construct(cq, *P), 'poly', return_coeffs=True),
                            judge_coeffs)
        f = mdl.func(cq + '.points')
        ob(R + '.poly').run(f, '%s.points([t,u])' % cname,
                            lambda it, P=P, cq=cq: it.call_method(it.construct(cq, *P), 'points', [T, U]),
                            lambda v, P=P, B=B: decide_all_equal([('points[0]', list(v)[0], B),
                                                               ('points[1]', list(v)[1], bernstein(P, U))]))

        # --- derivative
        f = mdl.func(cq + '.derivative')
        for k in (1, 2, 3, 4, 5):
            expected = nderiv(B, 't', k)
            ob(R + '.deriv').run(f, '%s.derivative(t, n=%d)' % (cname, k),
                                 lambda it, P=P, cq=cq, k=k: it.call_method(it.construct(cq, *P), 'derivative', T, n=k),
                                 lambda v, e=expected: decide_equal(v, e),
                                 allowed_raises=('AssertionError',),
                                 sample={'n': k, 'rhs': short(expected)})
        # degenerate control points (the leading coefficients of the polynomial vanish EXACTLY: a degree-elevated curve, all points
        # equal): a derivative read off a coefficient table whose length follows the degree goes wrong only here
        if n >= 3:
            Qd = cpoints(2, 'q')
            if n == 3:
                degs = [('degree-elevated line', [Qd[0], (Qd[0] + Qd[1]) / 2, Qd[1]]), ('all control points equal', [Qd[0]] * 3)]
            else:
                Qq = cpoints(3, 'q')
                degs = [('degree-elevated quadratic', [Qq[0], (Qq[0] + 2 * Qq[1]) / 3, (2 * Qq[1] + Qq[2]) / 3, Qq[2]]),
                        ('degree-elevated line', [Qd[0], (2 * Qd[0] + Qd[1]) / 3, (Qd[0] + 2 * Qd[1]) / 3, Qd[1]]), ('all control points equal', [Qd[0]] * 4)]
            for dl, Pd in degs:
                for k in (1, 2, 3):
                    expd = nderiv(bernstein(Pd, T), 't', k)
                    ob(R + '.deriv').run(f, '%s.derivative(t, n=%d) on a %s' % (cname, k, dl),
                                         lambda it, Pd=Pd, cq=cq, k=k: it.call_method(it.construct(cq, *Pd), 'derivative', T, n=k),
                                         lambda v, e=expd: decide_equal(v, e), allowed_raises=('AssertionError',))
        for k in (0, -1):
            expect_raise(ctx, R + '.deriv', f, '%s.derivative(t, n=%d) raises' % (cname, k),
                         lambda it, P=P, cq=cq, k=k: it.call_method(it.construct(cq, *P), 'derivative', T, n=k),
                         ('ValueError',), ignore_conditions=('AssertionError',))

        # --- bpoints / len / getitem
        f = mdl.func(cq + '.bpoints')

        def th_bp(it, P=P, cq=cq, n=n):
            o = it.construct(cq, *P)
            return (it.call_method(o, 'bpoints'), it.call_method(o, '__len__'),
                    [it.call_method(o, '__getitem__', i) for i in range(n)])

        def judge_bp(v, P=P, n=n):
            bp, ln, items = v
            if len(bp) != n or ln != n:
                return False, 'length %r/%r' % (len(bp), ln)
            return decide_all_equal([('bpoints[%d]' % i, bp[i], P[i]) for i in range(n)] +
                                    [('self[%d]' % i, items[i], P[i]) for i in range(n)])
        ob(R + '.bpoints').run(f, '%s.bpoints()/len/[]' % cname, th_bp, judge_bp)

        # --- change of basis
        fb2p = mdl.func('bezier.bezier2polynomial')
        fp2b = mdl.func('bezier.polynomial2bezier')

        def horner(cs):
            val = Rat.const(0)
            for c in cs:
                val = val * T + to_rat(c)
            return val
        ob(R + '.basis').run(fb2p, 'bezier2polynomial(len %d) Horner value' % n,
                             lambda it, P=P: it.call(it.closure_of('bezier.bezier2polynomial'), [tuple(P)], {}),
                             lambda v, B=B: decide_equal(horner(list(v)), B))
        ob(R + '.basis').run(fp2b, 'polynomial2bezier(bezier2polynomial(p)) == p, len %d' % n,
                             lambda it, P=P: it.call(it.closure_of('bezier.polynomial2bezier'),
                                                     [it.call(it.closure_of('bezier.bezier2polynomial'), [tuple(P)], {})], {}),
                             lambda v, P=P: (False, 'wrong length') if len(v) != len(P) else
                             decide_all_equal([('bpoint %d' % i, v[i], P[i]) for i in range(len(P))]))
        C = [Rat.csym('c%d' % i) for i in range(n)]
        ob(R + '.basis').run(fb2p, 'bezier2polynomial(polynomial2bezier(c)) == c, order %d' % deg,
                             lambda it, C=C: it.call(it.closure_of('bezier.bezier2polynomial'),
                                                     [it.call(it.closure_of('bezier.polynomial2bezier'), [tuple(C)], {})], {}),
                             lambda v, C=C: (False, 'wrong length') if len(v) != len(C) else
                             decide_all_equal([('coeff %d' % i, list(v)[i], C[i]) for i in range(len(C))]))

        # --- dispatch helpers
        fd = mdl.func('path.bpoints2bezier')

        def judge_seg(v, cname=cname, P=P):
            if not isinstance(v, Obj) or v.cls.name != cname:
                return False, 'returned %r, expected a %s' % (v, cname)
            return True, ''

        def seg_and_curve(fn_qual, mkargs):
            def th(it, P=P):
                seg = it.call(it.closure_of(fn_qual), *mkargs(it, P))
                pt = it.call_method(seg, 'point', T) if isinstance(seg, Obj) else None
                return seg, pt
            return th

        def judge_seg_curve(v, cname=cname, B=B):
            seg, pt = v
            ok, d = judge_seg(seg)
            if not ok:
                return ok, d
            return decide_equal(pt, B)
        ob(R + '.dispatch').run(fd, 'bpoints2bezier(len %d) -> %s' % (n, cname),
                                seg_and_curve('path.bpoints2bezier', lambda it, P: ([list(P)], {})), judge_seg_curve)
        ob(R + '.dispatch').run(mdl.func('path.bezier_segment'), 'bezier_segment(*%d points) -> %s' % (n, cname),
                                seg_and_curve('path.bezier_segment', lambda it, P: (list(P), {})), judge_seg_curve)

        def mk_poly2bez(it, P):
            o = it.construct(cq, *P)
            return ([it.call_method(o, 'poly')], {})
        ob(R + '.dispatch').run(mdl.func('path.poly2bez'), 'poly2bez(%s.poly()) -> same curve' % cname,
                                seg_and_curve('path.poly2bez', mk_poly2bez), judge_seg_curve)

        def th_bez2poly(it, P=P, cq=cq):
            o = it.construct(cq, *P)
            f2 = it.closure_of('path.bez2poly')
            # every option combination for both input forms (segment object, tuple of control points)
            both = [(inp, nm) for inp, nm in ((o, 'segment'), (tuple(P), 'tuple'))]
            return (it.call(f2, [o], {}), it.call(f2, [o], {'return_poly1d': True}),
                    it.call(f2, [tuple(P)], {'numpy_ordering': False}),
                    [(nm, it.call(f2, [inp], {'numpy_ordering': False}), it.call(f2, [inp, True, False], {})) for inp, nm in both])

        def judge_bez2poly(v, B=B):
            cs, p1d, rev, combos = v
            if not isinstance(p1d, PolyT):
                return False, 'return_poly1d did not give a poly1d'
            pairs = [('coeffs', horner(list(cs)), B), ('poly1d', p1d(T), B), ('reverse ordering', horner(list(reversed(list(rev)))), B)]
            # (numpy_ordering=False together with return_poly1d=True is left out: what a poly1d of standard-ordered coefficients
            # should denote is not said anywhere)
            for nm, rv, pos in combos:
                pairs.append(('%s input, numpy_ordering=False' % nm, horner(list(reversed(list(rv)))), B))
                pairs.append(('%s input, positional (True, False)' % nm, horner(list(pos)), B))
            return decide_all_equal(pairs)
        ob(R + '.dispatch').run(mdl.func('path.bez2poly'), 'bez2poly(%s) three output forms' % cname, th_bez2poly, judge_bez2poly)

    # --- bezier_point for degrees 0..3 (the explicit Horner branches)
    fbp = mdl.func('bezier.bezier_point')
    for n in (1, 2, 3, 4):
        P = cpoints(n)
        B = bernstein(P, T)
        ob(R + '.bezier_point').run(fbp, 'bezier_point(len %d)' % n,
                                    lambda it, P=P: it.call(it.closure_of('bezier.bezier_point'), [tuple(P), T], {}),
                                    lambda v, B=B: decide_equal(v, B))
    ctx.exhaustive = True
