"""C06 - length() is the true arc length (definitional clauses only).

Decided (necessary conditions): what is integrated is the speed |derivative(tau)| over exactly
[t0,t1], with and without scipy (the fallback gets the same interval and the curve's own end points);
segment_length's recursion partitions the interval and its base value is the two-chord sum;
Path.length composes first partial + whole middle segments + last partial; Line.length is
|end-start|(t1-t0); the quadratic closed form is the antiderivative of the speed and vanishes at
t1=t0, its degenerate and collinear (isnan) branches are the exact integrals.
NOT decided - and these are the heart of C06: accuracy of quadrature and of the chord recursion,
for which float inputs the closed form yields NaN/inf, additivity as a numeric statement."""
import ast
from svtstatic import poly
from svtstatic.values import ExtRef
from svtstatic.interp import Env
from .common import *

PROPERTY = 'C06'
LEVEL = 'other'
T0, T1 = Rat.sym('t0'), Rat.sym('t1')
TAU = Rat.sym('tau')
PRE = [(T0, '0+'), (T1 - 1, '-0'), (T0 - T1, '-0'), (T0 - 1, '-0'), (T1, '0+')]


def run(ctx):
    mdl = ctx.model
    ctx.assume('arc length of a C1 curve is the integral of |derivative| (definition); quadrature/recursion accuracy is not analysed')
    ctx.rule('R06.1', 'with scipy: quad integrates lambda tau: |self.derivative(tau)| over (t0,t1) with epsabs=error; without: '
                      'segment_length(self, t0, t1, self.point(t0), self.point(t1), error, min_depth, 0)', 6)
    ctx.rule('R06.3', 'segment_length: midpoint split, two recursive calls covering [start,mid] and [mid,end] sharing the mid point at '
                      'depth+1; base value = sum of the two chords', 2)
    ctx.rule('R06.4', 'Path.length(T0,T1) = first partial + whole segments strictly between + last partial; one segment: direct; '
                      'Line.length = |end-start|*(t1-t0)', 4)
    ctx.rule('R06.5', 'QuadraticBezier.length closed form: c2 t^2+c1 t+c0 == |derivative(t)|^2, d s/d t1 == speed(t1), s(t1=t0) == 0; '
                      'degenerate branch |b|(t1-t0)', 3)
    ctx.rule('R06.6', 'isnan fallback: the three returns are the exact integrals of | |b| - 2|a| t | over [t0,t1]', 3)
    ob = lambda r: Obligation(ctx, r)

    # ---------------------------------------------------------------- R06.1
    for cname in ('CubicBezier', 'Arc'):
        f = mdl.func('path.%s.length' % cname)
        for avail in (True, False):
            for full in (False, True):
                rec = {}

                def quad_hook(it, a, k, rec=rec):
                    rec['quad'] = (a, k)
                    return (Rat.sym('QUAD'), Rat.sym('QERR'))

                def sl_hook(it, a, k, rec=rec):
                    rec['sl'] = (a, k)
                    return Rat.sym('SEGLEN')

                def th(it, cname=cname, rec=rec, full=full):
                    rec.clear()
                    if cname == 'Arc':
                        seg = sym_arc(it, 'A', True, False)
                    else:
                        seg = it.construct('path.CubicBezier', *cpoints(4))
                    a0, a1 = (0, 1) if full else (T0, T1)
                    r = it.call_method(seg, 'length', a0, a1, error=Rat.sym('err'), min_depth=Rat.sym('md'))
                    out = {'r': r, 'seg': seg, 'rec': dict(rec), 'a0': a0, 'a1': a1}
                    if 'quad' in rec:
                        fn = rec['quad'][0][0]
                        out['integrand'] = it.call(fn, [TAU], {})
                        out['speed'] = apply_fn('abs', to_rat(it.call_method(seg, 'derivative', TAU)))
                    out['p0'] = it.call_method(seg, 'point', a0)
                    out['p1'] = it.call_method(seg, 'point', a1)
                    return out

                def judge(v, avail=avail):
                    rec = v['rec']
                    if avail:
                        if 'quad' not in rec or 'sl' in rec:
                            return False, 'with scipy available the length must come from quad (calls seen: %s)' % sorted(rec)
                        a, k = rec['quad']
                        pairs = [('integrand', v['integrand'], v['speed']), ('lower bound', a[1], v['a0']), ('upper bound', a[2], v['a1']),
                                 ('result', v['r'], Rat.sym('QUAD'))]
                        if 'epsabs' in k:
                            pairs.append(('epsabs', k['epsabs'], Rat.sym('err')))
                        else:
                            return False, 'quad is not given epsabs=error'
                        return decide_all_equal(pairs)
                    if 'sl' not in rec or 'quad' in rec:
                        return False, 'without scipy the length must come from segment_length (calls seen: %s)' % sorted(rec)
                    a, k = rec['sl']
                    if len(a) != 8 or k:
                        return False, 'segment_length called with %d positional arguments' % len(a)
                    if a[0] is not v['seg']:
                        return False, 'segment_length is not given the segment itself'
                    return decide_all_equal([('start', a[1], v['a0']), ('end', a[2], v['a1']), ('start_point', a[3], v['p0']),
                                             ('end_point', a[4], v['p1']), ('error', a[5], Rat.sym('err')), ('min_depth', a[6], Rat.sym('md')),
                                             ('depth', a[7], 0), ('result', v['r'], Rat.sym('SEGLEN'))])
                opts = {'globals': {('*', '_quad_available'): avail}, 'ext_hooks': {'scipy.integrate.quad': quad_hook},
                        'call_hooks': {'path.segment_length': sl_hook}, 'presign': PRE}
                if cname == 'Arc':
                    opts = arc_opts(mdl, opts)
                ob('R06.1').run(f, '%s.length(%s) with scipy %s' % (cname, '0,1' if full else 't0,t1', 'available' if avail else 'unavailable'),
                                th, judge, allowed_raises=('AssertionError',), opts=opts)

    # ---------------------------------------------------------------- R06.3
    fsl = mdl.func('path.segment_length')
    for deep in (True, False):
        calls = []

        def sl2(it, a, k, calls=calls):
            if not calls:
                calls.append('top')
                return NotImplemented
            calls.append((a, k))
            return Rat.sym('REC%d' % (len(calls) - 1))

        def recursion(it, f, a, k, calls=calls):
            # the recursive step, wherever it lives: a function of the module calling ITSELF (segment_length, or a private worker behind it)
            if calls and f.info is not None and it.func_stack and it.func_stack[-1] == f.info.qualname and f.info.module.name == fsl.module.name:
                def h(it2, a2, k2, f=f):
                    b = bind_args(it2, f.info, a2, k2, drop_self=False)
                    calls.append(([b.get('curve', a2[0]), b.get('start'), b.get('end'), b.get('start_point'), b.get('end_point'),
                                   b.get('error'), b.get('min_depth'), b.get('depth')], {}))
                    return Rat.sym('REC%d' % (len(calls) - 1))
                return h
            return None

        def th3(it, calls=calls, deep=deep):
            del calls[:]
            curve = Opaque('curve')
            it.hook_pred = recursion
            it.call_hooks['__curve_point__'] = None
            from svtstatic.values import Closure
            mids = []

            class _C(object):
                pass
            curve.attrs['point'] = ExtRef('__curve_point__')
            it.ext_hooks['__curve_point__'] = lambda it2, a2, k2: (mids.append(a2[0]) or Rat.csym('MID'))
            s, e = Rat.sym('s'), Rat.sym('e')
            sp, ep = Rat.csym('SP'), Rat.csym('EP')
            md = 1 if deep else 0
            r = it.call(it.closure_of('path.segment_length'), [curve, s, e, sp, ep, Rat.sym('err'), md, 0], {})
            return r, list(calls[1:]), mids, curve

        def judge3(v, deep=deep):
            r, calls, mids, curve = v
            s, e = Rat.sym('s'), Rat.sym('e')
            sp, ep, mp = Rat.csym('SP'), Rat.csym('EP'), Rat.csym('MID')
            if len(mids) != 1:
                return False, 'curve.point evaluated %d times' % len(mids)
            ok, d = decide_equal(mids[0], (s + e) / 2)
            if ok is not True:
                return ok, 'mid parameter: ' + d
            chord2 = apply_fn('abs', mp - sp) + apply_fn('abs', ep - mp)
            if not calls:
                return decide_equal(r, chord2)
            if len(calls) != 2:
                return False, '%d recursive calls' % len(calls)
            pairs = []
            exp = [(s, (s + e) / 2, sp, mp), ((s + e) / 2, e, mp, ep)]
            for i, ((a, k), x) in enumerate(zip(calls, exp)):
                if a[0] is not curve or len(a) != 8:
                    return False, 'recursive call %d has the wrong shape' % i
                pairs += [('call %d start' % i, a[1], x[0]), ('call %d end' % i, a[2], x[1]), ('call %d start_point' % i, a[3], x[2]),
                          ('call %d end_point' % i, a[4], x[3]), ('call %d error' % i, a[5], Rat.sym('err')), ('call %d depth' % i, a[7], 1)]
            pairs.append(('sum of halves', r, Rat.sym('REC1') + Rat.sym('REC2')))
            return decide_all_equal(pairs)
        ob('R06.3').run(fsl, 'segment_length: %s' % ('recursion step (depth < min_depth)' if deep else 'both outcomes of the error test'),
                        th3, judge3, opts={'call_hooks': {'path.segment_length': sl2}})

    # ---------------------------------------------------------------- R06.4
    fpl = mdl.func('path.Path.length')
    for i0, i1 in ((0, 0), (0, 1), (0, 2), (1, 2)):
        calls = []

        def len_hook(it, a, k, calls=calls):
            calls.append((a[0], a[1:], dict(k)))
            return Rat.sym('LEN%d' % (len(calls) - 1))

        def t2t_hook(it, a, k, i0=i0, i1=i1):
            T = to_rat(a[1])
            if T.equals(Rat.sym('TT0')):
                return (i0, Rat.sym('s0'))
            if T.equals(Rat.sym('TT1')):
                return (i1, Rat.sym('s1'))
            raise Undecidable('T2t called with an unexpected argument')

        def th4(it, calls=calls):
            del calls[:]
            segs = [it.construct('path.Line', Rat.csym('A%d' % k), Rat.csym('B%d' % k)) for k in range(3)]
            p = it.construct('path.Path', *segs)
            # the length table is there and fresh (whatever helper Path.length uses to make sure of that has nothing to measure)
            p.attrs['_length'] = Rat.sym('LTOT')
            p.attrs['_lengths'] = [Rat.sym('fr%d' % k) for k in range(3)]
            p.attrs['_length_tol'] = tuple(module_const(it, 'path', nm, Rat.const(0)) for nm in ('LENGTH_ERROR', 'LENGTH_MIN_DEPTH'))
            r = it.call_method(p, 'length', Rat.sym('TT0'), Rat.sym('TT1'))
            return r, list(calls), segs

        def judge4(v, i0=i0, i1=i1):
            r, calls, segs = v
            def kw(c):
                a, k = c[1], c[2]
                t0 = k.get('t0', a[0] if len(a) > 0 else 0)
                t1 = k.get('t1', a[1] if len(a) > 1 else 1)
                return c[0], to_rat(t0), to_rat(t1)
            got = [kw(c) for c in calls]
            if i0 == i1:
                exp = [(segs[i0], Rat.sym('s0'), Rat.sym('s1'))]
            else:
                exp = [(segs[i0], Rat.sym('s0'), Rat.const(1))] + [(segs[k], Rat.const(0), Rat.const(1)) for k in range(i0 + 1, i1)] + \
                      [(segs[i1], Rat.const(0), Rat.sym('s1'))]
            key = lambda x: (segs.index(x[0]), x[1].key(), x[2].key())
            if sorted(map(key, got)) != sorted(map(key, exp)):
                return False, 'pieces measured: %s; expected %s' % (sorted(map(key, got)), sorted(map(key, exp)))
            return decide_equal(r, sum((Rat.sym('LEN%d' % i) for i in range(len(calls))), Rat.const(0)))
        ob('R06.4').run(fpl, 'Path.length(T0,T1): T0 on segment %d, T1 on segment %d' % (i0, i1), th4, judge4,
                        opts={'call_hooks': {'path.Line.length': len_hook, 'path.Path.T2t': t2t_hook},
                              'presign': [(Rat.sym('TT0'), '+'), (Rat.sym('TT1') - 1, '-')]})
    fl = mdl.func('path.Line.length')
    P = cpoints(2)
    ob('R06.4').run(fl, 'Line.length(t0,t1) == |end-start|(t1-t0)',
                    lambda it: it.call_method(it.construct('path.Line', *P), 'length', T0, T1),
                    lambda v: decide_equal(v, apply_fn('abs', P[1] - P[0]) * (T1 - T0)))

    # ---------------------------------------------------------------- R06.5 / R06.6
    _quadratic(ctx, mdl)


def _quadratic(ctx, mdl):
    fq = mdl.func('path.QuadraticBezier.length')
    P = cpoints(3)
    A, B = Rat.csym('a'), Rat.csym('b')
    C2, C1, C0 = Rat.sym('c2'), Rat.sym('c1'), Rat.sym('c0')
    vals = [('a', P[0] - 2 * P[1] + P[2], A), ('b', 2 * (P[1] - P[0]), B),
            ('c2', 4 * (A.real() ** 2 + A.imag() ** 2), C2), ('c1', 4 * (A.real() * B.real() + A.imag() * B.imag()), C1),
            ('c0', B.real() ** 2 + B.imag() ** 2, C0)]

    def th(it):
        q = it.construct('path.QuadraticBezier', *P)
        s = it.call_method(q, 'length', T0, T1)
        tags = [d[2] for d in it.definitions]
        nan = it.trace.labels.get([k for k in it.trace.labels if k.startswith('isnan(')][0]) if any(
            k.startswith('isnan(') for k in it.trace.labels) else None
        absA, absB = apply_fn('abs', A), apply_fn('abs', B)
        deg = path_sign(it, absA - Rat.const(1e-12))
        tstar = absB / (2 * absA)
        return dict(s=to_rat(s), tags=tags, nan=nan, deg=deg, s1=path_sign(it, T1 - tstar), s0=path_sign(it, tstar - T0),
                    deriv=it.call_method(q, 'derivative', TAU))
    try:
        paths = explore(ctx.model, th, {'abstract_values': {'*': vals},
                                        'presign': [(T0 - 1, '-'), (T1, '+')]})
    except Undecidable as e:
        ctx.undecided('R06.5', fq.qualname, 'closed form', str(e), where=where(fq))
        return
    absA, absB = apply_fn('abs', A), apply_fn('abs', B)
    seen = {'main': None, 'deg': None, 'lt': None, 'gt': None, 'mid': None}
    notes = {}
    speed2_ok = None
    for p in paths:
        if p.raised is not None:
            continue
        v = p.value
        if 'a' not in v['tags'] or 'b' not in v['tags']:
            notes['main'] = 'a = P0-2P1+P2 and b = 2(P1-P0) were not recognised as locals'
            seen['main'] = None
            continue
        if speed2_ok is None:
            # derivative(tau) == b + 2 a tau in the control points, hence |derivative|^2 = c2 tau^2 + c1 tau + c0
            d = to_rat(v['deriv'])
            speed2_ok = decide_equal(d, (2 * (P[1] - P[0])) + 2 * (P[0] - 2 * P[1] + P[2]) * TAU)
        s = v['s']
        if v['deg'] == frozenset('-') or (not {'c2', 'c1', 'c0'} <= set(v['tags']) and s.equals(absB * (T1 - T0))):
            # the shortcut for a (nearly) vanishing second difference; WHICH smallness test guards it is a numeric choice (not decided)
            seen['deg'] = decide_equal(s, absB * (T1 - T0))
            continue
        if not {'c2', 'c1', 'c0'} <= set(v['tags']):
            notes['main'] = 'c2, c1, c0 were not recognised as the coefficients of |b + 2 a t|^2 (tags %s)' % v['tags']
            seen['main'] = (False, notes['main'])
            continue
        if v['nan'] is True:
            F = lambda t: absB * t - absA * t * t
            if v['s1'] == frozenset('-'):
                seen['lt'] = decide_equal(s, F(T1) - F(T0))
            elif v['s0'] == frozenset('-'):
                seen['gt'] = decide_equal(s, -(F(T1) - F(T0)))
            else:
                tstar = absB / (2 * absA)
                seen['mid'] = decide_equal(s, 2 * F(tstar) - F(T0) - F(T1))
            continue
        if v['nan'] is False or v['nan'] is None:
            r1 = decide_equal(s.diff('t1'), apply_fn('sqrt', C2 * T1 * T1 + C1 * T1 + C0))
            r2 = decide_equal(s.subst({'t1': T0}), 0)
            ok = True if (r1[0] is True and r2[0] is True) else (False if (r1[0] is False or r2[0] is False) else None)
            seen['main'] = (ok, '; '.join(x for x in ('ds/dt1: ' + r1[1] if r1[0] is not True else '', 's(t1=t0): ' + r2[1] if r2[0] is not True else '') if x))

    def rec(rule, key, construct):
        r = seen[key]
        if r is None:
            ctx.undecided(rule, fq.qualname, construct, notes.get(key, 'the branch was not reached on any explored path'), where=where(fq))
        else:
            ctx.record(rule, fq.qualname, construct, r[0], detail=r[1][:600], where=where(fq))
    if speed2_ok is not None:
        ctx.record('R06.5', fq.qualname, 'derivative(t) == b + 2 a t (so c2 t^2 + c1 t + c0 is the squared speed)', speed2_ok[0], detail=speed2_ok[1], where=where(fq))
    rec('R06.5', 'main', 'closed form: d s/d t1 == sqrt(c2 t1^2 + c1 t1 + c0) and s(t1=t0) == 0')
    rec('R06.5', 'deg', 'degenerate |a| ~ 0 branch: |b|(t1 - t0)')
    rec('R06.6', 'lt', 'isnan fallback, t1 < t*')
    rec('R06.6', 'gt', 'isnan fallback, t* < t0')
    rec('R06.6', 'mid', 'isnan fallback, t0 <= t* <= t1')
