"""C15 - unit_tangent, normal and curvature are the differential geometry of the curve.

Decided: normal == -1j * unit_tangent for all five classes; the regular-point tangent is
derivative/|derivative| (first derivative, same parameter); the singular fallback takes
sqrt(lim d^2/|d|^2) with the right numerator/denominator and parameter - and, as an information-flow
fact, cannot see the sign of d (known finding F11); curvature is |x'y''-y'x''|/(x'^2+y'^2)^(3/2) in
segment_curvature (both branches) and Path.curvature; Path.derivative rescales the n-th derivative
by length**n; Line.curvature == 0; Arc first/second derivatives are the t-derivatives of point (shared
with C04).  Not decided: limits as numeric statements, behaviour under transforms (C10 + these)."""
import ast
from svtstatic import poly
from svtstatic.values import ExtRef
from .common import *

PROPERTY = 'C15'
LEVEL = 'other'
I = Rat.const(1j)
TT = Rat.sym('t')


def seg_stub(it, d1=None, d2=None, polyv=None):
    """opaque segment whose derivative()/poly()/length() are symbols"""
    s = Opaque('segment')
    calls = []

    def deriv(it2, a, k):
        n = k.get('n', a[1] if len(a) > 1 else 1)
        calls.append((a[0] if a else None, n))
        return (d1 if (n == 1) else d2)
    it.ext_hooks['__deriv__'] = deriv
    it.ext_hooks['__poly__'] = lambda it2, a, k: polyv
    it.ext_hooks['__length__'] = lambda it2, a, k: Rat.sym('LEN')
    s.attrs['derivative'] = ExtRef('__deriv__')
    s.attrs['poly'] = ExtRef('__poly__')
    s.attrs['length'] = ExtRef('__length__')
    return s, calls


def run(ctx):
    mdl = ctx.model
    ctx.assume('ring semantics; |z| = sqrt(re^2+im^2); np.seterr is a no-op for the analysis')
    ctx.rule('R15.1', 'normal(t) == -1j * unit_tangent(t) (Line, QuadraticBezier, CubicBezier, Arc, Path)', 5)
    ctx.rule('R15.2', 'regular points: unit_tangent == derivative(t)/|derivative(t)| (first derivative, same t)', 4)
    ctx.rule('R15.3', 'singular fallback: sqrt(rational_limit(d^2, |d|^2, t)) with d = poly().deriv(); the result must retain the direction of d', 2)
    ctx.rule('R15.4', 'curvature == |x\'y\'\' - y\'x\'\'| / (x\'^2+y\'^2)^(3/2) (segment_curvature both branches, Path.curvature); '
                      'Path.derivative == seg.derivative(t,n)/length**n; Line.curvature == 0', 5)
    ctx.rule('R15.5', 'Arc.derivative(t, n) for n = 1, 2 is the t-derivative of point(t)', 2)
    ob = lambda r: Obligation(ctx, r)
    D1, D2 = Rat.csym('d1'), Rat.csym('d2')

    # ---------------------------------------------------------------- R15.1
    for cname in ('Line', 'QuadraticBezier', 'CubicBezier', 'Arc', 'Path'):
        f = mdl.func('path.%s.normal' % cname)

        def th(it, f=f, cname=cname):
            self_ = Opaque('self')
            seen = []
            it.ext_hooks['__ut__'] = lambda it2, a, k: seen.append(a) or Rat.csym('UT')
            self_.attrs['unit_tangent'] = ExtRef('__ut__')
            from svtstatic.values import Closure
            r = it.call_closure(Closure(f, f.node, None, f.module, self_, f.cls), [TT], {})
            return r, seen
        ob('R15.1').run(f, '%s.normal(t) == -1j*unit_tangent(t)' % cname, th,
                        lambda v: decide_all_equal([('normal', v[0], -I * Rat.csym('UT'))] +
                                                   [('parameter', v[1][0][0] if v[1] and v[1][0] else 0, TT)]))

    # ---------------------------------------------------------------- R15.2
    P = cpoints(2)
    ob('R15.2').run(mdl.func('path.Line.unit_tangent'), 'Line.unit_tangent == (end-start)/|end-start|',
                    lambda it: it.call_method(it.construct('path.Line', *P), 'unit_tangent', TT),
                    lambda v: decide_equal(v, (P[1] - P[0]) / apply_fn('abs', P[1] - P[0])), allowed_raises=('AssertionError',))

    def th_arc(it):
        arc = sym_arc(it, 'A', False, True)
        seen = []
        it.call_hooks['path.Arc.derivative'] = lambda it2, a, k: seen.append((a[1:], dict(k))) or D1
        return it.call_method(arc, 'unit_tangent', TT), seen
    ob('R15.2').run(mdl.func('path.Arc.unit_tangent'), 'Arc.unit_tangent == derivative(t)/|derivative(t)|', th_arc,
                    lambda v: decide_all_equal([('value', v[0], D1 / apply_fn('abs', D1)), ('parameter', v[1][0][0][0], TT)]) if
                    len(v[1]) >= 1 and (len(v[1][0][0]) == 1 or to_rat(v[1][0][0][1]).equals(1)) and v[1][0][1].get('n', 1) == 1
                    else (False, 'derivative is not called as derivative(t) / n=1'), allowed_raises=('AssertionError',), opts=arc_opts(mdl))
    fb = mdl.func('path.bezier_unit_tangent')

    def th_b(it):
        seg, calls = seg_stub(it, D1, D2, None)
        return it.call(it.closure_of('path.bezier_unit_tangent'), [seg, TT], {}), calls
    ob('R15.2').run(fb, 'bezier_unit_tangent main path == derivative(t)/|derivative(t)|', th_b,
                    lambda v: decide_all_equal([('value', v[0], D1 / apply_fn('abs', D1)), ('parameter', v[1][0][0], TT)]) if v[1] and v[1][0][1] == 1
                    else (False, 'first derivative not used'))
    for cname in ('QuadraticBezier', 'CubicBezier'):
        pass
    f = mdl.func('path.CubicBezier.unit_tangent')

    def th_del(it):
        got = {}
        it.call_hooks['path.bezier_unit_tangent'] = lambda it2, a, k: got.update(a=a) or 'UT'
        seg = it.construct('path.CubicBezier', *cpoints(4))
        seg2 = it.construct('path.QuadraticBezier', *cpoints(3))
        r1 = it.call_method(seg, 'unit_tangent', TT)
        a1 = got.get('a')
        r2 = it.call_method(seg2, 'unit_tangent', TT)
        return r1, a1, seg, r2, got.get('a'), seg2
    ob('R15.2').run(f, 'Quadratic/Cubic.unit_tangent delegate to bezier_unit_tangent(self, t)', th_del,
                    lambda v: (v[0] == 'UT' and v[1][0] is v[2] and to_rat(v[1][1]).equals(TT) and v[3] == 'UT' and v[4][0] is v[5], 'delegation broken'))

    # real segments with symbolic control points, at the end points and at a general parameter: wherever the first derivative
    # is not known to vanish the answer is its direction (an end point whose control point is merely NEAR it still has that
    # control point's direction)
    from fractions import Fraction as Fr
    for cname, n in (('QuadraticBezier', 3), ('CubicBezier', 4)):
        fu = mdl.func('path.%s.unit_tangent' % cname)
        for tv, tl in ((Rat.const(0), '0'), (Rat.const(1), '1'), (TT, 't'), (Rat.const(Fr(1, 2)), '1/2')):
            Pn = cpoints(n)

            def th_real(it, cname=cname, Pn=Pn, tv=tv):
                seg = it.construct('path.' + cname, *Pn)
                r = it.call_method(seg, 'unit_tangent', tv)
                d = it.call_method(seg, 'derivative', tv)
                return r, d, path_sign(it, apply_fn('abs', to_rat(d))), it

            def judge_real(v):
                r, d, sg, it = v
                d = to_rat(d)
                if d.is_zero() or sg == frozenset('0') or it.trace.reduce(d).is_zero():
                    return True, ''            # singular point: the fallback rule R15.3 applies
                d = it.trace.reduce(d)
                return decide_equal(it.trace.reduce(to_rat(r)), d / apply_fn('abs', d))
            ob('R15.2').run(fu, '%s.unit_tangent(%s) on symbolic control points == derivative/|derivative|' % (cname, tl), th_real, judge_real,
                            allowed_raises=('AssertionError', 'ValueError', 'ZeroDivisionError', 'FloatingPointError'))

    # ---------------------------------------------------------------- R15.3 fallback
    coeffs = [Rat.csym('k%d' % i) for i in range(3)]

    def fallback(it, sign):
        p = PolyT([c * sign for c in coeffs])
        seg, calls = seg_stub(it, Rat.const(0), D2, p)
        seen = {}

        def rl(it2, a, k):
            seen['args'] = a
            f_, g_, t0 = a
            return Rat(Poly.atom(poly.fn_atom('limit', to_rat(f_(TT)) * Rat.sym('__sep__') + to_rat(g_(TT)))))
        it.call_hooks['polytools.rational_limit'] = rl
        r = it.call(it.closure_of('path.bezier_unit_tangent'), [seg, TT], {})
        return r, seen, p

    def th_fb(it):
        r1, s1, p1 = fallback(it, 1)
        r2, s2, p2 = fallback(it, -1)
        return r1, s1, p1, r2

    def judge_args(v):
        r1, s1, p1, r2 = v
        if 'args' not in s1:
            return False, 'the fallback does not take a rational limit'
        f_, g_, t0 = s1['args']
        dp = p1.deriv()
        d = to_rat(dp(TT))
        re_, im_ = PolyT([c.real() for c in dp.c]), PolyT([c.imag() for c in dp.c])
        mag2 = to_rat(re_(TT)) ** 2 + to_rat(im_(TT)) ** 2
        ok, det = decide_all_equal([('numerator d^2', f_(TT), d * d), ('denominator |d|^2', g_(TT), mag2), ('parameter', t0, TT)])
        if ok is not True:
            return ok, det
        lim = Rat(Poly.atom(poly.fn_atom('limit', to_rat(f_(TT)) * Rat.sym('__sep__') + to_rat(g_(TT)))))
        return decide_equal(r1, apply_fn('sqrt', lim))
    ob('R15.3').run(fb, 'fallback == sqrt(rational_limit(d^2, |d|^2, t)), d = poly().deriv()', th_fb, judge_args)

    def judge_parity(v):
        r1, s1, p1, r2 = v
        same = to_rat(r1).equals(to_rat(r2))
        return (not same), '' if not same else ('the fallback gives the same value for d and -d (it depends on d only through d^2 and |d|^2): '
                                                 'the tangent of a curve leaving its singular point into the left half-plane comes out reversed')
    ctx_rule = 'R15.3'
    try:
        paths = explore(ctx.model, th_fb, {})
        ok, det = judge_parity(paths[0].value) if paths and paths[0].raised is None else (None, 'fallback not reached')
        ctx.record(ctx_rule, fb.qualname, 'fallback even in dseg_poly', ok, detail=det, where=where(fb))
    except Undecidable as e:
        ctx.undecided(ctx_rule, fb.qualname, 'fallback even in dseg_poly', str(e), where=where(fb))

    # ---------------------------------------------------------------- R15.4 curvature
    fc = mdl.func('path.segment_curvature')
    noerr = {'ext_hooks': {'numpy.seterr': lambda it, a, k: {}}}
    dx, dy, ddx, ddy = D1.real(), D1.imag(), D2.real(), D2.imag()
    kappa = apply_fn('abs', dx * ddy - dy * ddx) / apply_fn('sqrt', dx * dx + dy * dy) ** 3

    def th_c(it):
        seg, calls = seg_stub(it, D1, D2, None)
        return it.call(it.closure_of('path.segment_curvature'), [seg, TT], {}), calls
    ob('R15.4').run(fc, 'segment_curvature regular branch', th_c,
                    lambda v: decide_all_equal([('kappa', v[0], kappa)]) if sorted(n for _, n in v[1]) == [1, 2] else (False, 'derivatives used: %s' % v[1]),
                    opts=noerr)

    def th_c0(it):
        p = PolyT(coeffs + [Rat.csym('k3')])
        seg, calls = seg_stub(it, Rat.const(0), D2, p)
        seen = {}
        it.call_hooks['polytools.rational_limit'] = lambda it2, a, k: seen.update(a=a) or Rat.sym('LIM')
        r = it.call(it.closure_of('path.segment_curvature'), [seg, TT], {})
        return r, seen, p

    def judge_c0(v):
        r, seen, p = v
        if 'a' not in seen:
            return False, 'singular branch does not take a limit'
        f2, g2, t0 = seen['a']
        dp, ddp = p.deriv(), p.deriv().deriv()
        X = lambda q: to_rat(PolyT([c.real() for c in q.c])(TT))
        Y = lambda q: to_rat(PolyT([c.imag() for c in q.c])(TT))
        ok, det = decide_all_equal([('f^2', f2(TT), (X(dp) * Y(ddp) - Y(dp) * X(ddp)) ** 2), ('g^2', g2(TT), (X(dp) ** 2 + Y(dp) ** 2) ** 3),
                                    ('parameter', t0, TT)])
        if ok is not True:
            return ok, det
        if to_rat(r).equals(0):
            return True, ''    # the lim2 < 0 guard
        return decide_equal(r, apply_fn('sqrt', Rat.sym('LIM')))
    ob('R15.4').run(fc, 'segment_curvature singular branch: sqrt(lim (x\'y\'\'-y\'x\'\')^2 / (x\'^2+y\'^2)^3)', th_c0, judge_c0, opts=noerr)

    # Path-level wrappers.  The (segment, t) look-up itself is C05's subject; here the path gets a consistent symbolic length table
    # (fractions l0, l1, 1-l0-l1) so that whatever look-up helper the wrappers use runs for real, and the SEGMENT methods are hooked.
    from . import c05
    Tp = Rat.sym('T')
    wrap_opts = {'presign': [(Tp, '+'), (Tp - 1, '-'), (1 - Rat.sym('l0') - Rat.sym('l1'), '+')]}
    LS = [Rat.sym('l0'), Rat.sym('l1'), 1 - Rat.sym('l0') - Rat.sym('l1')]
    seg_len = lambda k: LS[k] * Rat.sym('Ltot')
    t_of = lambda k: (Tp - sum(LS[:k], Rat.const(0))) / LS[k]
    fpc = mdl.func('path.Path.curvature')

    def th_pc(it):
        p, segs = c05.mk_path(it)
        idx = lambda s_: [i for i, x in enumerate(segs) if x is s_][0]
        it.call_hooks['path.Line.derivative'] = lambda it2, a, k: Rat.csym('D%d_%d' % (k.get('n', a[2] if len(a) > 2 else 1), idx(a[0])))
        it.call_hooks['path.Line.joins_smoothly_with'] = lambda it2, a, k: True
        return it.call_method(p, 'curvature', Tp)

    def judge_pc(v):
        if isinstance(v, Opaque):
            return True, ''
        v = to_rat(v)
        last = ''
        for k in range(3):
            dz, ddz = Rat.csym('D1_%d' % k) / seg_len(k), Rat.csym('D2_%d' % k) / seg_len(k) ** 2
            kx = apply_fn('abs', dz.real() * ddz.imag() - dz.imag() * ddz.real()) / apply_fn('sqrt', dz.real() ** 2 + dz.imag() ** 2) ** 3
            ok, last = decide_equal(v, kx)
            if ok is True:
                return True, ''
        return False, 'not |x\'y\'\' - y\'x\'\'|/(x\'^2+y\'^2)^1.5 of the located segment\'s derivatives scaled by its length: ' + last
    ob('R15.4').run(fpc, 'Path.curvature formula', th_pc, judge_pc, opts=wrap_opts)

    fpd = mdl.func('path.Path.derivative')
    for n in (1, 2):
        def th_pd(it, n=n):
            p, segs = c05.mk_path(it)
            seen = []
            idx = lambda s_: [i for i, x in enumerate(segs) if x is s_][0]
            it.call_hooks['path.Line.derivative'] = lambda it2, a, k: seen.append((idx(a[0]), a[1:], dict(k))) or Rat.csym('DN%d' % idx(a[0]))
            return it.call_method(p, 'derivative', Tp, n), seen

        def judge_pd(v, n=n):
            r, seen = v
            if len(seen) != 1:
                return False, 'segment derivative used %d times' % len(seen)
            k_, a, k = seen[0]
            nn = k.get('n', a[1] if len(a) > 1 else 1)
            if nn != n:
                return False, 'segment derivative called with n=%r' % (nn,)
            return decide_all_equal([('local parameter', a[0], t_of(k_)), ('value', r, Rat.csym('DN%d' % k_) / seg_len(k_) ** n)])
        ob('R15.4').run(fpd, 'Path.derivative(T, n=%d) == seg.derivative(t, n)/seg.length()**n' % n, th_pd, judge_pd, opts=wrap_opts)
    # every segment class: curvature(t) is |x'y'' - y'x''| / |z'|^3 of ITS OWN derivative() (which R15.2/R15.5/C03 tie to point());
    # decided with derivative() replaced by symbols, so a closed form that bypasses the derivatives is judged through point()
    for cname in ('QuadraticBezier', 'CubicBezier', 'Arc'):
        fcv = mdl.func('path.%s.curvature' % cname)

        def th_cv(it, cname=cname):
            if cname == 'Arc':
                seg = sym_arc(it, 'A', True, False)
            else:
                seg = it.construct('path.' + cname, *cpoints({'QuadraticBezier': 3, 'CubicBezier': 4}[cname]))
            used = []

            def dh(it2, a, k):
                n_ = k.get('n', a[2] if len(a) > 2 else 1)
                used.append(n_)
                return D1 if n_ == 1 else D2
            it.call_hooks['path.%s.derivative' % cname] = dh
            return it.call_method(seg, 'curvature', TT), list(used), seg, it

        def judge_cv(v, cname=cname):
            r, used, seg, it = v
            if sorted(set(used)) == [1, 2]:
                return decide_equal(r, kappa)
            if used:
                return False, 'derivatives used: %s' % used
            # a closed form: compare with the definition applied to the segment's own point()
            del it.call_hooks['path.%s.derivative' % cname]
            z = to_rat(it.call_method(seg, 'point', TT))
            z1, z2 = nderiv(z, 't', 1), nderiv(z, 't', 2)
            exp = apply_fn('abs', z1.real() * z2.imag() - z1.imag() * z2.real()) / apply_fn('sqrt', z1.real() ** 2 + z1.imag() ** 2) ** 3
            ok, d = decide_equal(r, exp)
            return ok, '' if ok is True else 'closed-form curvature differs from |x\'y\'\' - y\'x\'\'|/|z\'|^3 of point(): ' + d
        ob('R15.4').run(fcv, '%s.curvature(t) is the curvature of its own derivatives' % cname, th_cv, judge_cv,
                        allowed_raises=('AssertionError',), opts=arc_opts(mdl, dict(noerr)) if cname == 'Arc' else noerr)
    flc = mdl.func('path.Line.curvature')
    ob('R15.4').run(flc, 'Line.curvature == 0', lambda it: it.call_method(it.construct('path.Line', *P), 'curvature', TT),
                    lambda v: decide_equal(v, 0))

    # ---------------------------------------------------------------- R15.5
    fd = mdl.func('path.Arc.derivative')
    for n in (1, 2):
        def th_d(it, n=n):
            a = sym_arc(it, 'A', True, False)
            return it.call_method(a, 'point', T), it.call_method(a, 'derivative', T, n)
        ob('R15.5').run(fd, 'Arc.derivative(t, %d)' % n, th_d, lambda v, n=n: decide_equal(v[1], nderiv(to_rat(v[0]), 't', n)),
                        allowed_raises=('AssertionError',), opts=arc_opts(mdl))
