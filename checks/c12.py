"""C12 - every transversal crossing is reported, exactly once (thin: necessary conditions only).

Decided: (a) Arc.phase2t hands _deg the lower end of the arc's angular interval for both signs of
delta and _deg shifts by a floor multiple of 360, so that phases on the arc map into [0,1];
(b) index domains of the de-duplication steps (polyroots, Path.intersect); (c) root / parameter
filters are closed intervals and the line solver visits each root once; (d) the boxes used to
prune the subdivision contain their curve pieces (cubic extrema complete - shared with C08).
NOT decided: completeness of recursive subdivision and of numeric root finding, tolerances."""
import ast
from svtstatic import poly
from .common import *
from . import c19, c08, c11

PROPERTY = 'C12'
LEVEL = 'other'


def run(ctx):
    mdl = ctx.model
    ctx.assume('documented ranges theta in [-180,180], delta in [-360,360]: the angular interval of an arc starts anywhere in [-540, 180]')
    ctx.rule('R12.2', 'Arc.phase2t: domain_lower_limit == theta for delta > 0 and theta + delta for delta < 0; t == (degs - theta)/delta; '
                      '_deg shifts by floor(limit/360)*360 (+360 when below the limit)', 2)
    ctx.rule('R19.4', 'index domain: indices select from the collection they enumerated (polyroots, Path.intersect de-duplication)', 2)
    ctx.rule('R12.3', 'filters are closed intervals ([0,1] for parameters, [0, line_length] for the abscissa): a root is discarded only on paths '
                      'that know it to be strictly outside; a repeated root is reported once', 2)
    ctx.rule('R12.4', 'pruning boxes of the subdivision are complete (cubic extrema: every interior critical point is a candidate)', 1)
    fi = mdl.func('path.Arc.phase2t')
    PSI = Rat.sym('psi')

    # ---------------------------------------------------------------- R12.2 the whole of phase2t, per sign of delta
    def split2(arg):
        """(a, b) of a two-argument function atom fn(a, b)"""
        b = arg.subst({'__sep__': Rat.const(0)})        # the argument pair is encoded linearly as a*__sep__ + b
        return arg.subst({'__sep__': Rat.const(1)}) - b, b

    for sweep in (False, True):
        def th2(it, sweep=sweep):
            arc = sym_arc(it, 'A', True, sweep)
            t = it.call_method(arc, 'phase2t', PSI)
            return t, arc, path_sign(it, arc.attrs['delta']), it

        def judge2(v):
            t, arc, sg, it = v
            theta, delta = arc.attrs['theta'], arc.attrs['delta']
            degs = to_rat(t) * delta + theta
            base = fd = None
            for a in degs.atoms():
                at = poly.atom_of(a)
                if at.fn == 'mod':
                    base = at
                if at.fn == 'floordiv':
                    fd = at
            if base is None:
                return None, 'the reduction of the phase modulo 2*pi was not recognised'
            ph, per = split2(base.arg)
            if not (ph.equals(PSI) and per.equals(2 * PI)):
                return False, 'the phase is reduced as (%s) mod (%s), expected psi mod 2*pi' % (short(ph, 30), short(per, 30))
            base_deg = Rat(Poly.atom(base)) * 180 / PI
            rest = degs - base_deg
            if fd is None:
                if rest.is_const():
                    return False, 'the phase is wrapped by a fixed %s degrees only: angular intervals that start below -360 (theta + delta down to -540) cannot be reached' % short(rest, 20)
                return None, 'the shift into [limit, limit+360) has an unrecognised form: %s' % short(rest, 80)
            limit, den = split2(fd.arg)
            if not den.equals(Rat.const(360)):
                return False, 'the lower limit is floor-divided by %s, expected 360' % short(den, 20)
            if sg == frozenset('+'):
                exp = theta
            elif sg <= frozenset('-0'):
                exp = theta + delta
            else:
                return False, 'the lower limit is not chosen by the sign of delta'
            ok, d = decide_equal(limit, exp)
            if ok is not True:
                return ok, 'for delta %s 0 the angular interval starts at %s, but the phase is shifted into [%s, ..+360)' % (
                    '>' if sg == frozenset('+') else '<', short(exp, 40), short(limit, 40))
            fdr = Rat(Poly.atom(fd))
            k = (rest - 360 * fdr) / 360
            f = k.as_fraction() if k.is_const() else None
            if f not in (0, 1):
                return False, 'degs - (phase mod 360) is %s, expected 360*floor(limit/360) (+360)' % short(rest, 80)
            below = path_sign(it, base_deg + 360 * fdr - limit)
            if f == 1 and below != frozenset('-'):
                return False, '360 is added on a path that does not know the shifted phase to lie below the limit'
            if f == 0 and not below <= frozenset('0+'):
                return False, 'the shifted phase is returned on a path that does not know it to be at or above the limit'
            return True, ''
        Obligation(ctx, 'R12.2').run(fi, 'phase2t (sweep=%s): limit per sign of delta, shift by floor(limit/360)*360 (+360), t formula' % sweep, th2, judge2,
                                     allowed_raises=('AssertionError',), opts=arc_opts(mdl))

    # ---------------------------------------------------------------- R19.4 instances
    for q in ('polytools.polyroots', 'path.Path.intersect'):
        c19._index_domain(ctx, mdl.func(q))

    # ---------------------------------------------------------------- R12.3 closed filters (semantic, per label path)
    fb = mdl.func('bezier.bezier_by_line_intersections')
    Bz = cpoints(3, 'B')
    Ln = cpoints(2, 'L')

    def th_bl(it):
        it.call_hooks['polytools.polyroots01'] = lambda it2, a, k: [Rat.sym('rho'), Rat.sym('rho')]     # a repeated root
        it.call_hooks['bezier.polyroots01'] = it.call_hooks['polytools.polyroots01']
        r = it.call(it.closure_of('bezier.bezier_by_line_intersections'), [tuple(Bz), tuple(Ln)], {})
        # abscissa of B(rho) along the line, as the function must compute it
        d = Ln[1] - Ln[0]
        length = apply_fn('abs', d)
        w = (bernstein(Bz, Rat.sym('rho')) - Ln[0]) * (length / d)
        x = w.real()
        return list(r), path_sign(it, x), path_sign(it, x - length), x, length

    def judge_bl(v):
        r, s0, s1, x, length = v
        if len(r) > 1:
            return False, 'a repeated root is reported %d times' % len(r)
        if len(r) == 1:
            ok = s0 <= frozenset('0+') and s1 <= frozenset('-0')
            if not ok:
                return False, 'a crossing is reported without knowing 0 <= abscissa <= line_length'
            return decide_all_equal([('bezier parameter', r[0][0], Rat.sym('rho')), ('line parameter', r[0][1], x / length)])
        strictly_out = s0 == frozenset('-') or s1 == frozenset('+')
        return strictly_out, '' if strictly_out else 'a root is discarded although its abscissa may lie ON an end of the line (filter not closed)'
    Obligation(ctx, 'R12.3').run(fb, 'bezier_by_line_intersections: closed abscissa filter, one report per root, parameter pairing', th_bl, judge_bl,
                                 allowed_raises=('AssertionError', 'ValueError'))

    # two DISTINCT roots: each is judged on its own (a root beyond the far end must not hide a later one that is on the line)
    def th_bl2(it):
        rh = [Rat.sym('rho1'), Rat.sym('rho2')]
        it.call_hooks['polytools.polyroots01'] = lambda it2, a, k: list(rh)
        it.call_hooks['bezier.polyroots01'] = it.call_hooks['polytools.polyroots01']
        r = it.call(it.closure_of('bezier.bezier_by_line_intersections'), [tuple(Bz), tuple(Ln)], {})
        d = Ln[1] - Ln[0]
        length = apply_fn('abs', d)
        out = []
        for rho in rh:
            x = ((bernstein(Bz, rho) - Ln[0]) * (length / d)).real()
            out.append((rho, path_sign(it, x), path_sign(it, x - length), x / length))
        return list(r), out

    def judge_bl2(v):
        r, roots = v
        for rho, s0, s1, lt in roots:
            rep = [p_ for p_ in r if to_rat(p_[0]).equals(rho)]
            if len(rep) > 1:
                return False, 'the root %s is reported %d times' % (short(rho, 10), len(rep))
            if rep:
                if not (s0 <= frozenset('0+') and s1 <= frozenset('-0')):
                    return False, 'the root %s is reported without knowing 0 <= abscissa <= line_length' % short(rho, 10)
                ok, d_ = decide_equal(rep[0][1], lt)
                if ok is not True:
                    return ok, 'line parameter of %s: %s' % (short(rho, 10), d_)
            elif not (s0 == frozenset('-') or s1 == frozenset('+')):
                return False, ('the root %s is dropped although this path does not know its abscissa to be strictly outside [0, line_length] '
                               '(it was never examined, or the filter is not closed)' % short(rho, 10))
        return True, ''
    Obligation(ctx, 'R12.3').run(fb, 'bezier_by_line_intersections: two distinct roots are judged independently', th_bl2, judge_bl2,
                                 allowed_raises=('AssertionError', 'ValueError'), opts={'presign': [(Rat.sym('rho1') - Rat.sym('rho2'), '-+')]})

    fa = mdl.func('path.Arc.intersect')

    def th_ab(it):
        arc = sym_arc(it, 'A', True, False)
        other = it.construct('path.QuadraticBezier', *cpoints(3, 'O'))
        it.call_hooks['polytools.polyroots01'] = lambda it2, a, k: [Rat.sym('rho1')]
        it.call_hooks['path.Arc.phase2t'] = lambda it2, a, k: Rat.sym('tarc')
        r = it.call_method(arc, 'intersect', other)
        return list(r), path_sign(it, Rat.sym('rho1')), path_sign(it, Rat.sym('rho1') - 1), path_sign(it, Rat.sym('tarc')), path_sign(it, Rat.sym('tarc') - 1)

    def judge_ab(v):
        r, a0, a1, b0, b1 = v
        if r:
            return True, ''
        out = a0 == frozenset('-') or a1 == frozenset('+') or b0 == frozenset('-') or b1 == frozenset('+')
        return out, '' if out else 'a root is discarded although both parameters may lie on the closed interval [0,1]'
    Obligation(ctx, 'R12.3').run(fa, 'Arc.intersect(Bezier): parameters are only discarded when strictly outside [0,1]', th_ab, judge_ab,
                                 allowed_raises=('AssertionError',), opts=arc_opts(mdl))

    # ---------------------------------------------------------------- R12.5 redundancy = closer than tol (absolute)
    ctx.rule('R12.5', 'Path.intersect drops a crossing only when an EARLIER crossing is known to lie within the absolute tolerance tol of it; '
                      'all others are kept (no relative tolerance: distinct crossings far from the origin must survive)', 1)
    fpi = mdl.func('path.Path.intersect')
    TOL = Rat.sym('tol')

    def th_dd(it):
        cz = lambda x, y: Rat.const(x) + Rat.const(1j) * Rat.const(y)
        s1 = [it.construct('path.Line', cz(0, 0), cz(10, 10)), it.construct('path.Line', cz(10, 10), cz(20, 0))]     # concrete, overlapping
        s2 = [it.construct('path.Line', cz(0, 10), cz(20, 5))]
        p1, p2 = it.construct('path.Path', *s1), it.construct('path.Path', *s2)
        it.call_hooks['path.Line.intersect'] = lambda it2, a, k: [(Rat.sym('t1_%d' % [i for i, x in enumerate(s1) if x is a[0]][0]), Rat.sym('t2'))]
        it.call_hooks['path.Path.t2T'] = lambda it2, a, k: Rat.sym('T')
        pts = {}

        def lp(it2, a, k):
            i = [i for i, x in enumerate(s1) if x is a[0]][0]
            return Rat.csym('X%d' % i)
        it.call_hooks['path.Line.point'] = lp
        r = it.call_method(p1, 'intersect', p2, tol=TOL)
        dist = apply_fn('abs', Rat.csym('X0') - Rat.csym('X1'))
        return [x[0][1] for x in r], s1, path_sign(it, dist - TOL)

    def judge_dd(v):
        kept, s1, sg = v
        idx = [[i for i, x in enumerate(s1) if x is g][0] for g in kept]
        if idx == [0, 1]:
            ok = sg <= frozenset('0+')
            return ok, '' if ok else 'both crossings are kept although they are known to be closer than tol'
        if idx == [0]:
            ok = sg == frozenset('-')
            return ok, '' if ok else ('the second crossing is dropped on a path that does not know |x0 - x1| < tol (known sign of |x0-x1|-tol: %s): '
                                      'the redundancy test is not the absolute distance test' % sorted(sg))
        return False, 'crossings kept: %s (the earlier one of a close pair must survive)' % idx
    Obligation(ctx, 'R12.5').run(fpi, 'joint-redundancy filter on two crossings', th_dd, judge_dd, allowed_raises=('AssertionError',),
                                 opts={'presign': [(TOL, '+')]})

    # ---------------------------------------------------------------- R12.6 two crossings found on disjoint pairs of pieces
    ctx.rule('R12.6', 'bezier_intersections, scenarios of overlapping small pairs of pieces: pairs that share no piece (distinct crossings under '
                      'different parents) are reported once each; pairs that share a piece (one crossing next to a piece boundary) are reported once '
                      'in all (unless the path knows two points to be closer than tol)', 5)
    c11.subdivision_scenarios(ctx, 'R12.6', [(2, [(1, 2), (2, 1)]), (2, [(0, 0), (3, 3)]), (1, [(0, 0), (1, 0)]), (1, [(0, 1), (1, 1)])])
    # one crossing at a corner where four sub-boxes meet (next to a piece boundary of BOTH curves): known finding F24
    c11.subdivision_scenarios(ctx, 'R12.6', [(1, [(0, 0), (0, 1), (1, 0), (1, 1)])], mode='once')
    # the same figure 2^50 away from the origin: overlaps of the same size must be found all the same
    c11.subdivision_scenarios(ctx, 'R12.6', [(2, [(1, 2), (2, 1)])], offset=2 ** 50)

    # ---------------------------------------------------------------- R12.4
    c08.cubic_minmax(ctx, 'R12.4')
