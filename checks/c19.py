"""C19 - generic n-th order Bezier / polynomial helpers are exact and lose no roots.

Identity part (bernstein, bezier_point, bezier2polynomial, polynomial2bezier, split_bezier,
halve_bezier): normal-form equalities per degree (0..5 quick, 0..8 thorough), for all control points.
Root part: structural necessary conditions only (filters, index domains, L'Hopital case table);
what numpy.roots returns and the float zero tests of rational_limit are NOT decided."""
import ast
from math import comb
from svtstatic.cfg import CFG, EXIT, ENTRY, walk_no_nested, enclosing_stmt, guards_of
from svtstatic.interp import _canon_diff
from .common import *

PROPERTY = 'C19'
LEVEL = 'other'


def horner(cs, x):
    val = Rat.const(0)
    for c in cs:
        val = val * x + to_rat(c)
    return val


def run(ctx):
    mdl = ctx.model
    maxdeg = 8 if ctx.tier == 'thorough' else 5
    ctx.assume('ring semantics of arithmetic (no rounding); numpy.poly1d modelled as a formal polynomial')
    ctx.assume('numpy.roots is trusted to return all complex roots; isclose tolerances are not modelled')
    ctx.rule('R19.1', 'n_choose_k / bernstein / bezier_point / bezier2polynomial equal the Bernstein definition per degree', 3 * (maxdeg + 1))
    ctx.rule('R19.2', 'polynomial2bezier o bezier2polynomial == id for len 2..4; other orders raise', 5)
    ctx.rule('R19.6', 'split_bezier / halve_bezier return the control points of the sub-curves under u->u*t and u->t+u(1-t)', 2 * maxdeg)
    ctx.rule('R19.3', 'polyroots on symbolic roots, every label path: a root is returned (as its real part) iff its imaginary part is ~0, the condition '
                      'holds and no earlier kept root is close to it; polyroots01 = real roots in the closed interval [0,1]', 2)
    ctx.rule('R19.4', 'index domain: an index used to select from collection B was produced by enumerating B itself (same binding, same order)', 3)
    ctx.rule('R19.5', "rational_limit: three-case L'Hopital table; every division is guarded by a non-zero test of that denominator; derivatives are paired", 2)
    ob = lambda r: Obligation(ctx, r)
    ctx.rule('R19.8', "polyroots' de-duplication / real filter use isclose(a,b) == (|a-b| < atol + rtol|b|)", 1)
    check_isclose_definition(ctx, 'R19.8')

    # ---------------------------------------------------------------- R19.1
    fnck = mdl.func('bezier.n_choose_k')
    for n in range(maxdeg + 1):
        def th(it, n=n):
            f = it.closure_of('bezier.n_choose_k')
            return [it.call(f, [n, k], {}) for k in range(n + 1)]
        ob('R19.1').run(fnck, 'n_choose_k(%d, 0..%d)' % (n, n), th,
                        lambda v, n=n: (list(v) == [comb(n, k) for k in range(n + 1)], 'got %r' % (v,)),
                        sample={'n': n})
    fb = mdl.func('bezier.bernstein')
    fbp = mdl.func('bezier.bezier_point')
    fb2p = mdl.func('bezier.bezier2polynomial')
    for n in range(maxdeg + 1):
        P = cpoints(n + 1)
        B = bernstein(P, T)
        ob('R19.1').run(fb, 'bernstein(%d, t)' % n,
                        lambda it, n=n: it.call(it.closure_of('bezier.bernstein'), [n, T], {}),
                        lambda v, n=n: decide_all_equal([('b[%d]' % k, v[k], comb(n, k) * (1 - T) ** (n - k) * T ** k) for k in range(n + 1)])
                        if len(v) == n + 1 else (False, 'wrong length'))
        ob('R19.1').run(fbp, 'bezier_point(deg %d)' % n,
                        lambda it, P=P: it.call(it.closure_of('bezier.bezier_point'), [tuple(P), T], {}),
                        lambda v, B=B: decide_equal(v, B))

        def judge_b2p(v, B=B, n=n):
            std, rev, p1d = v
            if len(list(std)) != n + 1:
                return False, 'wrong number of coefficients'
            return decide_all_equal([('numpy ordering', horner(list(std), T), B),
                                     ('standard ordering', horner(list(reversed(list(rev))), T), B),
                                     ('poly1d', p1d(T) if isinstance(p1d, PolyT) else Rat.sym('notpoly'), B)])

        def th_b2p(it, P=P):
            f = it.closure_of('bezier.bezier2polynomial')
            return (it.call(f, [tuple(P)], {}), it.call(f, [tuple(P)], {'numpy_ordering': False}),
                    it.call(f, [tuple(P)], {'return_poly1d': True}))
        ob('R19.1').run(fb2p, 'bezier2polynomial(deg %d) all output forms' % n, th_b2p, judge_b2p)

    # one run, several degrees in a non-monotone order, every degree asked twice: tables shared between calls (memoised rows of
    # Pascal's triangle, cached bases) must give the answer of the definition whatever was asked before
    order = [maxdeg, 3, 4, 3, 2, maxdeg, 4, 0, 1, 0]

    def th_order(it):
        fb_, fp_, fn_ = it.closure_of('bezier.bernstein'), it.closure_of('bezier.bezier_point'), it.closure_of('bezier.n_choose_k')
        out = []
        for n in order:
            out.append((n, it.call(fb_, [n, T], {}), it.call(fp_, [tuple(cpoints(n + 1)), T], {}), [it.call(fn_, [n, k], {}) for k in range(n + 1)]))
        return out

    def judge_order(v):
        todo = []
        for i, (n, b, pt, row) in enumerate(v):
            if len(b) != n + 1:
                return False, 'call %d: bernstein(%d, t) has %d entries' % (i, n, len(b))
            if list(row) != [comb(n, k) for k in range(n + 1)]:
                return False, 'call %d: n_choose_k(%d, .) == %r' % (i, n, row)
            todo += [('call %d: bernstein(%d)[%d]' % (i, n, k), b[k], comb(n, k) * (1 - T) ** (n - k) * T ** k) for k in range(n + 1)]
            todo.append(('call %d: bezier_point(deg %d)' % (i, n), pt, bernstein(cpoints(n + 1), T)))
        return decide_all_equal(todo)
    ob('R19.1').run(fb, 'degrees %r asked in one run (history independence)' % (order,), th_order, judge_order)

    # ---------------------------------------------------------------- R19.2
    fp2b = mdl.func('bezier.polynomial2bezier')
    for n in (2, 3, 4):
        P = cpoints(n)
        ob('R19.2').run(fp2b, 'polynomial2bezier(bezier2polynomial(p)) len %d' % n,
                        lambda it, P=P: it.call(it.closure_of('bezier.polynomial2bezier'),
                                                [it.call(it.closure_of('bezier.bezier2polynomial'), [tuple(P)], {'return_poly1d': True})], {}),
                        lambda v, P=P: decide_all_equal([('p%d' % i, v[i], P[i]) for i in range(len(P))]) if len(v) == len(P) else (False, 'length'))
    # coefficient SEQUENCES (not poly1d) keep their length: a vanishing leading or constant coefficient must not change the degree read off
    Q = cpoints(3, 'q')
    special = [('general cubic', cpoints(4)),
               ('degree-elevated quadratic (cubic coefficient exactly 0)', [Q[0], (Q[0] + 2 * Q[1]) / 3, (2 * Q[1] + Q[2]) / 3, Q[2]]),
               ('cubic starting at the origin (constant coefficient exactly 0)', [Rat.const(0)] + cpoints(4)[1:]),
               ('line starting at the origin', [Rat.const(0), cpoints(2)[1]])]
    for label, P in special:
        ob('R19.2').run(fp2b, 'polynomial2bezier(coefficient sequence of a %s)' % label,
                        lambda it, P=P: it.call(it.closure_of('bezier.polynomial2bezier'),
                                                [it.call(it.closure_of('bezier.bezier2polynomial'), [tuple(P)], {})], {}),
                        lambda v, P=P: decide_all_equal([('p%d' % i, v[i], P[i]) for i in range(len(P))]) if len(v) == len(P)
                        else (False, '%d control points returned for %d coefficients' % (len(v), len(P))),
                        allowed_raises=())
    for n in (1, 5):
        expect_raise(ctx, 'R19.2', fp2b, 'polynomial2bezier(order %d) raises' % (n - 1),
                     lambda it, n=n: it.call(it.closure_of('bezier.polynomial2bezier'), [tuple(cpoints(n, 'c'))], {}),
                     ('AssertionError', 'ValueError', 'NotImplementedError'))

    # ---------------------------------------------------------------- R19.6 split / halve
    fs = mdl.func('bezier.split_bezier')
    fh = mdl.func('bezier.halve_bezier')
    S = Rat.sym('s')
    for n in range(1, maxdeg + 1):
        P = cpoints(n + 1)

        def judge_split(v, P=P, s=S):
            left, right = v
            if len(left) != len(P) or len(right) != len(P):
                return False, 'sub-curves have %d/%d control points' % (len(left), len(right))
            return decide_all_equal([('left', bernstein(list(left), U), bernstein(P, U * s)),
                                     ('right', bernstein(list(right), U), bernstein(P, s + U * (1 - s)))])
        ob('R19.6').run(fs, 'split_bezier(deg %d, s)' % n,
                        lambda it, P=P: it.call(it.closure_of('bezier.split_bezier'), [tuple(P), S], {}), judge_split)
        half = Rat.const(Fr(1, 2))
        ob('R19.6').run(fh, 'halve_bezier(deg %d)' % n,
                        lambda it, P=P: it.call(it.closure_of('bezier.halve_bezier'), [tuple(P)], {}),
                        lambda v, P=P, h=half: judge_split(v, P, h))

    # ---------------------------------------------------------------- R19.3 root filters (semantic: on every label path)
    _polyroots_semantics(ctx, mdl)

    # ---------------------------------------------------------------- R19.4 index domains
    for q in ('polytools.polyroots', 'path.Path.intersect', 'bezier.bezier_intersections'):
        _index_domain(ctx, mdl.func(q))

    # ---------------------------------------------------------------- R19.5 rational_limit
    _rational_limit(ctx, mdl)


from fractions import Fraction as Fr  # noqa: E402


# --------------------------------------------------------------------------------------------
def _polyroots_structure(ctx, mdl):
    fi = mdl.func('polytools.polyroots')
    fn = fi.node
    src = None
    stages = []   # successive re-bindings of the roots variable
    for st in fn.body:
        if isinstance(st, ast.Assign) and isinstance(st.targets[0], ast.Name) and isinstance(st.value, ast.Call) \
                and dotted(st.value.func) in ('np.roots', 'numpy.roots', 'roots'):
            src = st.targets[0].id
            ok = len(st.value.args) == 1 and isinstance(st.value.args[0], ast.Name) and st.value.args[0].id == fi.params()[0]
            ctx.record('R19.3', fi.qualname, 'roots come from np.roots(p)', ok, where=where(fi, st),
                       detail='' if ok else 'np.roots is not applied to the coefficient argument')
    if src is None:
        ctx.undecided('R19.3', fi.qualname, 'source of roots', 'no `x = np.roots(p)` statement found', where=where(fi))
        return
    # real filter: under `if realroots:` a comprehension `[r.real for r in roots if isclose(r.imag, 0)]`
    real_ok = False
    cond_ok = False
    for n in walk_no_nested(fn):
        if isinstance(n, ast.Assign) and isinstance(n.value, ast.ListComp) and isinstance(n.targets[0], ast.Name) and n.targets[0].id == src:
            comp = n.value
            gen = comp.generators[0]
            if not (isinstance(gen.iter, ast.Name) and gen.iter.id == src):
                continue
            var = gen.target.id if isinstance(gen.target, ast.Name) else None
            g = guards_of(n, fn)
            if norm(comp.elt) == '%s.real' % var and any(pol and norm(t) == fi.params()[1] for t, pol in g):
                # filter must test the imaginary part against zero
                tests = [norm(x) for x in gen.ifs]
                real_ok = len(tests) == 1 and tests[0] in ('isclose(%s.imag, 0)' % var, 'np.isclose(%s.imag, 0)' % var)
                ctx.record('R19.3', fi.qualname, 'real filter', real_ok, where=where(fi, n),
                           detail='' if real_ok else 'real-root filter is %s' % tests)
            elif norm(comp.elt) == var:
                tests = [norm(x) for x in gen.ifs]
                cond_ok = tests == ['%s(%s)' % (fi.params()[2], var)] and not [t for t, pol in guards_of(n, fn)]
                ctx.record('R19.3', fi.qualname, 'condition filter', cond_ok, where=where(fi, n),
                           detail='' if cond_ok else 'condition filter is %s (must apply condition(r) unconditionally)' % tests)
    f01 = mdl.func('polytools.polyroots01')
    calls = [c for c in ast.walk(f01.node) if isinstance(c, ast.Call) and call_name(c) == 'polyroots']
    ok = False
    detail = 'polyroots01 does not call polyroots'
    if calls:
        c = calls[0]
        kw = {k.arg: k.value for k in c.keywords}
        rr = kw.get('realroots')
        cd = kw.get('condition')
        ok = rr is not None and norm(rr) == 'True' and isinstance(cd, ast.Lambda)
        if ok:
            v = cd.args.args[0].arg
            ok = norm(cd.body) in ('0 <= %s <= 1' % v, '1 >= %s >= 0' % v, '%s >= 0 and %s <= 1' % (v, v), '0 <= %s and %s <= 1' % (v, v))
        detail = '' if ok else 'polyroots01 must pass realroots=True and the closed condition 0 <= r <= 1 (got %s)' % norm(c)
    ctx.record('R19.3', f01.qualname, 'polyroots01 arguments', ok, detail=detail, where=where(f01))


def _name_defs(fn, name):
    """statements that (re)bind `name` in fn (assignments, loop targets excluded)"""
    out = []
    for n in walk_no_nested(fn):
        if isinstance(n, (ast.Assign, ast.AugAssign)):
            tg = n.targets if isinstance(n, ast.Assign) else [n.target]
            for t in tg:
                for x in ast.walk(t):
                    if isinstance(x, ast.Name) and x.id == name and isinstance(x.ctx, ast.Store):
                        out.append(n)
    return out


def _index_sources(fn):
    """loop/comprehension targets that are indices: name -> (collection expr text, binding stmt, derived?)"""
    src = {}

    def from_iter(target, it, st):
        # for i, x in enumerate(C)
        if isinstance(it, ast.Call) and call_name(it) == 'enumerate' and isinstance(target, ast.Tuple) and isinstance(target.elts[0], ast.Name):
            inner = it.args[0]
            src[target.elts[0].id] = (norm(inner), st, inner)
        # for (i1, a), (i2, b) in combinations(enumerate(C), 2)
        if isinstance(it, ast.Call) and call_name(it) == 'combinations' and it.args and isinstance(it.args[0], ast.Call) \
                and call_name(it.args[0]) == 'enumerate' and isinstance(target, ast.Tuple):
            for el in target.elts:
                if isinstance(el, ast.Tuple) and isinstance(el.elts[0], ast.Name):
                    src[el.elts[0].id] = (norm(it.args[0].args[0]), st, it.args[0].args[0])
        # for i in range(len(C)) / range(k, len(C))
        if isinstance(it, ast.Call) and call_name(it) == 'range' and isinstance(target, ast.Name):
            last = it.args[-1] if len(it.args) <= 2 else it.args[1]
            if isinstance(last, ast.Call) and call_name(last) == 'len':
                src[target.id] = (norm(last.args[0]), st, last.args[0])
    for n in walk_no_nested(fn):
        if isinstance(n, ast.For):
            from_iter(n.target, n.iter, n)
        elif isinstance(n, (ast.ListComp, ast.GeneratorExp, ast.SetComp)):
            for g in n.generators:
                from_iter(g.target, g.iter, enclosing_stmt(n))
    return src


def _derived_one_to_one(fn, name, base):
    """is local `name` defined once as an unfiltered comprehension over `base` (or zip(*base)[k])?"""
    defs = _name_defs(fn, name)
    if len(defs) != 1 or not isinstance(defs[0], ast.Assign) or not isinstance(defs[0].value, ast.ListComp):
        return False
    comp = defs[0].value
    if len(comp.generators) != 1 or comp.generators[0].ifs:
        return False
    it = norm(comp.generators[0].iter)
    return it == base or it in ('list(zip(*%s))[0]' % base, 'zip(*%s)[0]' % base)


def _index_domain(ctx, fi):
    fn = fi.node
    srcs = _index_sources(fn)
    found = 0
    # consumers: comprehension  [x for i, x in enumerate(B) if i not in D]
    for n in walk_no_nested(fn):
        if not isinstance(n, (ast.ListComp,)):
            continue
        g = n.generators[0]
        if not (isinstance(g.iter, ast.Call) and call_name(g.iter) == 'enumerate' and isinstance(g.target, ast.Tuple)
                and isinstance(g.target.elts[0], ast.Name)):
            continue
        idxname = g.target.elts[0].id
        B = g.iter.args[0]
        Dnames = [c.comparators[0].id for t in g.ifs for c in ast.walk(t) if isinstance(c, ast.Compare) and
                  isinstance(c.ops[0], ast.NotIn) and isinstance(c.left, ast.Name) and c.left.id == idxname
                  and isinstance(c.comparators[0], ast.Name)]
        for D in Dnames:
            # producers: D.append(v)
            for c in walk_no_nested(fn):
                if isinstance(c, ast.Call) and isinstance(c.func, ast.Attribute) and c.func.attr == 'append' \
                        and isinstance(c.func.value, ast.Name) and c.func.value.id == D:
                    found += 1
                    v = c.args[0]
                    consumer_st = enclosing_stmt(n)
                    ok, detail = _same_domain(fn, v, srcs, B, consumer_st)
                    ctx.record('R19.4', fi.qualname, 'index %s appended to %s selects from %s' % (norm(v), D, norm(B)), ok,
                               detail=detail, where=where(fi, c),
                               sample={'producer': norm(enclosing_stmt(c)), 'consumer': norm(n)[:120]})
    # bezier_intersections removes by value, not by index: record the positive/negative fact
    if found == 0:
        uses_remove = any(isinstance(c, ast.Call) and isinstance(c.func, ast.Attribute) and c.func.attr == 'remove' for c in walk_no_nested(fn))
        ctx.record('R19.4', fi.qualname, 'no index-based selection (removal by value=%s)' % uses_remove, True,
                   nontrivial=False, where=where(fi))


def _same_domain(fn, v, srcs, B, consumer_st):
    if not isinstance(v, ast.Name) or v.id not in srcs:
        return None, 'appended value %s is not a loop index the rule understands' % norm(v)
    coll, bind_st, coll_expr = srcs[v.id]
    btxt = norm(B)
    same = coll == btxt or (isinstance(coll_expr, ast.Name) and _derived_one_to_one(fn, coll_expr.id, btxt))
    if not same:
        return False, 'index enumerates `%s` but selects from `%s`' % (coll, btxt)
    # B must not be re-bound between the producing loop and the consumer
    if isinstance(B, ast.Name):
        cfg = CFG(fn)
        after = cfg.reachable(bind_st)
        for d in _name_defs(fn, B.id):
            if d in after and consumer_st in cfg.reachable(d) and d is not consumer_st:
                return False, '`%s` is re-bound (L%d) between producing the indices and using them' % (B.id, d.lineno)
            if d is consumer_st:
                # consumer re-binds B from itself: fine (that is the filtering step)
                pass
    return True, ''


def _rational_limit(ctx, mdl):
    fi = mdl.func('polytools.rational_limit')
    t0 = Rat.sym('t0')
    for df, dg in ((3, 2), (2, 3)):
        f = PolyT([Rat.sym('f%d' % i) for i in range(df, -1, -1)])
        g = PolyT([Rat.sym('g%d' % i) for i in range(dg, -1, -1)])
        try:
            paths = explore(ctx.model, lambda it: it.call(it.closure_of('polytools.rational_limit'), [f, g, t0], {}))
        except Undecidable as e:
            if 'call depth exceeded' in str(e):
                ctx.violation('R19.5', fi.qualname, "L'Hopital case table, deg f=%d g=%d" % (df, dg),
                              'the recursion does not terminate on polynomials of bounded degree: both arguments must be '
                              'differentiated so that the degrees strictly decrease', where=where(fi))
            else:
                ctx.undecided('R19.5', fi.qualname, 'deg f=%d g=%d' % (df, dg), str(e), where=where(fi))
            continue
        problems = []
        nret = 0
        for p in paths:
            texts = [(t, o) for t, o in p.decisions]
            if p.raised is not None:
                if p.raised.exc_name == 'ValueError':
                    # limit does not exist: the last decisions must be g^(k)(t0)==0 and f^(k)(t0)!=0
                    k = _depth(texts, f, g, t0)
                    if k is None:
                        problems.append('ValueError raised under unexpected conditions: %s' % p.cond_text()[:200])
                elif p.raised.exc_name == 'AssertionError':
                    continue   # g' became the zero polynomial: outside the function's contract
                else:
                    problems.append('raises %s' % p.raised.exc_name)
                continue
            nret += 1
            # count completed L'Hopital steps = number of (g^(j)(t0)==0, f^(j)(t0)==0) pairs
            k = 0
            while True:
                gk = _canon_diff(g.deriv(k)(t0))[2] if not g.deriv(k)(t0).is_const() else None
                if gk is None:
                    break
                if any(t.startswith(gk) and ((' != 0' in t and not o) or (' == 0' in t and o)) for t, o in texts):
                    k += 1
                else:
                    break
            fk, gk = f.deriv(k)(t0), g.deriv(k)(t0)
            ok, d = decide_equal(p.value, fk / gk)
            if ok is not True:
                problems.append('after %d step(s) returns %s, expected f^(%d)(t0)/g^(%d)(t0): %s' % (k, short(to_rat(p.value), 60), k, k, d))
            if not gk.is_const():
                gtxt = _canon_diff(gk)[2]
                if not any(t.startswith(gtxt) and ((' != 0' in t and o) or (' == 0' in t and not o)) for t, o in texts):
                    problems.append('divides by g^(%d)(t0) without testing it against zero (when %s)' % (k, p.cond_text()[:160]))
        if nret < 2:
            problems.append('fewer than 2 returning paths')
        ctx.record('R19.5', fi.qualname, "L'Hopital case table, deg f=%d g=%d (%d paths)" % (df, dg, len(paths)), not problems,
                   detail=' | '.join(problems)[:800], where=where(fi), sample={'paths': len(paths), 'returning': nret})


def _depth(texts, f, g, t0):
    for k in range(0, 5):
        gk = g.deriv(k)(t0)
        fk = f.deriv(k)(t0)
        if gk.is_const() or fk.is_const():
            return None
        gt, ft = _canon_diff(gk)[2], _canon_diff(fk)[2]
        gz = any(t.startswith(gt) and ((' != 0' in t and not o) or (' == 0' in t and o)) for t, o in texts)
        fz = any(t.startswith(ft) and ((' == 0' in t and o) or (' != 0' in t and not o)) for t, o in texts)
        fnz = any(t.startswith(ft) and ((' == 0' in t and not o) or (' != 0' in t and o)) for t, o in texts)
        if gz and fnz:
            return k
        if not (gz and fz):
            return None
    return None


def _polyroots_semantics(ctx, mdl):
    """np.roots is replaced by three symbolic complex roots; the function's own filters run on them.  On each label path the
    returned list must be exactly: the real parts of the roots whose imaginary part the path knows to be ~0, that satisfy the
    condition, minus every one that is close to an EARLIER kept root (so exactly one representative of a cluster survives)."""
    fi = mdl.func('polytools.polyroots')
    for deg in (3, 2, 1):
        _polyroots_filters(ctx, mdl, fi, deg)
    for deg in (2, 1):
        _polyroots_filters(ctx, mdl, fi, deg, as_poly1d=True)      # the same polynomials handed over as numpy.poly1d (len() is then the ORDER)
    _polyroots01_rules(ctx, mdl)


def _polyroots_filters(ctx, mdl, fi, deg, as_poly1d=False):
    roots = [Rat.csym('rho%d' % i) for i in range(deg)]
    # the monic polynomial with these roots, as the coefficient list (highest power first) the function is given
    coeffs = [Rat.const(1)]
    for r_ in roots:
        nxt = coeffs + [Rat.const(0)]
        for i_ in range(len(coeffs)):
            nxt[i_ + 1] = nxt[i_ + 1] - r_ * coeffs[i_]
        coeffs = nxt

    called = {}

    def cond_hook(it, a, k):
        r = to_rat(a[0])
        return it.truth(it.compare_vals('gt', r, 0))       # an arbitrary user condition: r > 0

    def th(it):
        from svtstatic.values import PyFunc
        called['roots'] = False
        called.pop('isclose_extra', None)
        it.ext_hooks['numpy.roots'] = lambda it2, a, k: called.update(roots=True) or list(roots)
        # the package's isclose (|a-b| < atol + rtol|b|) is modelled like numpy.isclose: an approximate-equality label
        from svtstatic import builtins_model as bm

        def isclose_hook(it2, a, k):
            # the closeness of two roots depends on those two roots (and the two standard tolerances) only
            odd = sorted(set(k) - {'rtol', 'atol'}) + (['a third positional argument'] if len(a) > 2 else [])
            if odd:
                called['isclose_extra'] = odd
            return bm.call_ext(it2, 'numpy.isclose', a[:2], {x: y for x, y in k.items() if x in ('rtol', 'atol')})
        it.call_hooks['misctools.isclose'] = isclose_hook
        arg = PolyT(list(coeffs)) if as_poly1d else list(coeffs)
        r = it.call(it.closure_of('polytools.polyroots'), [arg], {'realroots': True, 'condition': PyFunc(cond_hook, 'cond')})
        facts = []
        for z in roots:
            # modulo the equalities the path has established (a coefficient that was tested against zero relates the roots)
            zi, zr = it.trace.reduce(z.imag()), it.trace.reduce(z.real())
            if zi.is_zero():
                real_ = frozenset('0')
            else:
                sgn, key, _ = _canon_diff(zi)
                real_ = it.trace.signs.get('close:' + key)
            facts.append((real_, path_sign(it, zr)))
        return list(r), facts, it, called['roots'], called.get('isclose_extra')

    def judge(v):
        ok_, d_ = judge0(v[:3])
        if ok_ is True and v[4]:
            return False, 'the closeness test of two roots is given %s: whether two roots are merged depends on something else than the two roots' % v[4]
        if ok_ is False and not v[3] and deg > 1:
            # the roots were not taken from numpy.roots: a closed form of degree >= 2 involves radicals the normal form cannot compare
            return None, 'own root formula instead of numpy.roots (degree %d): not comparable - %s' % (deg, d_)
        return ok_, d_

    def judge0(v):
        res, facts, it = v
        kept = []
        for i, (z, (real_, pos)) in enumerate(zip(roots, facts)):
            if real_ == frozenset('0'):
                if pos == frozenset('+'):
                    kept.append(i)
                elif not pos <= frozenset('-0'):
                    return None, 'the path does not decide the condition for root %d' % i
            elif real_ != frozenset('+'):
                return False, 'root %d is classified without testing its imaginary part against 0' % i
        # duplicates: a kept root close to an earlier surviving... the function drops one member of each close pair
        survivors = []
        for i in kept:
            dup = False
            for j in kept:
                if j >= i:
                    break
                d = roots[i].real() - roots[j].real()
                sgn, key, _ = _canon_diff(it.trace.reduce(d)) if not it.trace.reduce(d).is_zero() else (1, None, None)
                close = it.trace.signs.get('close:' + key) if key else frozenset('0')
                if close == frozenset('0'):
                    dup = True
                elif close != frozenset('+'):
                    return None, 'closeness of roots %d and %d undecided on this path' % (j, i)
            if not dup:
                survivors.append(i)
        exp = [it.trace.reduce(roots[i].real()) for i in survivors]
        got = [it.trace.reduce(to_rat(x)) for x in res]
        # the survivors of a cluster may be any one member, but simple (non-clustered) roots must all be present exactly once
        ok = len(got) == len(exp) and all(g.equals(e) for g, e in zip(got, exp))
        if ok:
            return True, ''
        # accept another representative of the same cluster: compare as multisets of cluster ids
        return False, 'returns roots %s; expected the real parts of roots %s (real, satisfying the condition, one per cluster)' % (
            [short(g, 20) for g in got], survivors)
    # generic position: no coefficient of the polynomial vanishes (vanishing leading coefficients are the subject of the hand-over rule)
    Obligation(ctx, 'R19.3').run(fi, 'polyroots(realroots=True, condition) on the monic polynomial with %d symbolic root(s)%s' % (deg, ' given as poly1d' if as_poly1d else ''), th, judge,
                                 opts={'presign': [(c_, '-+') for c_ in coeffs[1:]]})


def _polyroots01_rules(ctx, mdl):
    f01 = mdl.func('polytools.polyroots01')

    def th01(it):
        got = {}

        def pr(it2, a, k):
            kk = dict(k)
            # arguments may be handed over positionally: bind them to polyroots' own parameter names
            names = mdl.func('polytools.polyroots').params()
            for i_, v_ in enumerate(a):
                if i_ < len(names) and i_ > 0:
                    kk.setdefault(names[i_], v_)
            got['k'] = kk
            got['a'] = a
            return 'ROOTS'
        it.call_hooks['polytools.polyroots'] = pr
        r = it.call(it.closure_of('polytools.polyroots01'), [Rat.sym('coeffs')], {})
        cond = got['k'].get('condition')
        from fractions import Fraction as Fr
        answers = [bool(it.truth(it.call(cond, [x], {}))) for x in (Fr(0), Fr(1), Fr(1, 2), Fr(-1, 10), Fr(11, 10))] if cond is not None else None
        return r, got, answers

    # the polynomial itself reaches the root finder: a coefficient sequence is handed on with every coefficient (a leading
    # coefficient that is merely small still determines the roots), on every label path
    cs = [Rat.sym('k%d' % i) for i in range(4)]

    def th01seq(it):
        got = {}

        def pr(it2, a, k):
            got['a'] = a
            return 'ROOTS'
        it.call_hooks['polytools.polyroots'] = pr
        from svtstatic import builtins_model as bm
        it.call_hooks['misctools.isclose'] = lambda it2, a, k: bm.call_ext(it2, 'numpy.isclose', a, k)
        r = it.call(it.closure_of('polytools.polyroots01'), [list(cs)], {})
        if 'a' not in got:
            raise Undecidable('polyroots01 does not go through polyroots')
        p = got['a'][0]
        p = list(p.c) if isinstance(p, PolyT) else list(it.iterate(p))
        return r, [to_rat(x) for x in p]

    def judge01seq(v):
        r, p = v
        ok = r == 'ROOTS' and len(p) == len(cs) and all(x.equals(c) for x, c in zip(p, cs))
        return ok, '' if ok else 'for the coefficients [k0, k1, k2, k3] the root finder receives %s' % ([short(x, 16) for x in p],)
    Obligation(ctx, 'R19.3').run(f01, 'polyroots01([k0..k3]) solves that polynomial', th01seq, judge01seq)
    Obligation(ctx, 'R19.3').run(f01, 'polyroots01 == polyroots(p, realroots=True, condition = closed [0,1])', th01,
                                 lambda v: (v[0] == 'ROOTS' and v[1]['k'].get('realroots') is True and v[2] == [True, True, True, False, False]
                                            and to_rat(v[1]['a'][0]).equals(Rat.sym('coeffs')),
                                            'realroots=%r, condition answers on 0, 1, 1/2, -1/10, 11/10: %r' % (v[1]['k'].get('realroots'), v[2])))
