"""C20 - smoothed_path removes kinks without moving the path.

Decided: the elbow constructions (line-line, line-curve, curve-line) are G1-continuous with their
neighbours as identities with provably positive scale factors, meet the trimmed pieces exactly,
keep the outer end points, stay within maxjointsize of the joint (interval evaluation of the linear
offset factors over 0 < tightness < 2), and the trim length a is bounded by maxjointsize/2 and by
1/20 of both neighbours; the bookkeeping of smoothed_path (open / closed wrap-around, single
segment, already-smooth joints) for every pattern of joint kinds on a 3-segment path; the
curve-curve branch chains its pieces end to end.
Not decided: 'within maxjointsize' for curve-curve joints (goes through ilength/cropped),
tolerance-based kink detection."""
import ast, itertools
from fractions import Fraction as Fr
from svtstatic import poly
from svtstatic.values import ExtRef, PyFunc
from .common import *

PROPERTY = 'C20'
LEVEL = 'other'
I = Rat.const(1j)
TIGHT = Rat.sym('tight')
MJ = Rat.sym('mj')
Qp = Rat.csym('q')


def unit(z):
    return z / apply_fn('abs', z)


def lin_in_tight_range(expr, over):
    """expr/over must be a polynomial of degree <= 1 in `tight` alone; returns its values at tight=0 and tight=2"""
    r = to_rat(expr) / to_rat(over)
    if not r.is_poly():
        return None
    p = r.num
    if p.atoms() - {'tight'} or p.degree_in('tight') > 1 or not p.is_real():
        return None
    v0 = r.subst({'tight': Rat.const(0)}).as_fraction()
    v2 = r.subst({'tight': Rat.const(2)}).as_fraction()
    return v0, v2


def coef_along(offset, vname):
    """offset == alpha * v for the complex symbol v: returns alpha (a Rat without v) or None"""
    offset = to_rat(offset)
    if not offset.is_poly():
        return None
    alpha = offset.diff(vname + '.re')
    v = Rat.csym(vname)
    if alpha.atoms() & {vname + '.re', vname + '.im'}:
        return None
    return alpha if (offset - alpha * v).is_zero() else None


def direction_hook(names):
    """unit_tangent model: segments in these scenarios leave/arrive along +-(one of the unit symbols `names`) by construction;
    the direction is read off the control points: (first difference) == c * v with c of known sign"""
    def hook(it, a, k):
        s = a[0]
        t = to_rat(a[1]) if len(a) > 1 and a[1] is not None else Rat.const(0)
        at = s.attrs
        if s.cls.name == 'Line':
            d = to_rat(at['end']) - to_rat(at['start'])
        elif t.equals(0):
            d = to_rat(at['control1']) - to_rat(at['start'])
        else:
            d = to_rat(at['end']) - to_rat(at['control2'])
        for nm in names:
            c = coef_along(d, nm)
            if c is None or c.is_zero():
                continue
            sg = path_sign(it, c)
            if sg == frozenset('+'):
                return Rat.csym(nm)
            if sg == frozenset('-'):
                return -Rat.csym(nm)
            raise Undecidable('orientation of a segment along %s not decided (coefficient %s)' % (nm, short(c, 40)))
        raise Undecidable('segment direction is not along a declared unit symbol')
    return hook


def run(ctx):
    mdl = ctx.model
    ctx.assume('documented ranges: 0 < tightness < 2, 0 < maxjointsize; segments have positive length; joints are not 180-degree reversals')
    ctx.assume('a cubic lies in the convex hull of its control points (so control points within r of q keep the elbow within r of q)')
    ctx.rule('R20.1', 'smoothed_joint (line-line, line-curve, curve-line): elbow meets the trimmed pieces, elbow\'(0) = b v and elbow\'(1) = b w with b > 0, '
                      'outer end points kept, trimmed lines keep their direction, control points within maxjointsize of the joint, '
                      'a <= maxjointsize/2 and a <= min(len0, len1)/20', 3)
    ctx.rule('R20.2', 'smoothed_path bookkeeping for every pattern of (smooth | kink) joints on open and closed 3-segment paths; single segment returned as is', 3)
    ctx.rule('R20.3', 'curve-curve branch: the returned pieces are chained end to end from seg0_trimmed to seg1_trimmed', 1)
    ctx.rule('R20.4', 'the tangent comparison of smoothed_path/kinks uses isclose(a,b) == (|a-b| < atol + rtol|b|)', 1)
    check_isclose_definition(ctx, 'R20.4')
    fj = mdl.func('smoothing.smoothed_joint')
    poly.POSITIVE.update({'L0', 'L1', 'mj'})
    L0, L1 = Rat.sym('L0'), Rat.sym('L1')
    pres = [(TIGHT, '+'), (TIGHT - 2, '-'), (MJ, '+')]

    def dpoint(seg, t):
        """derivative of a cubic record at t in {0,1}"""
        a = seg.attrs
        return 3 * (to_rat(a['control1']) - to_rat(a['start'])) if t == 0 else 3 * (to_rat(a['end']) - to_rat(a['control2']))

    def a_facts(it, a):
        """which of the three bounds is `a`, and does the path know it to be the smallest?"""
        cands = {'maxjointsize/2': MJ / 2, 'len0/20': L0 / 20, 'len1/20': L1 / 20}
        which = [k for k, v in cands.items() if to_rat(a).equals(v)]
        probs = []
        if not which:
            probs.append('trim length a = %s is none of maxjointsize/2, len(seg0)/20, len(seg1)/20' % short(to_rat(a), 40))
        else:
            names = list(cands)
            le = {(i, j): (i == j or path_sign(it, cands[i] - cands[j]) <= frozenset('-0')) for i in names for j in names}
            for k_ in names:          # transitive closure of the path's pairwise knowledge
                for i in names:
                    for j in names:
                        if le[(i, k_)] and le[(k_, j)]:
                            le[(i, j)] = True
            for k in names:
                if not le[(which[0], k)]:
                    probs.append('a = %s but the path does not know a <= %s' % (which[0], k))
        return probs

    # ---------------------------------------------------------------- line-line
    def th_ll(it):
        v, w = Rat.csym('v'), Rat.csym('w')
        seg0 = it.construct('path.Line', Qp - L0 * v, Qp)
        seg1 = it.construct('path.Line', Qp, Qp + L1 * w)
        it.call_hooks['path.Line.unit_tangent'] = lambda it2, a, k: v if a[0] is seg0 else w
        it.call_hooks['path.Line.length'] = lambda it2, a, k: L0 if a[0] is seg0 else L1
        s0t, elbow, s1t = it.call(it.closure_of('smoothing.smoothed_joint'), [seg0, seg1, MJ, TIGHT], {})
        e = elbow[0]
        a_val = coef_along(Qp - to_rat(e.attrs['start']), 'v')
        if a_val is None:
            raise Undecidable('elbow start is not q - a*v')
        return s0t, elbow, s1t, v, w, a_val, a_facts(it, a_val), seg0, seg1

    def judge_ll(val):
        s0t, elbow, s1t, v, w, a, aprobs, seg0, seg1 = val
        probs = list(aprobs)
        if len(elbow) != 1 or elbow[0].cls.name != 'CubicBezier':
            return False, 'elbow is not a single cubic'
        e = elbow[0]
        b = (2 - TIGHT) * a
        ok, d = decide_all_equal([('elbow starts where seg0_trimmed ends', e.attrs['start'], s0t.attrs['end']),
                                  ('elbow ends where seg1_trimmed starts', e.attrs['end'], s1t.attrs['start']),
                                  ('outer start kept', s0t.attrs['start'], seg0.attrs['start']), ('outer end kept', s1t.attrs['end'], seg1.attrs['end']),
                                  ("elbow'(0) == b v", dpoint(e, 0), b * v), ("elbow'(1) == b w", dpoint(e, 1), b * w),
                                  ('seg0_trimmed keeps direction', to_rat(s0t.attrs['end']) - to_rat(s0t.attrs['start']), (L0 - a) * v),
                                  ('seg1_trimmed keeps direction', to_rat(s1t.attrs['end']) - to_rat(s1t.attrs['start']), (L1 - a) * w)])
        if ok is not True:
            probs.append(d)
        # control point offsets from q, as multiples of a along v / w
        for nm, fld, dirn in (('control1', 'control1', 'v'), ('control2', 'control2', 'w')):
            al = coef_along(to_rat(e.attrs[fld]) - Qp, dirn)
            rng = lin_in_tight_range(al, a) if al is not None else None
            if rng is None or not all(x is not None and abs(x) <= 1 for x in rng):
                probs.append('%s is not within a of the joint for every tightness in (0,2) (offset/a ranges over %s)' % (nm, rng))
        rb = lin_in_tight_range(b, a)
        if rb is None or min(rb) < 0 or max(rb) <= 0:
            probs.append('b/a is not positive on (0,2): %s' % (rb,))
        return not probs, '; '.join(probs[:4])
    Obligation(ctx, 'R20.1').run(fj, 'line-line joint', th_ll, judge_ll, allowed_raises=('AssertionError',), opts={'presign': pres})

    # ---------------------------------------------------------------- line-curve and curve-line
    for order in ('line-curve', 'curve-line'):
        poly.POSITIVE.add('m')

        def th_lc(it, order=order):
            v, w, m = Rat.csym('v'), Rat.csym('w'), Rat.sym('m')
            K = cpoints(4, 'K')
            if order == 'line-curve':
                line = it.construct('path.Line', Qp - L0 * v, Qp)
                cub = it.construct('path.CubicBezier', Qp, Qp + m * w, K[2], K[3])       # leaves q along w
            else:
                cub = it.construct('path.CubicBezier', K[0], K[1], Qp - m * w, Qp)       # arrives at q along w
                line = it.construct('path.Line', Qp, Qp + L0 * v)
            hook = direction_hook(('v', 'w'))
            it.call_hooks['path.Line.unit_tangent'] = hook
            it.call_hooks['path.CubicBezier.unit_tangent'] = hook
            it.call_hooks['path.Line.length'] = lambda it2, a, k: L0
            it.call_hooks['path.CubicBezier.length'] = lambda it2, a, k: L1
            seg0, seg1 = (line, cub) if order == 'line-curve' else (cub, line)
            s0t, elbow, s1t = it.call(it.closure_of('smoothing.smoothed_joint'), [seg0, seg1, MJ, TIGHT], {})
            e = elbow[0]
            a_val = coef_along(Qp - to_rat(e.attrs['start']), 'v') if order == 'line-curve' else coef_along(to_rat(e.attrs['end']) - Qp, 'v')
            if a_val is None:
                raise Undecidable('the elbow does not meet the line at q -+ a*v')
            return s0t, elbow, s1t, v, w, cub, line, a_val, a_facts(it, a_val)

        def judge_lc(val, order=order):
            s0t, elbow, s1t, v, w, cub, line, a, aprobs = val
            probs = list(aprobs)
            if len(elbow) != 1 or elbow[0].cls.name != 'CubicBezier':
                return False, 'elbow is not a single cubic'
            e = elbow[0]
            b = (4 - TIGHT) * a
            if order == 'line-curve':
                pairs = [('elbow starts where the trimmed line ends', e.attrs['start'], s0t.attrs['end']), ('elbow ends at the joint', e.attrs['end'], Qp),
                         ('the curve is returned untouched', 0, 0 if s1t is cub else 1), ('outer start kept', s0t.attrs['start'], line.attrs['start']),
                         ("elbow'(0) == b v", dpoint(e, 0), b * v), ("elbow'(1) == b w", dpoint(e, 1), b * w),
                         ('trimmed line keeps direction', to_rat(s0t.attrs['end']) - to_rat(s0t.attrs['start']), (L0 - a) * v)]
                near, far = ('control1', 'v'), ('control2', 'w')
            else:
                pairs = [('elbow starts at the joint', e.attrs['start'], Qp), ('elbow ends where the trimmed line starts', e.attrs['end'], s1t.attrs['start']),
                         ('the curve is returned untouched', 0, 0 if s0t is cub else 1), ('outer end kept', s1t.attrs['end'], line.attrs['end']),
                         ("elbow'(0) == b w (curve side)", dpoint(e, 0), b * w), ("elbow'(1) == b v (line side)", dpoint(e, 1), b * v),
                         ('trimmed line keeps direction', to_rat(s1t.attrs['end']) - to_rat(s1t.attrs['start']), (L0 - a) * v)]
                near, far = ('control2', 'v'), ('control1', 'w')
            ok, d = decide_all_equal(pairs)
            if ok is not True:
                probs.append(d)
            al = coef_along(to_rat(e.attrs[near[0]]) - Qp, near[1])
            rng = lin_in_tight_range(al, a) if al is not None else None
            if rng is None or not all(x is not None and abs(x) <= 1 for x in rng):
                probs.append('%s is not within a of the joint (offset/a ranges over %s)' % (near[0], rng))
            al = coef_along(to_rat(e.attrs[far[0]]) - Qp, far[1])
            rng = lin_in_tight_range(al, a) if al is not None else None
            if rng is None or not all(x is not None and abs(x) <= Fr(4, 3) for x in rng):
                probs.append('%s is not within 4a/3 <= 2/3 maxjointsize of the joint (offset/a ranges over %s)' % (far[0], rng))
            rb = lin_in_tight_range(b, a)
            if rb is None or min(rb) <= 0:
                probs.append('b/a is not positive on (0,2)')
            return not probs, '; '.join(probs[:4])
        Obligation(ctx, 'R20.1').run(fj, '%s joint' % order, th_lc, judge_lc, allowed_raises=('AssertionError',), opts={'presign': pres})

    # ---------------------------------------------------------------- curve-curve chaining
    def th_cc(it):
        A, B = cpoints(4, 'A'), cpoints(4, 'B')
        seg0 = it.construct('path.CubicBezier', A[0], A[1], A[2], Qp)
        seg1 = it.construct('path.CubicBezier', Qp, B[1], B[2], B[3])
        it.call_hooks['path.CubicBezier.length'] = lambda it2, a, k: L0
        it.call_hooks['path.CubicBezier.ilength'] = lambda it2, a, k: Rat.sym('tcut')
        n = [0]

        def crop(it2, a, k):
            n[0] += 1
            s = a[0]
            t0, t1 = to_rat(a[1]), to_rat(a[2])
            st = s.attrs['start'] if t0.equals(0) else Rat.csym('cut%d' % n[0])
            en = s.attrs['end'] if t1.equals(1) else Rat.csym('cut%d' % n[0])
            return it2.construct('path.CubicBezier', st, Rat.csym('cc%da' % n[0]), Rat.csym('cc%db' % n[0]), en)
        it.call_hooks['path.CubicBezier.cropped'] = crop
        depth = [0]

        def sj(it2, a, k):
            depth[0] += 1
            if depth[0] == 1:
                return NotImplemented
            s0, s1 = a[0], a[1]
            m = depth[0]
            e = it2.construct('path.CubicBezier', Rat.csym('e%ds' % m), Rat.csym('e%da' % m), Rat.csym('e%db' % m), Rat.csym('e%de' % m))
            n0 = s0 if s0.cls.name != 'Line' else it2.construct('path.Line', s0.attrs['start'], e.attrs['start'])
            n1 = s1 if s1.cls.name != 'Line' else it2.construct('path.Line', e.attrs['end'], s1.attrs['end'])
            if s0.cls.name != 'Line':
                e.attrs['start'] = s0.attrs['end']
            if s1.cls.name != 'Line':
                e.attrs['end'] = s1.attrs['start']
            return n0, [e], n1
        it.call_hooks['smoothing.smoothed_joint'] = sj
        s0t, elbow, s1t = it.call(it.closure_of('smoothing.smoothed_joint'), [seg0, seg1, MJ, TIGHT], {})
        return s0t, elbow, s1t, seg0, seg1

    def judge_cc(v):
        s0t, elbow, s1t, seg0, seg1 = v
        chain = [s0t] + list(elbow) + [s1t]
        pairs = [('piece %d -> %d' % (i, i + 1), chain[i].attrs['end'], chain[i + 1].attrs['start']) for i in range(len(chain) - 1)]
        pairs += [('outer start kept', s0t.attrs['start'], seg0.attrs['start']), ('outer end kept', s1t.attrs['end'], seg1.attrs['end'])]
        if len(elbow) < 3:
            return False, 'curve-curve elbow has %d pieces' % len(elbow)
        return decide_all_equal(pairs)
    Obligation(ctx, 'R20.3').run(fj, 'curve-curve joint: pieces chained end to end', th_cc, judge_cc, allowed_raises=('AssertionError',),
                                 opts={'presign': pres})

    # ---------------------------------------------------------------- R20.2 bookkeeping
    fp = mdl.func('smoothing.smoothed_path')
    for closed in (False, True):
        V = [Rat.csym('V%d' % k) for k in range(4)]

        def th_p(it, closed=closed):
            ends = [V[1], V[2], V[0] if closed else V[3]]
            segs = [it.construct('path.Line', V[k], ends[k]) for k in range(3)]
            p = it.construct('path.Path', *segs)
            uts = {}

            def ut(it2, a, k):
                s, t = a[0], to_rat(a[1])
                key = (id(s), t.key())
                if key not in uts:
                    uts[key] = Rat.csym('u%d' % len(uts))
                return uts[key]
            it.call_hooks['path.Line.unit_tangent'] = ut
            calls = []

            def sj(it2, a, k):
                i = len(calls)
                n0, e, n1 = Opaque('N0_%d' % i), Opaque('E_%d' % i), Opaque('N1_%d' % i)
                for o in (n0, e, n1):
                    o.attrs['start'] = Rat.csym('st_' + o.what)
                    o.attrs['end'] = Rat.csym('en_' + o.what)
                    o.attrs['unit_tangent'] = PyFunc(lambda it3, a3, k3, o=o: Rat.csym('ut_%s_%s' % (o.what, to_rat(a3[0]).key())), 'ut')
                calls.append((a[0], a[1], n0, e, n1))
                return n0, [e], n1
            it.call_hooks['smoothing.smoothed_joint'] = sj

            def joint_builder(it2, f, a, k):
                # whatever smoothed_path calls directly, inside the smoothing module, with two neighbouring segments AND at least one more
                # argument (the joint size): the joint builder (it may be a private worker behind the public smoothed_joint); a helper
                # that takes just the two segments (e.g. one computing their tangents) is ordinary code
                if f.info is not None and f.info.module.name == 'smoothing' and f.info.name not in ('smoothed_path', 'kinks', 'is_differentiable') \
                        and it2.func_stack and it2.func_stack[-1] == 'smoothing.smoothed_path' and len(a) >= 2 and len(a) + len(k) >= 3 \
                        and all(isinstance(x, (Obj, Opaque)) and 'start' in getattr(x, 'attrs', {}) for x in a[:2]):
                    return sj
                return None
            it.hook_pred = joint_builder
            captured = {}

            def mkpath(it2, a, k):
                captured['segs'] = list(a)
                return 'RESULT'
            res = None
            it.call_hooks['smoothing._report_unfixable_kinks'] = lambda it2, a, k: (_ for _ in ()).throw(PyRaise('Exception', 'unfixable'))
            # the final Path(*new_path): intercept only constructions made inside smoothed_path
            orig = it.call_hooks.get('path.Path')
            out = it.call(it.closure_of('smoothing.smoothed_path'), [p, MJ, TIGHT], {})
            return out, calls, segs

        def judge_p(v, closed=closed):
            out, calls, segs = v
            if not isinstance(out, Obj):
                return False, 'result is not a Path'
            got = out.attrs['_segments']
            # replay the specification: which joints were smoothed is visible from the calls made
            exp = [segs[0]]
            ci = 0
            n = 3
            for idx in range(n):
                if idx == n - 1:
                    if not closed:
                        continue
                    seg1 = exp[0]
                else:
                    seg1 = segs[idx + 1]
                seg0 = exp[-1]
                if ci < len(calls) and calls[ci][0] is seg0 and calls[ci][1] is seg1:
                    _, _, n0, e, n1 = calls[ci]
                    ci += 1
                    exp[-1] = n0
                    exp.append(e)
                    if idx == n - 1:
                        exp[0] = n1
                    else:
                        exp.append(n1)
                else:
                    if idx != n - 1:
                        exp.append(seg1)
            if ci != len(calls):
                nm = lambda o: o.what if isinstance(o, Opaque) else ('s%d' % [i for i, s in enumerate(segs) if s is o][0] if any(s is o for s in segs) else '?')
                return False, 'smoothed_joint was called on a pair that is not (current last piece, next segment): calls %s' % (
                    [(nm(c[0]), nm(c[1])) for c in calls],)
            ok = len(got) == len(exp) and all(a is b for a, b in zip(got, exp))
            name = lambda o: o.what if isinstance(o, Opaque) else ('s%d' % [i for i, s in enumerate(segs) if s is o][0] if any(s is o for s in segs) else '?')
            return ok, '' if ok else 'pieces %s, expected %s' % ([name(o) for o in got], [name(o) for o in exp])
        Obligation(ctx, 'R20.2').run(fp, 'smoothed_path bookkeeping, %s 3-segment path, all joint patterns' % ('closed' if closed else 'open'),
                                     th_p, judge_p, allowed_raises=('AssertionError', 'Exception'),
                                     opts={'presign': [(V[0], '-+'), (V[3], '-+'), (V[3] - V[0], '-+')]})

    def th_single(it):
        p = it.construct('path.Path', it.construct('path.Line', Rat.csym('a'), Rat.csym('b')))
        return it.call(it.closure_of('smoothing.smoothed_path'), [p], {}), p
    Obligation(ctx, 'R20.2').run(fp, 'single-segment path is returned unchanged', th_single, lambda v: (v[0] is v[1], 'a different object is returned'))
