"""C18 - paths written to SVG (wsvg, Document, SaxDocument) are read back unchanged, with attributes.

Decided: the writer/reader qualified-name matrix under a stated API model (svgwrite, ElementTree,
minidom); attribute pass-through in disvg, Document.add_path, svg2paths and SaxDocument (own
attributes win over inherited style); order preservation; the matrix string written by
SaxDocument.generate_dom is the inverse permutation of the matrix(...) reader.
Not decided: internals of svgwrite / ElementTree / minidom beyond the API model, d-string equality (C01)."""
import ast
from svtstatic import poly, redfa
import re as _re
import re._parser as _sre_parse
import re._constants as _SC
from svtstatic.values import ExtRef, PyFunc, Closure, StrT, Hole
from .common import *
from .c17 import Elem, _wrap, SVGNS, own_object_per_element

PROPERTY = 'C18'
LEVEL = 'other'
NS = 'http://www.w3.org/2000/svg'


def stub(what, **methods):
    o = Opaque(what)
    for k, f in methods.items():
        o.attrs[k] = PyFunc(f, k) if callable(f) else f
    return o


def run(ctx):
    mdl = ctx.model
    ctx.assume('API model (trusted): svgwrite emits un-prefixed elements in the default SVG namespace; ElementTree serialises {ns}local with '
               'the registered prefix (svg:) and un-namespaced tags verbatim; an xmlns attribute puts un-prefixed descendants in that '
               'namespace on re-parsing; minidom.getElementsByTagName matches the literal qualified name; iterfind(prefix:local, map) matches '
               '{ns}local')
    ctx.rule('R18.1', 'writer x reader qualified-name matrix: every writer\'s <path> is found by every reader', 9)
    ctx.rule('R18.2', 'attribute pass-through: disvg (per-path and svg-level), Document.add_path (d overrides), svg2paths (all attributes), '
                      'SaxDocument (own attributes over inherited style)', 4)
    ctx.rule('R18.3', 'order: writers append in input order, readers return document order per tag', 2)
    ctx.rule('R18.4', 'generate_dom writes matrix(m00 m10 m01 m11 m02 m12): the inverse permutation of the matrix(...) reader', 1)
    ob = lambda r: Obligation(ctx, r)
    own_object_per_element(ctx, mdl, 'R18.2')
    _save_writes_serialisation(ctx, mdl)
    _serialised_text_not_rewritten(ctx, mdl)
    _documents_do_not_share_state(ctx, mdl)

    # ================================================================= writers: what element name do they create?
    facts = {}

    # ---- Document.add_path / add_group
    fadd = mdl.func('document.Document.add_path')
    created = []

    def sub_el(it, a, k):
        created.append((a[0], a[1], a[2] if len(a) > 2 else k.get('attrib', {})))
        return stub('Element<new>')

    def th_add(it, loaded_plain=False):
        del created[:]
        it.ext_hooks['xml.etree.ElementTree.SubElement'] = sub_el
        root = _wrap(it, Elem('svg'), {})
        tree = stub('tree', getroot=lambda it2, a, k: root, iter=lambda it2, a, k: [root])
        # the Document is built by its own constructor (whatever it records about itself is there): from scratch, or loaded from a
        # file whose <svg> root carries NO namespace declaration (root.tag == 'svg')
        if loaded_plain:
            root.attrs['tag'] = 'svg'
        it.ext_hooks['xml.etree.ElementTree.parse'] = lambda it2, a, k: tree
        it.ext_hooks['xml.etree.ElementTree.ElementTree'] = lambda it2, a, k: tree
        it.ext_hooks['xml.etree.ElementTree.Element'] = lambda it2, a, k: root
        it.ext_hooks['os.path.abspath'] = lambda it2, a, k: a[0]
        try:
            doc = it.instantiate(mdl.cls('document.Document'), ['f.svg'] if loaded_plain else [], {})
        except (Undecidable, PyRaise):
            doc = it.new_obj('document.Document')
        doc.attrs['tree'] = tree
        doc.attrs['root'] = root
        it.call_hooks['path.Path.d'] = lambda it2, a, k: 'NEW-D'
        p = it.construct('path.Path', it.construct('path.Line', Rat.csym('a'), Rat.csym('b')))
        attribs = {'stroke': 'red', 'd': 'OLD-D', 'id': 'x1'}
        it.call_method(doc, 'add_path', p, attribs)
        it.call_method(doc, 'add_group', {'id': 'g1'})
        return list(created), attribs
    try:
        paths = [p_ for p_ in explore(ctx.model, th_add, {}) if p_.raised is None]
        if not paths:
            raise Undecidable('add_path / add_group raise on a Document created from scratch')
        (c_path, c_group), attribs = paths[0].value[0][:2], paths[0].value[1]
        facts['doc_path_tag'] = c_path[1]
        facts['doc_group_tag'] = c_group[1]
        given = c_path[2]
        ok = isinstance(given, dict) and given.get('d') == 'NEW-D' and given.get('stroke') == 'red' and given.get('id') == 'x1' and attribs.get('d') == 'OLD-D'
        ctx.record('R18.2', fadd.qualname, 'add_path: copies attribs, d := path.d() (overriding a stale d), caller dict untouched', ok,
                   detail='' if ok else 'SubElement receives %r (caller dict now %r)' % (given, attribs), where=where(fadd))
    except (Undecidable, IndexError) as e:
        ctx.undecided('R18.2', fadd.qualname, 'add_path', str(e), where=where(fadd))

    # ---- SaxDocument.generate_dom
    fgen = mdl.func('svg_io_sax.SaxDocument.generate_dom')
    sets = []

    def mk_el(tag):
        return stub('Element<%s>' % tag, set=lambda it2, a, k, tag=tag: sets.append((tag, a[0], a[1])))
    M = [[Rat.sym('m%d%d' % (i, j)) for j in range(3)] for i in range(3)]

    def th_gen(it):
        del sets[:]
        del created[:]
        def initial(tag, attrib, extra):
            # Element(tag, attrib={}, **extra) / SubElement(parent, tag, attrib={}, **extra): attributes given at creation
            for src in (attrib, extra):
                if isinstance(src, dict):
                    for k_, v_ in src.items():
                        if k_ != 'attrib':
                            sets.append((tag, k_, v_))

        def new_root(it2, a, k):
            tag = 'ROOT:' + a[0]
            initial(tag, a[1] if len(a) > 1 else k.get('attrib'), k)
            return mk_el(tag)

        def new_sub(it2, a, k):
            created.append((a[0], a[1]))
            initial(a[1], a[2] if len(a) > 2 else k.get('attrib'), k)
            return mk_el(a[1])
        it.ext_hooks['xml.etree.ElementTree.Element'] = new_root
        it.ext_hooks['xml.etree.ElementTree.SubElement'] = new_sub
        it.ext_hooks['xml.etree.ElementTree.ElementTree'] = lambda it2, a, k: 'TREE'
        doc = it.new_obj('svg_io_sax.SaxDocument')
        doc.attrs['root_values'] = {'width': '10', 'height': '20', 'viewBox': '0 0 1 1'}
        doc.attrs['tree'] = [{'d': 'D1', 'matrix': Arr([list(r) for r in M]), 'fill': 'f1', 'stroke': 's1'},
                             {'d': 'D2', 'matrix': None, 'fill': 'f2'}]
        it.call_method(doc, 'generate_dom')
        return list(sets), list(created)
    try:
        pths = explore(ctx.model, th_gen, {'presign': [(M[0][0] - 1, '-+')]})
        sets_, created_ = [p for p in pths if p.raised is None][0].value
        facts['sax_path_tag'] = created_[0][1] if created_ else None
        facts['sax_root_xmlns'] = [v for t, k, v in sets_ if t.startswith('ROOT') and k == 'xmlns']
        tf = [v for t, k, v in sets_ if k == 'transform']
        order_ok = [v for t, k, v in sets_ if k == 'd'] == ['D1', 'D2']
        ctx.record('R18.3', fgen.qualname, 'generate_dom writes the paths in tree order with their d', order_ok,
                   detail='' if order_ok else 'd attributes written: %r' % [v for t, k, v in sets_ if k == 'd'], where=where(fgen))
        # R18.4
        probs = []
        if len(tf) != 1 or not isinstance(tf[0], StrT):
            probs.append('expected exactly one transform attribute (identity/None matrices are omitted), got %r' % (tf,))
        else:
            holes = [p_.value for p_ in tf[0].parts if isinstance(p_, Hole)]
            lits = ''.join(p_ for p_ in tf[0].parts if isinstance(p_, str))
            if not lits.strip().startswith('matrix(') or not lits.strip().endswith(')'):
                probs.append('transform is not written as matrix(...)')
            if len(holes) != 6:
                probs.append('%d numbers written' % len(holes))
            else:
                # the reader builds [[v0,v2,v4],[v1,v3,v5]] (R17.1)
                back = [[holes[0], holes[2], holes[4]], [holes[1], holes[3], holes[5]]]
                for i in range(2):
                    for j in range(3):
                        if not to_rat(back[i][j]).equals(M[i][j]):
                            probs.append('entry [%d][%d] reads back as %s' % (i, j, short(to_rat(back[i][j]), 20)))
        ctx.record('R18.4', fgen.qualname, 'matrix string permutation', not probs, detail='; '.join(probs[:3]), where=where(fgen))
    except (Undecidable, IndexError) as e:
        ctx.undecided('R18.4', fgen.qualname, 'generate_dom', str(e), where=where(fgen))

    # ---- disvg (svgwrite)
    fdis = mdl.func('paths2svg.disvg')
    rec = {}

    def th_dis(it):
        rec.clear()
        rec['added'] = []
        rec['probe'] = []

        def dwg_path(it2, a, k):
            if a:
                rec['probe'].append((a, dict(k)))
                return stub('probe')
            return ('PATHEL', dict(k))
        dwg = stub('Drawing', path=dwg_path, add=lambda it2, a, k: rec['added'].append(a[0]), save=lambda it2, a, k: None)
        it.ext_hooks['svgwrite.Drawing'] = lambda it2, a, k: rec.update(drawing_kwargs=dict(k)) or dwg
        for nm in ('os.path.join', 'os.path.abspath', 'os.path.dirname', 'os.path.splitext', 'os.path.split'):
            it.ext_hooks[nm] = lambda it2, a, k: 'PATHSTR'
        it.ext_hooks['os.path.exists'] = lambda it2, a, k: True
        it.ext_hooks['tempfile.gettempdir'] = lambda it2, a, k: '/tmp'
        n = 0
        ds = []

        def pd(it2, a, k):
            ds.append(a[0])
            return 'D%d' % len(ds)
        it.call_hooks['path.Path.d'] = pd
        p1 = it.construct('path.Path', it.construct('path.Line', Rat.csym('a'), Rat.csym('b')))
        p2 = it.construct('path.Path', it.construct('path.Line', Rat.csym('c'), Rat.csym('e')))
        attrs = [{'stroke': 'red', 'custom-x': '1', 'd': 'IGNORED'}, {'fill': 'blue'}]
        svg_attrs = {'width': '10', 'height': '20', 'data-k': 'v', 'viewBox': '0 0 1 1'}
        r = it.call(it.closure_of('paths2svg.disvg'), [[p1, p2]], {'filename': 'f.svg', 'attributes': attrs, 'svg_attributes': svg_attrs,
                                                                 'paths2Drawing': True, 'dimensions': ('1', '2'), 'viewbox': '0 0 1 1',
                                                                 'openinbrowser': False})
        first = dict(rec)
        first['added'] = list(rec['added'])
        # svg-level width / height that are falsy (0, as a number): still the caller's values, not the defaults
        it.call(it.closure_of('paths2svg.disvg'), [[p1]], {'filename': 'f.svg', 'attributes': [{'stroke': 'red'}], 'svg_attributes': {'width': 0, 'height': 0},
                                                          'paths2Drawing': True, 'dimensions': ('1', '2'), 'viewbox': '0 0 1 1',
                                                          'openinbrowser': False})
        first['zero_dims_kwargs'] = dict(rec.get('drawing_kwargs', {}))
        return first, attrs, svg_attrs
    try:
        pths = [p for p in explore(ctx.model, th_dis, {}) if p.raised is None]
        if not pths:
            raise Undecidable('disvg raised on the model inputs')
        rec_, attrs, svg_attrs = pths[0].value
        added = [a for a in rec_['added'] if isinstance(a, tuple) and a[0] == 'PATHEL']
        probs = []
        exp = [dict({k: v for k, v in attrs[0].items() if k != 'd'}, d='D1'), dict(attrs[1], d='D2')]
        if [a[1] for a in added] != exp:
            probs.append('path elements are created with %r, expected %r' % ([a[1] for a in added], exp))
        dk = rec_.get('drawing_kwargs', {})
        missing = [k for k in svg_attrs if k not in dk and k not in ('width', 'height')]
        if missing:
            probs.append('svg_attributes %s do not reach Drawing(...)' % missing)
        zk = rec_.get('zero_dims_kwargs', {})
        size = zk.get('size')
        got_dims = tuple(size) if isinstance(size, (tuple, list)) else (zk.get('width'), zk.get('height'))

        def is_zero(x):
            try:
                return x is not None and not isinstance(x, str) and to_rat(x).is_zero()
            except Exception:
                return False
        if not (len(got_dims) == 2 and all(is_zero(x) for x in got_dims)):
            probs.append("svg_attributes {'width': 0, 'height': 0} reach Drawing as %r" % (got_dims,))
        ctx.record('R18.2', fdis.qualname, 'disvg: every supplied attribute (except d) reaches dwg.path; svg_attributes reach Drawing', not probs,
                   detail='; '.join(probs), where=where(fdis))
        ctx.record('R18.3', fdis.qualname, 'disvg adds the paths in input order', [a[1].get('d') for a in added] == ['D1', 'D2'],
                   detail='order of d: %r' % [a[1].get('d') for a in added], where=where(fdis))
        facts['disvg_path_call'] = True
    except Undecidable as e:
        ctx.undecided('R18.2', fdis.qualname, 'disvg', str(e), where=where(fdis))

    # ---- group addressing: a nested-name path is resolved level by level among DIRECT children (get_group and get_or_add_group agree)
    ctx.rule('R18.5', 'Document.get_group / get_or_add_group resolve each name among the direct children of the previous group; '
                      'a missing level is created under the group reached so far; with duplicate sibling names both pick the same group', 2)
    fgg = mdl.func('document.Document.get_or_add_group')

    def th_grp(it):
        inner = Elem('g', {'id': 'shapes'})
        layer = Elem('g', {'id': 'layer1'}, [inner])
        root_e = Elem('svg', {}, [layer])
        cache = {}
        root = _wrap(it, root_e, cache)
        made = []

        def sub_el2(it2, a, k):
            parent = a[0]
            e = Elem(a[1].split('}')[-1], dict(a[2]) if len(a) > 2 else {})
            parent.attrs['__elem__'].children.append(e)
            w = _wrap(it2, e, cache)
            made.append((parent, a[1], dict(a[2]) if len(a) > 2 else {}, w))
            return w
        it.ext_hooks['xml.etree.ElementTree.SubElement'] = sub_el2
        doc = it.new_obj('document.Document')
        doc.attrs['tree'] = stub('tree', getroot=lambda it2, a, k: root, iter=lambda it2, a, k: [_wrap(it2, x, cache) for x in __import__('checks.c17', fromlist=['_all'])._all(root_e)])
        found_nested = it.call_method(doc, 'get_group', ['layer1', 'shapes'])
        found_top = it.call_method(doc, 'get_group', ['shapes'])
        got = it.call_method(doc, 'get_or_add_group', ['shapes'])
        return found_nested, found_top, got, list(made), root, _wrap(it, inner, cache)

    def judge_grp(v):
        found_nested, found_top, got, made, root, inner = v
        probs = []
        if found_nested is not inner:
            probs.append("get_group(['layer1','shapes']) does not find the nested group")
        if found_top is not None:
            probs.append("get_group(['shapes']) finds a group that is not a direct child of the root")
        if got is inner:
            probs.append("get_or_add_group(['shapes']) returns the group nested inside 'layer1' instead of creating one under the root")
        elif len(made) != 1 or made[0][0] is not root or made[0][2].get('id') != 'shapes':
            probs.append('get_or_add_group does not create the missing group under the root (%d elements created)' % len(made))
        return not probs, '; '.join(probs)
    ob('R18.5').run(fgg, 'nested group names are resolved among direct children', th_grp, judge_grp)

    # duplicate sibling names: the reader (get_group) and the writer's lookup (get_or_add_group, used by add_path) pick the same group
    def th_dup(it):
        first = Elem('g', {'id': 'layer'})
        second = Elem('g', {'id': 'layer'})
        third = Elem('g', {'id': 'other'}, [Elem('g', {'id': 'layer'})])
        root_e = Elem('svg', {}, [first, second, third])
        cache = {}
        root = _wrap(it, root_e, cache)
        it.ext_hooks['xml.etree.ElementTree.SubElement'] = lambda it2, a, k: Opaque('created')
        doc = it.new_obj('document.Document')
        doc.attrs['tree'] = stub('tree', getroot=lambda it2, a, k: root, iter=lambda it2, a, k: [_wrap(it2, x, cache) for x in __import__('checks.c17', fromlist=['_all'])._all(root_e)])
        a = it.call_method(doc, 'get_group', ['layer'])
        b = it.call_method(doc, 'get_or_add_group', ['layer'])
        return a, b, _wrap(it, first, cache), _wrap(it, second, cache)

    def judge_dup(v):
        a, b, first, second = v
        if a is not b:
            which = lambda x: 'the first' if x is first else ('the second' if x is second else 'another element')
            return False, ("with two sibling groups of the same name get_group returns %s and get_or_add_group %s: a path added to ['layer'] "
                           "is not found by paths_from_group(['layer'])" % (which(a), which(b)))
        return True, ''
    ob('R18.5').run(mdl.func('document.Document.get_group'), 'duplicate sibling names: get_group and get_or_add_group agree', th_dup, judge_dup)

    # ================================================================= readers
    # ---- svg2paths
    fs2p = mdl.func('svg_to_paths.svg2paths')
    asked = []

    def th_s2p(it):
        del asked[:]

        def attr(v):
            return stub('Attr', value=v)

        def el(**kw):
            # xml.dom.minidom.NamedNodeMap: keys() names, values() Attr nodes, items() (name, VALUE) pairs, [name] Attr node
            nodes = {k: attr(v) for k, v in kw.items()}
            nnm = stub('NamedNodeMap', keys=lambda it2, a, k: list(nodes), values=lambda it2, a, k: list(nodes.values()),
                       items=lambda it2, a, k: [(n, kw[n]) for n in nodes], __getitem__=lambda it2, a, k: nodes[a[0]],
                       get=lambda it2, a, k: nodes.get(a[0], a[1] if len(a) > 1 else None), __len__=lambda it2, a, k: len(nodes),
                       __contains__=lambda it2, a, k: a[0] in nodes, length=len(nodes))
            return stub('DomElement', attributes=nnm, getAttribute=lambda it2, a, k: kw.get(a[0], ''),
                        hasAttribute=lambda it2, a, k: a[0] in kw)
        els = {'path': [el(d='DA', stroke='red', id='p1'), el(d='DB', fill='blue')], 'svg': [el(width='10')]}

        def gebtn(it2, a, k):
            asked.append(a[0])
            return els.get(a[0], [])
        doc = stub('Document', getElementsByTagName=gebtn, unlink=lambda it2, a, k: None)
        it.ext_hooks['xml.dom.minidom.parse'] = lambda it2, a, k: doc
        it.ext_hooks['os.path.abspath'] = lambda it2, a, k: a[0]
        it.call_hooks['parser.parse_path'] = lambda it2, a, k: ('PARSED', a[0])
        return it.call(it.closure_of('svg_to_paths.svg2paths'), ['f.svg'], {}), list(asked)
    try:
        pths = [p for p in explore(ctx.model, th_s2p, {}) if p.raised is None]
        (plist, alist), asked_ = pths[0].value
        ok = list(plist) == [('PARSED', 'DA'), ('PARSED', 'DB')] and alist[:2] == [{'d': 'DA', 'stroke': 'red', 'id': 'p1'}, {'d': 'DB', 'fill': 'blue'}]
        ctx.record('R18.2', fs2p.qualname, 'svg2paths returns every attribute of every path element, in document order', ok,
                   detail='' if ok else 'returned %r / %r' % (plist, alist), where=where(fs2p))
        facts['s2p_tag'] = asked_[0] if asked_ else None
    except (Undecidable, IndexError) as e:
        ctx.undecided('R18.2', fs2p.qualname, 'svg2paths', str(e), where=where(fs2p))

    # ---- SaxDocument reader: attributes and name stripping
    fsax = mdl.func('svg_io_sax.SaxDocument.sax_parse')

    def th_sax(it):
        p1 = Elem('path', {'d': 'D1', 'stroke': 'blue', 'id': 'p1'})
        p2 = Elem('path', {'d': 'D2', 'style': 'fill:green;stroke:black', 'id': 'p2'})
        g = Elem('g', {'style': 'stroke:red;fill:none'}, [p1, p2])
        root = Elem('svg', {'width': '10'}, [g])
        cache = {}
        events = []

        def walk(e):
            events.append(('start', _wrap(it, e, cache)))
            for c in e.children:
                walk(c)
            events.append(('end', _wrap(it, e, cache)))
        walk(root)
        it.ext_hooks['xml.etree.ElementTree.iterparse'] = lambda it2, a, k: list(events)
        doc = it.new_obj('svg_io_sax.SaxDocument')
        it.call_method(doc, 'sax_parse', 'f.svg')
        return doc.attrs['tree'], doc.attrs['root_values']
    try:
        pths = [p for p in explore(ctx.model, th_sax, {}) if p.raised is None]
        tree, rootv = pths[0].value
        probs = []
        if [t.get('id') for t in tree] != ['p1', 'p2']:
            probs.append('tree order %r' % [t.get('id') for t in tree])
        else:
            t1, t2 = tree
            if t1.get('stroke') != 'blue':
                probs.append("a path's own stroke attribute is overridden by an ancestor's style (got %r)" % t1.get('stroke'))
            if t1.get('fill') != 'none':
                probs.append('inherited style not visible on a child (fill=%r)' % t1.get('fill'))
            if t2.get('fill') != 'green' or t2.get('stroke') != 'black':
                probs.append("a path's own style is not applied (fill=%r stroke=%r)" % (t2.get('fill'), t2.get('stroke')))
            if t1.get('d') != 'D1' or t2.get('d') != 'D2':
                probs.append('d attributes lost')
        if rootv.get('width') != '10':
            probs.append('svg-level attributes not recorded')
        ctx.record('R18.2', fsax.qualname, 'SaxDocument: own attributes > own style > inherited; svg attributes kept', not probs,
                   detail='; '.join(probs), where=where(fsax))
    except (Undecidable, IndexError) as e:
        ctx.undecided('R18.2', fsax.qualname, 'sax_parse', str(e), where=where(fsax))

    # ================================================================= R18.1 the name matrix
    sm = mdl.module('svg_io_sax')
    dm = mdl.module('document')

    def const_str(mod, name):
        e = mod.globals.get(name)
        if isinstance(e, ast.Constant) and isinstance(e.value, str):
            return e.value
        raise AnchorMissing('%s.%s' % (mod.name, name))
    xmlns = const_str(sm, 'VALUE_XMLNS')
    # SaxDocument reader strips tag[28:]
    strip = None
    for n in ast.walk(fsax.node):
        if isinstance(n, ast.Subscript) and isinstance(n.value, ast.Attribute) and n.value.attr == 'tag' and isinstance(n.slice, ast.Slice) \
                and isinstance(n.slice.lower, ast.Constant):
            strip = n.slice.lower.value
    # Document reader: iterfind('svg:' + key, SVG_NAMESPACE)
    fflat = mdl.func('document.flattened_paths')
    ns_map = dm.globals.get('SVG_NAMESPACE')
    doc_ns = None
    if isinstance(ns_map, ast.Dict):
        for k, v in zip(ns_map.keys, ns_map.values):
            if isinstance(k, ast.Constant) and k.value == 'svg' and isinstance(v, ast.Constant):
                doc_ns = v.value
    reg_prefix = any(isinstance(n, ast.Call) and call_name(n) == 'register_namespace' and len(n.args) == 2 and
                     isinstance(n.args[0], ast.Constant) and n.args[0].value == 'svg' for n in ast.walk(dm.tree))
    # what the Document reader asks its tree for: run the traversal on a stub root that records every iterfind(query, namespaces)
    asked_doc = []

    def th_ask(it):
        root_ = Opaque('Element<svg>')
        root_.attrs['tag'] = SVGNS + 'svg'
        root_.attrs['attrib'] = {}
        root_.attrs['get'] = PyFunc(lambda it2, a, k: a[1] if len(a) > 1 else None, 'get')

        def iterfind(it2, a, k):
            nsmap = a[1] if len(a) > 1 else k.get('namespaces')
            asked_doc.append((a[0] if isinstance(a[0], str) else str(a[0]), dict(nsmap) if isinstance(nsmap, dict) else None))
            return []
        root_.attrs['iterfind'] = PyFunc(iterfind, 'iterfind')
        root_.attrs['findall'] = PyFunc(iterfind, 'findall')
        root_.attrs['iter'] = PyFunc(lambda it2, a, k: [root_], 'iter')
        root_.attrs['__iter__'] = PyFunc(lambda it2, a, k: [], '__iter__')
        return it.call(it.closure_of('document.flattened_paths'), [root_], {})
    try:
        explore(mdl, th_ask, {'ext_hooks': {'warnings.warn': lambda it, a, k: None}})
    except Undecidable:
        asked_doc = None
    if asked_doc is not None and not asked_doc:
        asked_doc = None          # nothing was asked: the traversal did not get as far as its queries

    def doc_reader_matches(expanded):
        if asked_doc is None:
            return False
        for q, nsmap in asked_doc:
            q = q[3:] if q.startswith('.//') else (q[2:] if q.startswith('./') else q)
            if q == expanded:
                return True
            if ':' in q and not q.startswith('{'):
                pre, local = q.split(':', 1)
                if nsmap and pre in nsmap and '{%s}%s' % (nsmap[pre], local) == expanded:
                    return True
        return False
    iterfind_prefixed = True

    # serialised forms (API model): (qualified name in the file, expanded name after re-parsing)
    writers = {}
    writers['disvg/wsvg (svgwrite)'] = ('path', '{%s}path' % NS) if facts.get('disvg_path_call') else None
    t = facts.get('doc_path_tag')
    if isinstance(t, str):
        if t.startswith('{'):
            ns_, local = t[1:].split('}')
            writers['Document.add_path + save'] = (('svg:' + local) if (reg_prefix and ns_ == NS) else ('ns0:' + local), t)
        else:
            writers['Document.add_path + save'] = (t, t)     # un-namespaced element inside an un-namespaced root
    t = facts.get('sax_path_tag')
    if isinstance(t, str):
        declared = facts.get('sax_root_xmlns') or []
        writers['SaxDocument.save'] = (t, ('{%s}%s' % (declared[0], t)) if declared and not t.startswith('{') else t)
    readers = {
        'svg2paths': lambda q, x: q == facts.get('s2p_tag'),
        'Document.paths': lambda q, x: doc_reader_matches(x),
        'SaxDocument': lambda q, x: strip is not None and x.startswith('{') and len('{' + xmlns + '}') == strip and x[strip:] == 'path'
        and x.startswith('{' + xmlns + '}'),
    }
    for w, forms in writers.items():
        for r, can in readers.items():
            if forms is None:
                ctx.undecided('R18.1', 'package', '%s -> %s' % (w, r), 'writer form not extracted', where='svgpathtools/*')
                continue
            if r == 'Document.paths' and asked_doc is None:
                ctx.undecided('R18.1', 'package', '%s -> %s' % (w, r), 'the Document traversal left the interpretable fragment: its element queries are not known',
                              where='svgpathtools/*')
                continue
            ok = bool(can(*forms))
            ctx.record('R18.1', 'package', '%s -> %s' % (w, r), ok,
                       detail='' if ok else 'the writer serialises <%s> (expanded %s); this reader does not match it' % forms,
                       where='svgpathtools/*', sample={'serialised': forms[0], 'expanded': forms[1]})
    # a Document's own queries see what add_path created (F21)
    # ... also in a Document loaded from a file whose root has no namespace declaration
    try:
        lp = [p_ for p_ in explore(ctx.model, lambda it: th_add(it, True), {}) if p_.raised is None]
        if lp:
            (lp_path, lp_group) = lp[0].value[0][:2]
            okl = doc_reader_matches(lp_path[1]) and isinstance(lp_group[1], str) and lp_group[1] == lp_path[1][:-4] + 'g'
            ctx.record('R18.1', fadd.qualname, 'in a loaded document without xmlns, elements created by add_path/add_group are found by the Document\'s own queries', okl,
                       detail='' if okl else 'add_path creates %r, add_group %r: the traversal does not look for these' % (lp_path[1], lp_group[1]), where=where(fadd))
    except (Undecidable, IndexError):
        pass
    t = facts.get('doc_path_tag')
    ok = isinstance(t, str) and doc_ns is not None and t == '{%s}path' % doc_ns and facts.get('doc_group_tag') == '{%s}g' % doc_ns
    ctx.record('R18.1', fadd.qualname, 'elements created by add_path/add_group are in the namespace the Document searches', ok,
               detail='' if ok else 'add_path creates %r, add_group %r; flattened_paths searches {%s}path' % (t, facts.get('doc_group_tag'), doc_ns),
               where=where(fadd))


def _save_writes_serialisation(ctx, mdl):
    """Document.save writes the serialisation of its tree with every attribute value intact (whatever it does to tag names or
    headers): a serialisation whose attribute values contain text that looks like markup ('svg:', 'xmlns') is handed to the file
    with those values unchanged."""
    DocC = mdl.cls('document.Document')
    if 'save' not in DocC.methods:
        return
    fi = DocC.methods['save']
    vals = ['id="svg:copy-of-outline"', 'data-source="sprites.svg:icon-7"', 'note="xmlns:svg= is text here"', 'd="M0,0 L1,1"']
    SER = '<svg:svg xmlns:svg="http://www.w3.org/2000/svg"><svg:path %s/></svg:svg>' % ' '.join(vals)
    for pretty in (False, True):
        def th(it, pretty=pretty):
            written = []
            f = stub('file', write=lambda it2, a, k: written.append(a[0]), close=lambda it2, a, k: None)
            f.attrs['__enter__'] = PyFunc(lambda it2, a, k: f, 'enter')
            f.attrs['__exit__'] = PyFunc(lambda it2, a, k: None, 'exit')
            it.ext_hooks['builtins.open'] = lambda it2, a, k: f
            it.call_hooks['document.Document.__repr__'] = lambda it2, a, k: SER
            it.call_hooks['document.Document.pretty'] = lambda it2, a, k: '<?xml version="1.0" ?>\n' + SER
            it.ext_hooks['builtins.repr'] = lambda it2, a, k: SER
            doc = it.new_obj('document.Document')
            it.call_method(doc, 'save', 'f.svg', prettify=pretty)
            return written

        def judge(v):
            try:
                text = ''.join(x if isinstance(x, str) else x.plain() for x in v)
            except Exception:
                return None, 'the text written is not a plain string'
            missing = [x for x in vals if x not in text]
            return not missing, '' if not missing else 'the attribute(s) %s of the serialised tree do not reach the file unchanged (written: %s)' % (
                missing, short(text, 120))
        Obligation(ctx, 'R18.2').run(fi, 'Document.save(prettify=%s) writes the attribute values of the serialisation unchanged' % pretty, th, judge)


def _documents_do_not_share_state(ctx, mdl):
    """two Documents created from scratch in one run are independent: each has its own root element (what is added to one
    does not appear in the other)."""
    DocC = mdl.cls('document.Document')
    fi = DocC.methods['__init__']

    def th(it):
        made = []

        def element(it2, a, k):
            e = stub('Element<%s>' % (a[0],))
            e.attrs['tag'] = a[0]
            e.attrs['attrib'] = {}
            made.append(e)
            return e
        for nm in ('xml.etree.ElementTree.Element', 'xml.etree.ElementTree.SubElement'):
            it.ext_hooks[nm] = element
        it.ext_hooks['xml.etree.ElementTree.ElementTree'] = lambda it2, a, k: stub('tree', getroot=lambda it3, a3, k3, r=a[0]: r)
        d1 = it.instantiate(DocC, [], {})
        d2 = it.instantiate(DocC, [None], {})
        return it.call_method(d1.attrs['tree'], 'getroot'), it.call_method(d2.attrs['tree'], 'getroot'), d1.attrs.get('root'), d2.attrs.get('root')

    def judge(v):
        r1, r2, a1, a2 = v
        if r1 is r2 or (a1 is not None and a1 is a2):
            return False, 'Document() and Document(None) created in one run share one root element: paths added to one appear in the other'
        return True, ''
    Obligation(ctx, 'R18.3').run(fi, 'two Documents created from scratch have their own root elements', th, judge,
                                 opts={'ext_hooks': {'os.path.abspath': lambda it, a, k: a[0]}})


# ---------------------------------------------------------------------------------------------------
# R18.6  serialised XML text is not rewritten inside attribute values
_SER_SOURCES = {'tostring', 'toxml', 'toprettyxml', '__repr__', 'pretty', 'tostringlist'}
_PLAIN_VALUE = r'[A-Za-z0-9 .,;:\-\n\t]+'       # strings every writer may put inside an attribute value (d, style, class)


def _is_ser_source(n):
    if not isinstance(n, ast.Call):
        return False
    f = n.func
    if isinstance(f, ast.Name) and f.id in ('repr', 'str') and n.args and isinstance(n.args[0], ast.Name) and n.args[0].id == 'self':
        return True
    return isinstance(f, (ast.Attribute, ast.Name)) and (f.attr if isinstance(f, ast.Attribute) else f.id) in _SER_SOURCES


def _has_anchor(items):
    for op, av in items:
        if op in (_SC.AT, _SC.ASSERT, _SC.ASSERT_NOT, _SC.GROUPREF, _SC.GROUPREF_EXISTS):
            return True
        subs = []
        if op in (_SC.MAX_REPEAT, _SC.MIN_REPEAT, getattr(_SC, 'POSSESSIVE_REPEAT', None)):
            subs = [av[2]]
        elif op == _SC.SUBPATTERN:
            subs = [av[3]]
        elif op == _SC.BRANCH:
            subs = av[1]
        elif op == getattr(_SC, 'ATOMIC_GROUP', None):
            subs = [av]
        if any(_has_anchor(list(x)) for x in subs):
            return True
    return False


def _rewrites_plain_value(pattern):
    """True / False / None(undecided): can the pattern match a non-empty string made only of characters that are legal, unescaped,
    inside an attribute value?  (then a substitution on serialised XML can change an attribute value)"""
    try:
        items = list(_sre_parse.parse(pattern))
        if _has_anchor(items):
            return None, 'anchors / look-around / back-references are outside the DFA fragment'
        d = redfa.compile_dfa(items)
        safe = redfa.compile_dfa(_PLAIN_VALUE)
    except Undecidable as e:
        return None, str(e)
    w = redfa._product_search(d, safe, lambda ia, ib: ia and ib)
    return (w is not None), w


def _text_rewrites(fnode):
    """(call node, pattern or None, kind) for every substitution whose subject derives from a serialisation result in this function"""
    tainted = set()
    def expr_tainted(e):
        return any(_is_ser_source(n) or (isinstance(n, ast.Name) and n.id in tainted) for n in ast.walk(e))
    changed = True
    while changed:
        changed = False
        for st in ast.walk(fnode):
            if isinstance(st, (ast.Assign, ast.AugAssign, ast.AnnAssign)) and st.value is not None and expr_tainted(st.value):
                tg = st.targets if isinstance(st, ast.Assign) else [st.target]
                for t in tg:
                    for n in ast.walk(t):
                        if isinstance(n, ast.Name) and n.id not in tainted:
                            tainted.add(n.id)
                            changed = True
    nsrc = sum(1 for n in ast.walk(fnode) if _is_ser_source(n))
    out = []
    for c in ast.walk(fnode):
        if not isinstance(c, ast.Call) or not isinstance(c.func, ast.Attribute):
            continue
        a = c.func.attr
        const = lambda e: e.value if isinstance(e, ast.Constant) and isinstance(e.value, str) else None
        if a in ('sub', 'subn'):
            kw = {k.arg: k.value for k in c.keywords}
            if isinstance(c.func.value, ast.Name) and c.func.value.id in ('re', '_re', 'regex'):
                subj = c.args[2] if len(c.args) > 2 else kw.get('string')
                pat = c.args[0] if c.args else kw.get('pattern')
                if subj is not None and expr_tainted(subj):
                    out.append((c, const(pat) if pat is not None else None, 're.%s' % a))
            else:
                subj = c.args[1] if len(c.args) > 1 else kw.get('string')
                if subj is not None and expr_tainted(subj):
                    out.append((c, None, '<compiled>.%s' % a))
        elif a in ('replace', 'translate') and expr_tainted(c.func.value):
            p0 = const(c.args[0]) if (a == 'replace' and c.args) else None
            out.append((c, _re.escape(p0) if p0 else None, 'str.%s' % a))
    return nsrc, out


def _serialised_text_not_rewritten(ctx, mdl):
    ctx.rule('R18.6', 'between serialisation (tostring / repr(self) / toxml / toprettyxml / pretty) and the file, no regex or string '
                      'substitution is applied whose pattern can match inside an attribute value (pattern -> DFA, intersected with the '
                      'language of plain attribute text)', 3)
    # controls (decision procedure on two literal snippets): must fire / must stay silent on every run
    for snippet, want in (("def f(self):\n    return re.sub(r'\\s{2,}', '', repr(self))", True),
                          ("def f(self):\n    return re.sub(r'>\\s+<', '><', repr(self))", False)):
        nsrc, rw = _text_rewrites(ast.parse(snippet).body[0])
        got = [_rewrites_plain_value(p)[0] for _c, p, _k in rw]
        if got != [want]:
            raise AnalysisError('R18.6 control %r decided %s' % (snippet, got))
    ctx.ok('R18.6', 'c18.controls', 'decision procedure: squeezing white space fires, joining tags does not')
    seen = 0
    for mname in ('document', 'svg_io_sax', 'paths2svg'):
        m = mdl.module(mname)
        funcs = list(m.functions.values()) + [f for c in m.classes.values() for f in c.all_funcs()]
        for f in sorted(funcs, key=lambda f: f.qualname):
            nsrc, rw = _text_rewrites(f.node)
            if not nsrc:
                continue
            seen += 1
            if not rw:
                ctx.ok('R18.6', f.qualname, 'serialised text is handed on unmodified')
            for c, pat, kind in rw:
                lab = '%s on serialised text' % kind
                w_ = '%s:%d' % (f.file, c.lineno)
                if pat is None:
                    ctx.undecided('R18.6', f.qualname, lab, 'pattern is not a literal', where=w_)
                    continue
                bad, wit = _rewrites_plain_value(pat)
                if bad is None:
                    ctx.undecided('R18.6', f.qualname, lab, wit, where=w_)
                else:
                    ctx.record('R18.6', f.qualname, lab, not bad, where=w_,
                               detail='' if not bad else 'pattern %r matches %r, which can occur inside an attribute value (d, style, class): the value '
                               'read back differs from the one written' % (pat, wit), sample={'pattern': pat, 'witness': wit})
    if seen < 2:
        raise AnalysisError('R18.6: fewer than 2 serialising functions found (%d)' % seen)
