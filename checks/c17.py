"""C17 - SVG flattening applies shape conversion and nested transforms per the SVG spec.

Decided: each transform kind produces the spec's matrix (all six, optional operands), lists
compose left to right under every legal separator, ancestors compose outermost-first in both
traversals (Document and SaxDocument) on a model element tree, a computed transform is applied
(no discarded results), every converter's d-string parses (through the interpreted parser) to
the element's geometry, converters use only the protocol common to dict and Element, the three
readers register the same seven element kinds with the same converters, point-list lexer accepts
every CSS number.  Not decided: XML parsing, filters, numerics of transform() on arcs."""
import ast
from fractions import Fraction as Fr
from svtstatic import poly, redfa
from svtstatic.cfg import walk_no_nested, enclosing_stmt
from svtstatic.values import ExtRef, PyFunc, Closure, NumTok, StrT, Hole
from .common import *
from . import c01, c02

PROPERTY = 'C17'
LEVEL = 'other'
I = Rat.const(1j)
SVGNS = '{http://www.w3.org/2000/svg}'


def num_attr(name):
    """attribute value: a string consisting of one number whose value is the symbol `name`"""
    return StrT([Hole(Rat.sym(name))])


def sym_float_hook(it, a, k):
    v = a[0]
    if isinstance(v, str) and v.startswith('v') and v[1:].isdigit():
        return Rat.sym(v)
    from svtstatic import builtins_model as bm
    return bm.call_ext(it, 'builtins.float', a, k)


def mat(rows):
    return Arr([[to_rat(x) for x in r] for r in rows])


def ident():
    return mat([[1, 0, 0], [0, 1, 0], [0, 0, 1]])


def run(ctx):
    mdl = ctx.model
    ctx.assume('SVG 1.1 section 7.6 (transform matrices) and section 9 (basic shapes) as transcribed in checks/c17.py')
    ctx.assume('ElementTree / minidom / iterparse are modelled by stub elements offering get/iterfind/attrib/tag (trusted API model)')
    ctx.rule('R17.1', '_parse_transform_substr: matrix / translate(1,2) / scale(1,2) / rotate(1,3) / skewX / skewY give the spec matrix', 9)
    ctx.rule('R17.2', 'parse_transform: lists compose left to right, for blank / comma / newline separators', 4)
    ctx.rule('R17.3', 'ancestor transforms compose outermost first (parent.dot(child)) in Document and SaxDocument traversals', 2)
    ctx.rule('R17.4', 'converters: rect (plain, rounded), circle, ellipse, polyline, polygon, line parse to the spec geometry', 8)
    ctx.rule('R17.5', 'the result of a pure curve-returning function is never discarded', 1)
    ctx.rule('R17.6', 'converters use their element only through .get(key[, default])', 6)
    ctx.rule('R17.7', 'Document.CONVERSIONS, SaxDocument.sax_parse and svg2paths handle the same 7 tags with the same converters', 1)
    ctx.rule('R17.8', 'every CSS/SVG number is accepted by both number groups of COORD_PAIR_TMPLT', 2)
    ctx.rule('R17.9', 'a wrapper that hands one of its defaulted options to a same-package function which has an option of the same name '
             'binds it to that option, not to a different option the wrapper also has (resolved positional / keyword binding)', 14)
    _option_forwarding(ctx, mdl)
    ob = lambda r: Obligation(ctx, r)
    V = [Rat.sym('v%d' % i) for i in range(6)]
    fhook = {'ext_hooks': {'builtins.float': sym_float_hook}}
    fps = mdl.func('parser._parse_transform_substr')
    cs = lambda x: apply_fn('cos', x * PI / 180)
    sn = lambda x: apply_fn('sin', x * PI / 180)
    tn = lambda x: apply_fn('tan', x * PI / 180)
    rot = lambda a: mat([[cs(a), -sn(a), 0], [sn(a), cs(a), 0], [0, 0, 1]])
    tr = lambda x, y: mat([[1, 0, x], [0, 1, y], [0, 0, 1]])
    rows = [
        ('matrix(v0 v1 v2 v3 v4 v5', mat([[V[0], V[2], V[4]], [V[1], V[3], V[5]], [0, 0, 1]])),
        ('translate(v0 v1', tr(V[0], V[1])), ('translate(v0', tr(V[0], 0)),
        ('scale(v0 v1', mat([[V[0], 0, 0], [0, V[1], 0], [0, 0, 1]])), ('scale(v0', mat([[V[0], 0, 0], [0, V[0], 0], [0, 0, 1]])),
        ('rotate(v0', rot(V[0])), ('rotate(v0 v1 v2', tr(V[1], V[2]).dot(rot(V[0])).dot(tr(-V[1], -V[2]))),
        ('skewX(v0', mat([[1, tn(V[0]), 0], [0, 1, 0], [0, 0, 1]])), ('skewY(v0', mat([[1, 0, 0], [tn(V[0]), 1, 0], [0, 0, 1]])),
    ]

    def arr_equal(a, b):
        if not isinstance(a, Arr) or a.shape() != b.shape():
            return False, 'result is not a %s matrix' % (b.shape(),)
        pairs = [('[%d][%d]' % (i, j), a.d[i][j], b.d[i][j]) for i in range(len(b.d)) for j in range(len(b.d[0]))]
        return decide_all_equal(pairs)
    for text, exp in rows:
        for variant in (text, text.replace(' ', ',')):
            if variant != text and ' ' not in text:
                continue
            ob('R17.1').run(fps, '_parse_transform_substr(%r)' % variant,
                            lambda it, variant=variant: it.call(it.closure_of('parser._parse_transform_substr'), [variant], {}),
                            lambda v, exp=exp: arr_equal(v, exp), opts=fhook)

    # ---------------------------------------------------------------- R17.2
    fpt = mdl.func('parser.parse_transform')
    exp_list = tr(V[0], V[1]).dot(rot(V[2])).dot(mat([[V[3], 0, 0], [0, V[3], 0], [0, 0, 1]]))
    for sep in (' ', ',', ' , ', '\n  '):
        text = 'translate(v0,v1)%srotate(v2)%sscale(v3)' % (sep, sep)
        ob('R17.2').run(fpt, 'parse_transform(%r)' % text,
                        lambda it, text=text: it.call(it.closure_of('parser.parse_transform'), [text], {}),
                        lambda v: arr_equal(v, exp_list), opts=fhook)
    # the SVG grammar allows white space between the name and the parenthesis, and inside the parentheses
    for text in ('translate (v0,v1) rotate\t(v2) scale  (v3)', 'translate( v0 , v1 ) rotate( v2 ) scale( v3 )'):
        ob('R17.2').run(fpt, 'parse_transform(%r)' % text,
                        lambda it, text=text: it.call(it.closure_of('parser.parse_transform'), [text], {}),
                        lambda v: arr_equal(v, exp_list), opts=fhook)
    ob('R17.2').run(fpt, 'parse_transform(None / empty) is the identity',
                    lambda it: (it.call(it.closure_of('parser.parse_transform'), [None], {}), it.call(it.closure_of('parser.parse_transform'), [''], {})),
                    lambda v: (arr_equal(v[0], ident())[0] is True and arr_equal(v[1], ident())[0] is True, 'not the identity'))

    # ---------------------------------------------------------------- R17.3
    _traversals(ctx, mdl)

    # ---------------------------------------------------------------- R17.4
    _converters(ctx, mdl)

    # ---------------------------------------------------------------- R17.5 discarded results
    PURE = {'transform', 'translate', 'rotate', 'scale', 'reversed', 'cropped', 'translated', 'rotated', 'scaled'}
    hits = []
    n_stmts = 0
    for f in mdl.all_functions():
        for n in walk_no_nested(f.node):
            if isinstance(n, ast.Expr) and isinstance(n.value, ast.Call):
                n_stmts += 1
                nm = call_name(n.value)
                if nm in PURE and not (isinstance(n.value.func, ast.Attribute) and isinstance(n.value.func.value, ast.Name)
                                       and n.value.func.value.id in ('np', 'numpy', 'math')):
                    hits.append('%s L%d: %s' % (f.qualname, n.lineno, norm(n)[:60]))
    ctx.record('R17.5', 'package', 'discarded results of pure curve functions', not hits, detail='; '.join(hits), where='svgpathtools/*',
               sample={'expression_statements_scanned': n_stmts})
    ctrl = ast.parse("def f(p, m):\n    transform(p, m)\n    return p\n")
    if not any(isinstance(n, ast.Expr) and isinstance(n.value, ast.Call) and call_name(n.value) in PURE for n in ast.walk(ctrl)):
        raise Exception('R17.5 positive control did not fire')

    # ---------------------------------------------------------------- R17.6 protocol
    def element_uses(f, param, seen):
        """uses of the element parameter outside the dict/Element common protocol; handing the element on to another function of the
        package is followed into that function's corresponding parameter"""
        bad = []
        for n in ast.walk(f.node):
            if isinstance(n, ast.Name) and n.id == param and isinstance(n.ctx, ast.Load):
                par = getattr(n, '_parent', None)
                ok = (isinstance(par, ast.Attribute) and par.attr == 'get' and isinstance(getattr(par, '_parent', None), ast.Call)) or \
                     (isinstance(par, ast.Call) and call_name(par) in ('isinstance', 'polyline2pathd')) or \
                     (isinstance(par, ast.Assign))
                if isinstance(par, ast.Assign) and isinstance(par.value, ast.Name):
                    ok = True    # `points = polyline` (string form handled by isinstance)
                if not ok and isinstance(par, ast.Call) and isinstance(par.func, ast.Name) and any(a is n for a in par.args):
                    r_ = mdl.resolve_global(f.module, par.func.id)
                    if r_ and r_[0] == 'func' and (r_[1].qualname, par.func.id) not in seen:
                        callee = r_[1]
                        idx = [i for i, a in enumerate(par.args) if a is n][0]
                        ps = callee.params()
                        if idx < len(ps):
                            sub = element_uses(callee, ps[idx], seen | {(callee.qualname, par.func.id)})
                            ok = not sub
                            if sub:
                                bad += ['%s -> %s' % (callee.name, b) for b in sub]
                                continue
                if not ok:
                    bad.append('L%d %s' % (n.lineno, norm(par)[:50]))
        return bad
    for conv in ('path2pathd', 'ellipse2pathd', 'polyline2pathd', 'polygon2pathd', 'rect2pathd', 'line2pathd'):
        f = mdl.func('svg_to_paths.' + conv)
        param = f.params()[0]
        bad = element_uses(f, param, frozenset())
        ctx.record('R17.6', f.qualname, 'element used only via .get()', not bad,
                   detail='' if not bad else 'uses outside the dict/Element common protocol: ' + ', '.join(bad), where=where(f))

    # ---------------------------------------------------------------- R17.7 registries (semantic: which converter runs for which tag)
    seven = {'path': 'path2pathd', 'circle': 'ellipse2pathd', 'ellipse': 'ellipse2pathd', 'line': 'line2pathd',
             'polyline': 'polyline2pathd', 'polygon': 'polygon2pathd', 'rect': 'rect2pathd'}

    def conv_hooks(it):
        for c in set(seven.values()):
            it.call_hooks['svg_to_paths.' + c] = (lambda c: (lambda it2, a, k: 'D:' + c))(c)

    def th_reg(it):
        out = {'doc': {}, 'sax': {}, 's2p': set()}
        conv_hooks(it)
        it.call_hooks['parser.parse_transform'] = lambda it2, a, k: ident()
        it.call_hooks['parser.parse_path'] = lambda it2, a, k: Opaque('parsed:%s' % (a[0],))
        it.call_hooks['path.transform'] = lambda it2, a, k: a[0]
        for tag in list(seven) + ['text']:
            e = Elem(tag, {'id': 'e'})
            root = Elem('svg', {}, [e])
            cache = {}
            res = it.call(it.closure_of('document.flattened_paths'), [_wrap(it, root, cache)], {})
            out['doc'][tag] = [p.what for p in res]
            events = [('start', _wrap(it, root, cache)), ('start', _wrap(it, e, cache)), ('end', _wrap(it, e, cache)), ('end', _wrap(it, root, cache))]
            it.ext_hooks['xml.etree.ElementTree.iterparse'] = lambda it2, a, k, events=events: list(events)
            doc = it.new_obj('svg_io_sax.SaxDocument')
            it.call_method(doc, 'sax_parse', 'f.svg')
            out['sax'][tag] = [t.get('d') for t in doc.attrs['tree']]
        asked = []
        stubdoc = Opaque('minidom')
        stubdoc.attrs['getElementsByTagName'] = PyFunc(lambda it2, a, k: asked.append(a[0]) or [], 'gebtn')
        stubdoc.attrs['unlink'] = PyFunc(lambda it2, a, k: None, 'unlink')
        it.ext_hooks['xml.dom.minidom.parse'] = lambda it2, a, k: stubdoc
        it.ext_hooks['os.path.abspath'] = lambda it2, a, k: a[0]
        it.call(it.closure_of('svg_to_paths.svg2paths'), ['f.svg'], {})
        out['s2p'] = set(asked) - {'svg'}
        return out

    def judge_reg(v):
        probs = []
        for tag, conv in seven.items():
            if v['doc'].get(tag) != ['parsed:D:' + conv]:
                probs.append('Document: <%s> -> %s (expected %s)' % (tag, v['doc'].get(tag), conv))
            if v['sax'].get(tag) != ['D:' + conv]:
                probs.append('SaxDocument: <%s> -> %s (expected %s)' % (tag, v['sax'].get(tag), conv))
        if v['doc'].get('text') or v['sax'].get('text'):
            probs.append('an unsupported element is converted')
        if v['s2p'] != set(seven):
            probs.append('svg2paths harvests %s' % sorted(v['s2p']))
        return not probs, '; '.join(probs[:4])
    ob('R17.7').run(mdl.func('document.flattened_paths'), 'the three readers convert the same 7 tags with the same converters', th_reg, judge_reg)

    # ---------------------------------------------------------------- R17.8 lexer
    sm = mdl.module('svg_to_paths')
    pat = redfa.pattern_of(sm, 'COORD_PAIR_TMPLT')
    css = r'[+-]?(?:[0-9]*\.[0-9]+|[0-9]+\.?)(?:[eE][+-]?[0-9]+)?'      # SVG 1.1 number: digits, optional fraction (a bare trailing dot is allowed), optional exponent
    dcss = redfa.compile_dfa(css)
    for g in (1, 2):
        d = redfa.compile_dfa(redfa.group_items(pat, g))
        inc, w = redfa.included(dcss, d)
        ctx.record('R17.8', 'svg_to_paths', 'L(CSS number) subset of L(group %d of COORD_PAIR_TMPLT)' % g, inc,
                   detail='' if inc else 'the number %r is not accepted' % w, where='svgpathtools/svg_to_paths.py')


# ---------------------------------------------------------------------------------------------------
def _defaulted(fn):
    a = fn.node.args
    pos = a.posonlyargs + a.args
    names = [x.arg for x in pos[len(pos) - len(a.defaults):]] if a.defaults else []
    names += [x.arg for x, d in zip(a.kwonlyargs, a.kw_defaults) if d is not None]
    return set(names)


def _option_forwarding(ctx, mdl):
    """R17.9: every call W -> F between package functions is resolved; for each bare-name argument that is a defaulted option p
    of W (never re-assigned in W) the parameter q of F it binds to is computed.  p bound to q != p while F has an option p and
    W has an option q is a swapped hand-over: the wrapper then answers for the wrong option (e.g. polylines kept when polygons
    were asked for).  Calls with *args / **kwargs are skipped."""
    for w in sorted(mdl.all_functions(), key=lambda f: f.qualname):
        if w.outer is not None:
            continue
        wopts = _defaulted(w)
        if len(wopts) < 2:
            continue
        stored = {n.id for n in ast.walk(w.node) if isinstance(n, ast.Name) and isinstance(n.ctx, (ast.Store, ast.Del))}
        for call in ast.walk(w.node):
            if not isinstance(call, ast.Call) or not isinstance(call.func, ast.Name):
                continue
            if any(isinstance(x, ast.Starred) for x in call.args) or any(k.arg is None for k in call.keywords):
                continue
            r = mdl.resolve_global(w.module, call.func.id)
            if not r or r[0] != 'func' or r[1] is w:
                continue
            f = r[1]
            fopts = _defaulted(f)
            fpos = f.params()
            bind = [(fpos[i], x) for i, x in enumerate(call.args) if i < len(fpos)] + [(k.arg, k.value) for k in call.keywords]
            for q, x in bind:
                if not (isinstance(x, ast.Name) and x.id in wopts and x.id not in stored and x.id in fopts):
                    continue
                p = x.id
                bad = q != p and q in wopts and q in fopts
                ctx.record('R17.9', w.qualname, '%s -> %s(%s=)' % (p, f.name, p), not bad,
                           detail='' if not bad else "option %r is handed to %s's option %r (both functions have both options)" % (p, f.name, q),
                           where='%s:%d' % (w.file, call.lineno))


def _sym_matrix(tag):
    return Arr([[Rat.sym('%s%d%d' % (tag, i, j)) for j in range(3)] for i in range(3)])


class Elem(object):
    """stub XML element"""

    def __init__(self, tag, attrib=None, children=()):
        self.tag, self.attrib, self.children = tag, dict(attrib or {}), list(children)


def _wrap(it, e, cache):
    if id(e) in cache:
        return cache[id(e)]
    o = Opaque('Element<%s>' % e.tag)
    cache[id(e)] = o
    o.attrs['tag'] = SVGNS + e.tag
    o.attrs['attrib'] = e.attrib
    o.attrs['get'] = PyFunc(lambda it2, a, k, e=e: e.attrib.get(a[0], a[1] if len(a) > 1 else None), 'get')

    def iterfind(it2, a, k, e=e):
        want = a[0]
        local = want.split(':')[-1]
        if want.startswith('.//'):        # ElementPath: all descendants
            return [_wrap(it2, c, cache) for c in _all(e)[1:] if c.tag == local]
        return [_wrap(it2, c, cache) for c in e.children if c.tag == local]
    o.attrs['iterfind'] = PyFunc(iterfind, 'iterfind')
    o.attrs['iter'] = PyFunc(lambda it2, a, k, e=e: [_wrap(it2, x, cache) for x in _all(e)], 'iter')
    o.attrs['__elem__'] = e
    return o


def _all(e):
    out = [e]
    for c in e.children:
        out += _all(c)
    return out


def own_object_per_element(ctx, mdl, rule):
    """a document whose elements carry NO transform and repeat the same path data: every element still yields its own path object,
    tagged with that element, in document order.  parse_path hands out a fresh object per call and transform() returns its
    argument for the identity matrix -- exactly what the real functions do -- so a traversal that shares parsed geometry between
    elements with equal data overwrites the tags of the earlier ones."""
    a0 = Elem('path', {'d': 'M0,0 L1,1', 'id': 'a0', 'stroke': 'red'})
    a1 = Elem('path', {'d': 'M5,5 L6,6', 'id': 'a1'})
    a2 = Elem('path', {'d': 'M0,0 L1,1', 'id': 'a2', 'stroke': 'blue'})
    a3 = Elem('path', {'d': 'M0,0 L1,1', 'id': 'a3'})
    g = Elem('g', {}, [a2, a3])
    root = Elem('svg', {}, [a0, a1, g])
    DocC = mdl.cls('document.Document')
    routes = [('flattened_paths', mdl.func('document.flattened_paths'))] + [('Document.' + m, DocC.methods[m]) for m in ('paths',) if m in DocC.methods]
    for label, fi in routes:
        def th(it, label=label):
            cache = {}
            made = []

            def pp(it2, a, k):
                o = Opaque('parsed:%s' % (a[0],))
                made.append(o)
                return o
            it.call_hooks['parser.parse_path'] = pp

            def tf(it2, a, k):
                m = a[1]
                if isinstance(m, Arr) and m.equals(ident()):
                    return a[0]
                o = Opaque('transformed')
                made.append(o)
                return o
            it.call_hooks['path.transform'] = tf
            wroot = _wrap(it, root, cache)
            if label == 'flattened_paths':
                res = it.call(it.closure_of('document.flattened_paths'), [wroot], {})
            else:
                doc = it.new_obj('document.Document')
                tree = Opaque('ElementTree')
                tree.attrs['getroot'] = PyFunc(lambda it2, a, k: wroot, 'getroot')
                doc.attrs['tree'] = tree
                doc.attrs['root'] = wroot
                res = it.call_method(doc, label.split('.')[1])
            res = list(res)
            return [(id(p), p.attrs.get('element').attrs['__elem__'].attrib.get('id') if isinstance(p.attrs.get('element'), Opaque) else None,
                     getattr(p, 'what', None)) for p in res]

        def judge(v):
            ids = [i for i, _, _ in v]
            tags = [t for _, t, _ in v]
            probs = []
            if len(set(ids)) != len(ids):
                probs.append('one path object is returned for several elements')
            if sorted(t or '' for t in tags) != ['a0', 'a1', 'a2', 'a3']:
                probs.append('the returned paths are tagged with elements %s, the document holds a0, a1, a2, a3' % (tags,))
            want = {'a0': 'parsed:M0,0 L1,1', 'a1': 'parsed:M5,5 L6,6', 'a2': 'parsed:M0,0 L1,1', 'a3': 'parsed:M0,0 L1,1'}
            for _, t, w in v:
                if t in want and w != want[t]:
                    probs.append('%s carries the geometry %s' % (t, w))
            return not probs, '; '.join(probs)
        Obligation(ctx, rule).run(fi, '%s: elements with equal path data and no transform keep their own path objects' % label, th, judge,
                                  opts={'ext_hooks': {'warnings.warn': lambda it, a, k: None}})


def _traversals(ctx, mdl):
    own_object_per_element(ctx, mdl, 'R17.3')
    # tree:  svg[TA] -> g[TB] -> path#p1[TC]           expected p1: A.B.C
    #                        -> g[TD] -> line#l1         expected l1: A.B.D
    #              -> rect#r1[TE]                        expected r1: A.E
    # siblings of the same kind with and without an own transform, in both orders (an own transform must not leak to a sibling):
    #   g[TB] also holds path#p0 (before p1) and path#p2 (after p1), neither with a transform; g[TD] holds line#l0[TF] before l1
    p0 = Elem('path', {'d': 'D0', 'id': 'p0'})
    p1 = Elem('path', {'d': 'D1', 'transform': 'TC', 'id': 'p1'})
    p2 = Elem('path', {'d': 'D2', 'id': 'p2'})
    l0 = Elem('line', {'transform': 'TF', 'id': 'l0'})
    l1 = Elem('line', {'id': 'l1'})
    r1 = Elem('rect', {'transform': 'TE', 'id': 'r1'})
    q1 = Elem('polygon', {'id': 'q1'})
    g3 = Elem('g', {'transform': 'TG'}, [q1])                 # a third level of groups: svg -> g[TB] -> g[TD] -> g[TG] -> polygon#q1
    g2 = Elem('g', {'transform': 'TD'}, [l0, l1, g3])
    g1 = Elem('g', {'transform': 'TB'}, [p0, p1, p2, g2])
    root = Elem('svg', {'transform': 'TA'}, [g1, r1])
    # the transform attributes are REAL matrix(...) strings with symbolic numbers, read by the interpreted transform parser (no hook on
    # parse_transform: the traversals may reach the parser through any helper)
    TAGS = ('TA', 'TB', 'TC', 'TD', 'TE', 'TF', 'TG')
    M = {}
    for ti, t in enumerate(TAGS):
        names = ['v%d' % (100 + 10 * ti + j) for j in range(6)]
        v = [Rat.sym(nm) for nm in names]
        M[t] = mat([[v[0], v[2], v[4]], [v[1], v[3], v[5]], [0, 0, 1]])
        for e_ in _all(root):
            if e_.attrib.get('transform') == t:
                e_.attrib['transform'] = 'matrix(%s)' % ' '.join(names)
    expect = {'p1': M['TA'].dot(M['TB']).dot(M['TC']), 'l1': M['TA'].dot(M['TB']).dot(M['TD']), 'r1': M['TA'].dot(M['TE']),
              'p0': M['TA'].dot(M['TB']), 'p2': M['TA'].dot(M['TB']), 'l0': M['TA'].dot(M['TB']).dot(M['TD']).dot(M['TF']),
              'q1': M['TA'].dot(M['TB']).dot(M['TD']).dot(M['TG'])}
    fdoc = mdl.func('document.flattened_paths')

    def th_doc(it):
        cache = {}
        applied = []
        it.ext_hooks['builtins.float'] = sym_float_hook
        it.call_hooks['parser.parse_path'] = lambda it2, a, k: Opaque('parsed')
        for c in ('path2pathd', 'ellipse2pathd', 'line2pathd', 'polyline2pathd', 'polygon2pathd', 'rect2pathd'):
            it.call_hooks['svg_to_paths.' + c] = lambda it2, a, k: 'D'

        def tf(it2, a, k):
            o = Opaque('transformed')
            applied.append((a[1], o))
            return o
        it.call_hooks['path.transform'] = tf
        res = it.call(it.closure_of('document.flattened_paths'), [_wrap(it, root, cache)], {})
        out = {}
        for p in res:
            el = p.attrs.get('element')
            m = [t for t, o in applied if o is p]
            out[el.attrs['__elem__'].attrib.get('id')] = (m[0] if m else None, p.attrs.get('transform'))
        return out

    def judge(v):
        probs = []
        for k_, exp in expect.items():
            if k_ not in v:
                probs.append('element %s is not returned' % k_)
                continue
            m, stored = v[k_]
            if m is None:
                probs.append('%s: the path returned is not the result of transform()' % k_)
                continue
            if not (isinstance(m, Arr) and m.equals(exp)):
                alt = None
                probs.append('%s: the matrix applied is not (outermost ancestor ... own transform) in this order' % k_)
            if stored is not None and isinstance(stored, Arr) and not stored.equals(exp):
                probs.append('%s: path.transform records another matrix' % k_)
        return not probs, '; '.join(probs)
    Obligation(ctx, 'R17.3').run(fdoc, 'Document traversal on a 3-level tree', th_doc, judge)

    # the same tree queried through flattened_paths_from_group: exactly the leaves below the requested group (all levels when
    # recursive, its own leaves otherwise), each in the ROOT frame
    fgrp = mdl.func('document.flattened_paths_from_group')
    for qname, q, rec, want in (('g[TB]', g1, True, {'p0', 'p1', 'p2', 'l0', 'l1', 'q1'}), ('g[TB]', g1, False, {'p0', 'p1', 'p2'}),
                                ('g[TD]', g2, True, {'l0', 'l1', 'q1'}), ('g[TG]', g3, True, {'q1'}), ('the root', root, True, set(expect))):
        def th_grp(it, q=q, rec=rec):
            cache = {}
            applied = []
            it.ext_hooks['builtins.float'] = sym_float_hook
            it.call_hooks['parser.parse_path'] = lambda it2, a, k: Opaque('parsed')
            for c in ('path2pathd', 'ellipse2pathd', 'line2pathd', 'polyline2pathd', 'polygon2pathd', 'rect2pathd'):
                it.call_hooks['svg_to_paths.' + c] = lambda it2, a, k: 'D'

            def tf(it2, a, k):
                o = Opaque('transformed')
                applied.append((a[1], o))
                return o
            it.call_hooks['path.transform'] = tf
            res = it.call(it.closure_of('document.flattened_paths_from_group'), [_wrap(it, q, cache), _wrap(it, root, cache)], {'recursive': rec})
            out = {}
            for p in res:
                el = p.attrs.get('element')
                m = [t for t, o in applied if o is p]
                out[el.attrs['__elem__'].attrib.get('id')] = m[0] if m else None
            return out

        def judge_grp(v, want=want):
            probs = []
            if set(v) != want:
                probs.append('returns %s, expected %s' % (sorted(v), sorted(want)))
            for k_ in set(v) & want:
                if not (isinstance(v[k_], Arr) and v[k_].equals(expect[k_])):
                    probs.append('%s is not expressed in the root frame' % k_)
            return not probs, '; '.join(probs)
        Obligation(ctx, 'R17.3').run(fgrp, 'flattened_paths_from_group(%s, recursive=%s)' % (qname, rec), th_grp, judge_grp,
                                     opts={'ext_hooks': {'warnings.warn': lambda it, a, k: None}})

    # ... and through the public methods of Document (paths / paths_from_group), which may take their own route to the answer
    DocC = mdl.cls('document.Document')
    for meth, qname, q, rec, want in (('paths_from_group', 'g[TB]', g1, False, {'p0', 'p1', 'p2'}), ('paths_from_group', 'g[TD]', g2, False, {'l0', 'l1'}),
                                      ('paths_from_group', 'g[TG]', g3, False, {'q1'}), ('paths_from_group', 'g[TD]', g2, True, {'l0', 'l1', 'q1'}),
                                      ('paths', 'the document', None, None, set(expect))):
        if meth not in DocC.methods:
            continue

        def th_docm(it, meth=meth, q=q, rec=rec):
            cache = {}
            applied = []
            it.ext_hooks['builtins.float'] = sym_float_hook
            it.call_hooks['parser.parse_path'] = lambda it2, a, k: Opaque('parsed')
            for c in ('path2pathd', 'ellipse2pathd', 'line2pathd', 'polyline2pathd', 'polygon2pathd', 'rect2pathd'):
                it.call_hooks['svg_to_paths.' + c] = lambda it2, a, k: 'D'

            def tf(it2, a, k):
                o = Opaque('transformed')
                applied.append((a[1], o))
                return o
            it.call_hooks['path.transform'] = tf
            doc = it.new_obj('document.Document')
            tree = Opaque('ElementTree')
            wroot = _wrap(it, root, cache)
            for e_ in _all(root):                      # an element iterates over its children, like xml.etree's
                w = _wrap(it, e_, cache)
                w.attrs['__iter__'] = PyFunc(lambda it2, a, k, e_=e_: [_wrap(it2, c, cache) for c in e_.children], '__iter__')
            tree.attrs['getroot'] = PyFunc(lambda it2, a, k: wroot, 'getroot')
            doc.attrs['tree'] = tree
            doc.attrs['root'] = wroot
            res = it.call_method(doc, meth, _wrap(it, q, cache), **{'recursive': rec}) if q is not None else it.call_method(doc, meth)
            out = {}
            for p in res:
                el = p.attrs.get('element')
                m = [t for t, o in applied if o is p]
                out[el.attrs['__elem__'].attrib.get('id')] = m[0] if m else None
            return out

        def judge_docm(v, want=want):
            probs = []
            if set(v) != want:
                probs.append('returns %s, expected %s' % (sorted(v), sorted(want)))
            for k_ in sorted(set(v) & want):
                if not (isinstance(v[k_], Arr) and v[k_].equals(expect[k_])):
                    probs.append('%s is not expressed in the root frame (outermost ancestor first)' % k_)
            return not probs, '; '.join(probs)
        Obligation(ctx, 'R17.3').run(DocC.methods[meth], 'Document.%s(%s%s)' % (meth, qname, '' if rec is None else ', recursive=%s' % rec), th_docm, judge_docm,
                                     opts={'ext_hooks': {'warnings.warn': lambda it, a, k: None}})

    fsax = mdl.func('svg_io_sax.SaxDocument.sax_parse')

    def th_sax(it):
        cache = {}
        events = []

        def walk(e):
            events.append(('start', _wrap(it, e, cache)))
            for c in e.children:
                walk(c)
            events.append(('end', _wrap(it, e, cache)))
        walk(root)
        it.ext_hooks['xml.etree.ElementTree.iterparse'] = lambda it2, a, k: list(events)
        it.ext_hooks['builtins.float'] = sym_float_hook
        for c in ('path2pathd', 'ellipse2pathd', 'line2pathd', 'polyline2pathd', 'polygon2pathd', 'rect2pathd'):
            it.call_hooks['svg_to_paths.' + c] = lambda it2, a, k: 'D'
        doc = it.new_obj('svg_io_sax.SaxDocument')
        it.call_method(doc, 'sax_parse', 'file.svg')
        tree = doc.attrs['tree']
        # flatten: the transform must be applied and its result kept
        applied = []
        it.call_hooks['parser.parse_path'] = lambda it2, a, k: Opaque('parsed')

        def tf(it2, a, k):
            o = Opaque('transformed')
            applied.append((a[1], o))
            return o
        it.call_hooks['path.transform'] = tf
        flat = it.call_method(doc, 'flatten_all_paths')
        return [(t.get('id'), t.get('matrix')) for t in tree], flat, applied

    def judge_sax(v):
        tree, flat, applied = v
        probs = []
        got = dict(tree)
        for k_, exp in expect.items():
            m = got.get(k_)
            if not (isinstance(m, Arr) and m.equals(exp)):
                probs.append('%s: accumulated matrix is not (outermost ancestor ... own transform) in this order' % k_)
        outs = [o for _, o in applied]
        if len(flat) != len(tree) or not all(any(f is o for o in outs) for f in flat):
            probs.append('flatten_all_paths does not return the transformed paths')
        else:
            # the i-th path returned is the i-th element's geometry under THAT element's accumulated matrix (elements may repeat
            # path data and transform text while their ancestors differ)
            for i, ((id_, _), f) in enumerate(zip(tree, flat)):
                m = [mm for mm, o in applied if o is f]
                exp = expect.get(id_)
                if exp is not None and not (m and isinstance(m[0], Arr) and m[0].equals(exp)):
                    probs.append('flatten_all_paths: element %s is returned under another element\'s matrix' % id_)
                    break
            if len({id(f) for f in flat}) != len(flat):
                probs.append('flatten_all_paths returns one path object for several elements')
        return not probs, '; '.join(probs)
    Obligation(ctx, 'R17.3').run(fsax, 'SaxDocument traversal on the same tree', th_sax, judge_sax)


def _parse_d(it, d):
    toks = c01.tokenise(d)
    info = it.model.cls('path.Path')
    q = Obj(info)
    q.attrs['_segments'] = []
    it.call_hooks['path.Path._tokenize_path'] = lambda it2, a, k: Iter(list(toks))
    it.call_hooks['path.Arc'] = ctor_record_hook(it.model, 'path.Arc')
    f = info.method('_parse_path')
    it.call_closure(Closure(f, f.node, None, f.module, q, info), ['<d>'], {})
    return [c02.seg_tuple(s) for s in q.attrs['_segments']]


def _cmp_segments(got, exp):
    if [g[0] for g in got] != [e[0] for e in exp]:
        return False, 'segments %s, expected %s' % ([g[0] for g in got], [e[0] for e in exp])
    pairs = []
    for i, (g, e) in enumerate(zip(got, exp)):
        for j, (a, b) in enumerate(zip(g[1:], e[1:])):
            pairs.append(('segment %d field %d' % (i, j), a, b))
    return decide_all_equal(pairs)


def _converters(ctx, mdl):
    ob = lambda r: Obligation(ctx, r)
    X, Y, W, H, RX, RY = [Rat.sym(n) for n in ('x', 'y', 'w', 'h', 'rx', 'ry')]
    poly.POSITIVE.update({'w', 'h', 'rx', 'ry', 'r'})
    pt = lambda a, b: a + I * b
    line = lambda a, b: ('Line', a, b)
    # ---- rect, plain
    frect = mdl.func('svg_to_paths.rect2pathd')
    rect_attrs = {'x': num_attr('x'), 'y': num_attr('y'), 'width': num_attr('w'), 'height': num_attr('h')}
    c = [pt(X, Y), pt(X + W, Y), pt(X + W, Y + H), pt(X, Y + H)]
    ob('R17.4').run(frect, 'rect (plain): four sides from (x,y)',
                    lambda it: _parse_d(it, it.call(it.closure_of('svg_to_paths.rect2pathd'), [dict(rect_attrs)], {})),
                    lambda v: _cmp_segments(v, [line(c[0], c[1]), line(c[1], c[2]), line(c[2], c[3]), line(c[3], c[0])]))
    # ---- rect, rounded
    arc = lambda s, e: ('Arc', s, RX + I * RY, Rat.const(0), Rat.const(0), Rat.const(1), e)
    ra = dict(rect_attrs, rx=num_attr('rx'), ry=num_attr('ry'))
    exp_r = [line(pt(X + RX, Y), pt(X + W - RX, Y)), arc(pt(X + W - RX, Y), pt(X + W, Y + RY)),
             line(pt(X + W, Y + RY), pt(X + W, Y + H - RY)), arc(pt(X + W, Y + H - RY), pt(X + W - RX, Y + H)),
             line(pt(X + W - RX, Y + H), pt(X + RX, Y + H)), arc(pt(X + RX, Y + H), pt(X, Y + H - RY)),
             line(pt(X, Y + H - RY), pt(X, Y + RY)), arc(pt(X, Y + RY), pt(X + RX, Y))]
    ob('R17.4').run(frect, 'rect (rounded): SVG 9.2 outline with four elliptical corners',
                    lambda it: _parse_d(it, it.call(it.closure_of('svg_to_paths.rect2pathd'), [dict(ra)], {})),
                    lambda v: _cmp_segments(v, exp_r))
    # only rx given: ry defaults to rx
    ra1 = dict(rect_attrs, rx=num_attr('rx'))
    arc1 = lambda s, e: ('Arc', s, RX + I * RX, Rat.const(0), Rat.const(0), Rat.const(1), e)
    exp_r1 = [line(pt(X + RX, Y), pt(X + W - RX, Y)), arc1(pt(X + W - RX, Y), pt(X + W, Y + RX)),
              line(pt(X + W, Y + RX), pt(X + W, Y + H - RX)), arc1(pt(X + W, Y + H - RX), pt(X + W - RX, Y + H)),
              line(pt(X + W - RX, Y + H), pt(X + RX, Y + H)), arc1(pt(X + RX, Y + H), pt(X, Y + H - RX)),
              line(pt(X, Y + H - RX), pt(X, Y + RX)), arc1(pt(X, Y + RX), pt(X + RX, Y))]
    ob('R17.4').run(frect, 'rect (only rx): ry defaults to rx',
                    lambda it: _parse_d(it, it.call(it.closure_of('svg_to_paths.rect2pathd'), [dict(ra1)], {})),
                    lambda v: _cmp_segments(v, exp_r1))
    # only ry given: rx defaults to ry (SVG 9.2)
    ra2 = dict(rect_attrs, ry=num_attr('ry'))
    arc2 = lambda s, e: ('Arc', s, RY + I * RY, Rat.const(0), Rat.const(0), Rat.const(1), e)
    exp_r2 = [line(pt(X + RY, Y), pt(X + W - RY, Y)), arc2(pt(X + W - RY, Y), pt(X + W, Y + RY)),
              line(pt(X + W, Y + RY), pt(X + W, Y + H - RY)), arc2(pt(X + W, Y + H - RY), pt(X + W - RY, Y + H)),
              line(pt(X + W - RY, Y + H), pt(X + RY, Y + H)), arc2(pt(X + RY, Y + H), pt(X, Y + H - RY)),
              line(pt(X, Y + H - RY), pt(X, Y + RY)), arc2(pt(X, Y + RY), pt(X + RY, Y))]
    ob('R17.4').run(frect, 'rect (only ry): rx defaults to ry',
                    lambda it: _parse_d(it, it.call(it.closure_of('svg_to_paths.rect2pathd'), [dict(ra2)], {})),
                    lambda v: _cmp_segments(v, exp_r2))
    # ---- circle / ellipse
    fell = mdl.func('svg_to_paths.ellipse2pathd')
    CX, CY, R = Rat.sym('cx'), Rat.sym('cy'), Rat.sym('r')

    def judge_ell(v, rx, ry):
        if [g[0] for g in v] != ['Arc', 'Arc']:
            return False, 'segments %s, expected two arcs' % [g[0] for g in v]
        a, b = v
        left, right = pt(CX - rx, CY), pt(CX + rx, CY)
        ok, d = decide_all_equal([('arc 1 start', a[1], left), ('arc 1 end', a[6], right), ('arc 2 start', b[1], right), ('arc 2 end', b[6], left),
                                  ('arc 1 radius', a[2], rx + I * ry), ('arc 2 radius', b[2], rx + I * ry), ('arc 1 rotation', a[3], 0),
                                  ('arc 2 rotation', b[3], 0), ('same sweep (two different halves)', a[5], b[5])])
        return ok, d
    ob('R17.4').run(fell, 'circle: two half circles about (cx,cy) with radius r',
                    lambda it: _parse_d(it, it.call(it.closure_of('svg_to_paths.ellipse2pathd'),
                                                     [{'cx': num_attr('cx'), 'cy': num_attr('cy'), 'r': num_attr('r')}], {})),
                    lambda v: judge_ell(v, R, R))
    ob('R17.4').run(fell, 'ellipse: two half ellipses about (cx,cy) with radii rx, ry',
                    lambda it: _parse_d(it, it.call(it.closure_of('svg_to_paths.ellipse2pathd'),
                                                     [{'cx': num_attr('cx'), 'cy': num_attr('cy'), 'rx': num_attr('rx'), 'ry': num_attr('ry')}], {})),
                    lambda v: judge_ell(v, RX, RY))
    # ---- polyline / polygon: three symbolic points through a stubbed point-list lexer
    pts = [(NumTok(Rat.sym('px%d' % i)), NumTok(Rat.sym('py%d' % i))) for i in range(3)]
    PP = [pt(Rat.sym('px%d' % i), Rat.sym('py%d' % i)) for i in range(3)]
    rx_stub = Opaque('regex')
    rx_stub.attrs['findall'] = PyFunc(lambda it, a, k: [tuple(p) for p in pts], 'findall')
    popts = {'globals': {('svg_to_paths', 'COORD_PAIR_TMPLT'): rx_stub}}
    fpl = mdl.func('svg_to_paths.polyline2pathd')
    ob('R17.4').run(fpl, 'polyline (3 distinct points): open, 2 lines',
                    lambda it: _parse_d(it, it.call(it.closure_of('svg_to_paths.polyline2pathd'), [{'points': 'P'}], {})),
                    lambda v: _cmp_segments(v, [line(PP[0], PP[1]), line(PP[1], PP[2])]), opts=popts)
    fpg = mdl.func('svg_to_paths.polygon2pathd')
    ob('R17.4').run(fpg, 'polygon (3 distinct points): closed, 3 lines',
                    lambda it: _parse_d(it, it.call(it.closure_of('svg_to_paths.polygon2pathd'), [{'points': 'P'}], {})),
                    lambda v: _cmp_segments(v, [line(PP[0], PP[1]), line(PP[1], PP[2]), line(PP[2], PP[0])]), opts=popts)
    # ---- line
    fln = mdl.func('svg_to_paths.line2pathd')
    ob('R17.4').run(fln, 'line: from (x1,y1) to (x2,y2)',
                    lambda it: _parse_d(it, it.call(it.closure_of('svg_to_paths.line2pathd'),
                                                     [{k: num_attr(k) for k in ('x1', 'y1', 'x2', 'y2')}], {})),
                    lambda v: _cmp_segments(v, [line(pt(Rat.sym('x1'), Rat.sym('y1')), pt(Rat.sym('x2'), Rat.sym('y2')))]))
