"""C09 - reversed/split/cropped trace the same curve under the documented parameter map.

Decided: the identities for Line/Quadratic/Cubic (for all control points and parameters), the
structure of crop_bezier, the Arc field tables (reversed/cropped/split), Path.reversed, and that
Path never looks a segment up by value when its index is known.
Not decided: the numeric relocation of t1 inside crop_bezier (radialrange), Path.cropped's
piecewise logic beyond the index rule, lengths."""
import ast
from svtstatic.cfg import walk_no_nested, enclosing_stmt
from svtstatic.interp import _canon_diff
from .common import *

PROPERTY = 'C09'
LEVEL = 'other'
BEZ = [('Line', 2), ('QuadraticBezier', 3), ('CubicBezier', 4)]
S = Rat.sym('s')
T0 = Rat.sym('t0')
T1 = Rat.sym('t1')


def run(ctx):
    mdl = ctx.model
    ctx.assume('ring semantics of arithmetic; Arc geometry summarised by symbols theta, delta, center (C04 decides their meaning)')
    ctx.rule('R09.1', 'reversed().point(t) == point(1-t); split(s) pieces are point(u*s) and point(s+u(1-s)); '
                      'cropped(0,s)/(s,1) follow the parameter map (Bezier classes, all control points)', 9)
    ctx.rule('R09.5', 'crop_bezier: general case = trim [t0,1] then split at the relocated parameter of point(t1) on the trimmed curve', 2)
    ctx.rule('R09.3', 'Arc.reversed/cropped/split field tables (endpoints, flags, large-arc rule in degrees)', 6)
    ctx.rule('R09.4', 'Path.reversed reverses each segment and the order', 1)
    ctx.rule('R09.7', 'Path.cropped on a closed 3-segment path: for every feasible (segment of T0, segment of T1, order of T0/T1) the '
                      'result is exactly [seg_i0(t0..1), whole segments in cyclic order, seg_i1(0..t1)] (interior parameters)', 9)
    ctx.rule('R09.6', 'Path methods do not look up by value (self.index / t2T(segment)) a segment whose index is known', 1)
    ob = lambda r: Obligation(ctx, r)

    for cname, n in BEZ:
        P = cpoints(n)
        cq = 'path.' + cname
        B = lambda x, P=P: bernstein(P, x)
        f = mdl.func(cq + '.reversed')
        ob('R09.1').run(f, '%s.reversed().point(t) == point(1-t)' % cname,
                        lambda it, P=P, cq=cq: it.call_method(it.call_method(it.construct(cq, *P), 'reversed'), 'point', T),
                        lambda v, B=B: decide_equal(v, B(1 - T)))
        if cname != 'Line':
            # ... also for a segment that has been measured before (its length cache is populated): what a copy is built FROM must
            # not depend on what the object remembers
            PC = [Rat.const(z) for z in (0, 1 + 2j, 3 - 1j, 7 + 3j)][:n - 1] + [Rat.const(7 + 3j)]

            def th_rev_measured(it, PC=PC, cq=cq):
                seg = it.construct(cq, *PC)
                for args in ((), (1, 0)):
                    it.call_method(seg, 'length', *args)
                for warm in ('poly', 'bpoints', 'bbox'):       # every argument-less query that may fill a cache
                    if warm in seg.cls.methods:
                        try:
                            it.call_method(seg, warm)
                        except Undecidable:
                            pass
                rev = it.call_method(seg, 'reversed')
                pl = it.call_method(rev, 'poly')
                return it.call_method(rev, 'point', T), (pl(T) if isinstance(pl, PolyT) else Rat.sym('notpoly')), list(it.call_method(rev, 'bpoints'))
            ob('R09.1').run(f, '%s.reversed().point(t) == point(1-t) after length() was measured (concrete control points)' % cname, th_rev_measured,
                            lambda v, PC=PC: decide_all_equal([('point', v[0], bernstein(PC, 1 - T)), ('poly()', v[1], bernstein(PC, 1 - T))] +
                                                              [('bpoints()[%d]' % i, b_, PC[len(PC) - 1 - i]) for i, b_ in enumerate(v[2])]),
                            opts={'globals': {('*', '_quad_available'): False}, 'call_hooks': {'path.segment_length': lambda it, a, k: Rat.sym('SEGLEN')}})
        f = mdl.func(cq + '.split')

        def th_split(it, P=P, cq=cq):
            a, b = it.call_method(it.construct(cq, *P), 'split', S)
            return a, b, it.call_method(a, 'point', U), it.call_method(b, 'point', U)

        def judge_split(v, B=B, cname=cname):
            a, b, pa, pb = v
            if not (isinstance(a, Obj) and isinstance(b, Obj) and a.cls.name == cname and b.cls.name == cname):
                return False, 'pieces are not %s objects' % cname
            return decide_all_equal([('first piece', pa, B(U * S)), ('second piece', pb, B(S + U * (1 - S)))])
        ob('R09.1').run(f, '%s.split(s) pieces' % cname, th_split, judge_split)
        f = mdl.func(cq + '.cropped')

        def th_crop(it, P=P, cq=cq):
            o = it.construct(cq, *P)
            a = it.call_method(o, 'cropped', 0, S)
            b = it.call_method(o, 'cropped', S, 1)
            return a, b, it.call_method(a, 'point', U), it.call_method(b, 'point', U)
        ob('R09.1').run(f, '%s.cropped(0,s) and cropped(s,1)' % cname, th_crop, judge_split,
                        allowed_raises=('AssertionError',))

    # Line.cropped for general (t0, t1)
    P = cpoints(2)
    f = mdl.func('path.Line.cropped')
    ob('R09.1').run(f, 'Line.cropped(t0,t1).point(u) == point(t0+u(t1-t0))',
                    lambda it, P=P: it.call_method(it.call_method(it.construct('path.Line', *P), 'cropped', T0, T1), 'point', U),
                    lambda v, P=P: decide_equal(v, bernstein(P, T0 + U * (T1 - T0))))

    # ------------------------------------------------------------ R09.5 crop_bezier general case
    fcb = mdl.func('path.crop_bezier')
    for cname, n in BEZ[1:]:
        P = cpoints(n)
        cq = 'path.' + cname
        tau = Rat.sym('tau')
        seen = {}

        def rr_hook(it, args, kwargs, seen=seen):
            seg, origin = args[0], args[1]
            seen['recv_point'] = it.call_method(seg, 'point', U)
            seen['origin'] = origin
            d = Rat.sym('dmin')
            return ((d, tau), (Rat.sym('dmax'), Rat.sym('tmax')))
        opts = {'call_hooks': {'path.bezier_radialrange': rr_hook}}

        def th(it, P=P, cq=cq, seen=seen):
            seen.clear()
            o = it.construct(cq, *P)
            c = it.call(it.closure_of('path.crop_bezier'), [o, T0, T1], {})
            sub = {}
            if path_sign(it, T0) == frozenset('0'):
                sub['t0'] = Rat.const(0)
            if path_sign(it, T1 - 1) == frozenset('0'):
                sub['t1'] = Rat.const(1)
            return c, it.call_method(c, 'point', U), dict(seen), sub

        def judge(v, P=P):
            c, pt, seen, sub = v
            B = lambda x: bernstein(P, x)
            if 'origin' not in seen:
                # no numeric relocation on this path (end-point shortcuts, or a closed form): the piece must be exactly B restricted to [t0,t1]
                exp = B(T0 + U * (T1 - T0))
                if sub:
                    exp, pt = to_rat(exp).subst(sub), to_rat(pt).subst(sub)
                ok, d = decide_equal(pt, exp)
                return ok, '' if ok is True else 'the cropped piece is not the curve restricted to [t0, t1]: ' + d
            return decide_all_equal([
                ('curve handed to radialrange is the [t0,1] trim', seen['recv_point'], B(T0 + U * (1 - T0))),
                ('query point is point(t1)', seen['origin'], B(T1)),
                ('result is the [0,tau] part of the trim', pt, B(T0 + U * tau * (1 - T0)))])
        # only the generic path (t0 != 0, t1 != 1) consults radialrange; the other paths are the shortcuts
        ob('R09.5').run(fcb, 'crop_bezier(%s, t0, t1) structure' % cname, th, judge, allowed_raises=('AssertionError',), opts=opts)

    # ------------------------------------------------------------ R09.3 Arc tables
    rec = {'call_hooks': {'path.Arc': None}}
    fr = mdl.func('path.Arc.reversed')
    fc = mdl.func('path.Arc.cropped')
    fsplit = mdl.func('path.Arc.split')
    for sweep in (False, True):
        for large in (False, True):
            def th_rev(it, sweep=sweep, large=large):
                a = sym_arc(it, 'A', large, sweep)
                it.call_hooks['path.Arc'] = ctor_record_hook(it.model, 'path.Arc')
                try:
                    return a, it.call_method(a, 'reversed')
                finally:
                    del it.call_hooks['path.Arc']

            def judge_rev(v, sweep=sweep, large=large):
                a, r = v
                f = r.attrs
                probs = []
                if f.get('sweep') is not (not sweep):
                    probs.append('sweep=%r (expected %r)' % (f.get('sweep'), not sweep))
                if f.get('large_arc') is not large:
                    probs.append('large_arc=%r' % (f.get('large_arc'),))
                ok, d = decide_all_equal([('start', f['start'], a.attrs['end']), ('end', f['end'], a.attrs['start']),
                                          ('radius', f['radius'], a.attrs['radius']), ('rotation', f['rotation'], a.attrs['rotation'])])
                if ok is not True:
                    probs.append(d)
                return (not probs) if ok is not None or probs else None, '; '.join(probs)
            ob('R09.3').run(fr, 'Arc.reversed() table sweep=%s large=%s' % (sweep, large), th_rev, judge_rev,
                            allowed_raises=('AssertionError',), opts=arc_opts(mdl))

    def th_crop(it):
        a = sym_arc(it, 'A', True, True)
        pt0, pt1 = it.call_method(a, 'point', T0), it.call_method(a, 'point', T1)
        it.call_hooks['path.Arc'] = ctor_record_hook(it.model, 'path.Arc')
        try:
            c = it.call_method(a, 'cropped', T0, T1)
        finally:
            del it.call_hooks['path.Arc']
        return a, c, pt0, pt1, path_sign(it, apply_fn('abs', a.attrs['delta'] * (T1 - T0)) - 180)

    def judge_crop(v):
        a, c, pt0, pt1, sg = v
        f = c.attrs
        probs = []
        ok, d = decide_all_equal([('start', f['start'], pt0), ('end', f['end'], pt1), ('radius', f['radius'], a.attrs['radius']),
                                  ('rotation', f['rotation'], a.attrs['rotation'])])
        if ok is not True:
            probs.append(d)
        if f.get('sweep') is not True:
            probs.append('sweep not inherited')
        if f.get('autoscale_radius') is not a.attrs['autoscale_radius']:
            probs.append('autoscale_radius not inherited')
        # the flag: large iff |delta*(t1-t0)| > 180 (degrees)
        flag = f.get('large_arc')
        if sg == frozenset('+'):
            if flag not in (1, True):
                probs.append('large_arc=%r although |delta*(t1-t0)| > 180' % (flag,))
        elif sg == frozenset('-0'):
            if flag not in (0, False):
                probs.append('large_arc=%r although |delta*(t1-t0)| <= 180' % (flag,))
        else:
            probs.append('large-arc flag is not decided by the test |delta*(t1-t0)| <= 180 degrees '
                         '(this path knows sign(|delta*(t1-t0)|-180) in {%s})' % ','.join(sorted(sg)))
        return (not probs) if ok is not None or probs else None, '; '.join(probs)
    ob('R09.3').run(fc, 'Arc.cropped(t0,t1) table', th_crop, judge_crop, allowed_raises=('AssertionError',), opts=arc_opts(mdl))

    def th_split(it):
        a = sym_arc(it, 'A', True, True)
        calls = []

        def crop_hook(it2, args, kwargs):
            calls.append((args[1], args[2]))
            return ('piece', len(calls))
        it.call_hooks['path.Arc.cropped'] = crop_hook
        try:
            r = it.call_method(a, 'split', S)
        finally:
            del it.call_hooks['path.Arc.cropped']
        return r, calls

    def judge_arc_split(v):
        r, calls = v
        if len(calls) != 2 or tuple(r) != (('piece', 1), ('piece', 2)):
            return False, 'split must return (cropped(0,s), cropped(s,1)) in this order; saw %r -> %r' % (calls, r)
        return decide_all_equal([('first from', calls[0][0], 0), ('first to', calls[0][1], S),
                                 ('second from', calls[1][0], S), ('second to', calls[1][1], 1)])
    ob('R09.3').run(fsplit, 'Arc.split(s) == (cropped(0,s), cropped(s,1))', th_split, judge_arc_split,
                    allowed_raises=('AssertionError',), opts=arc_opts(mdl))

    # ------------------------------------------------------------ R09.4 Path.reversed
    fpr = mdl.func('path.Path.reversed')

    def th_prev(it):
        segs = [it.construct('path.Line', *cpoints(2, 'L')), it.construct('path.QuadraticBezier', *cpoints(3, 'Q')),
                it.construct('path.CubicBezier', *cpoints(4, 'C'))]
        p = it.construct('path.Path', *segs)
        # the original has been measured: its caches are populated
        fr = [Rat.sym('fr%d' % k) for k in range(3)]
        p.attrs['_length'] = Rat.sym('LTOT')
        p.attrs['_lengths'] = list(fr)
        if '_length_tol' in p.cls.class_attrs:
            p.attrs['_length_tol'] = (Rat.sym('err'), Rat.sym('md'))
        r = it.call_method(p, 'reversed')
        return [it.call_method(s, 'point', 1 - T) for s in segs], [it.call_method(s, 'point', T) for s in it.iterate(r)], r, fr

    def judge_prev(v):
        orig, rev, r, fr = v
        if not isinstance(r, Obj) or r.cls.name != 'Path' or len(rev) != 3:
            return False, 'result is not a 3-segment Path'
        ok, d = decide_all_equal([('segment %d' % i, rev[i], orig[2 - i]) for i in range(3)])
        if ok is not True:
            return ok, d
        # a cache handed to the reversed copy must describe the reversed segment order
        if r.attrs.get('_length') is not None and r.attrs.get('_lengths') is not None:
            got = r.attrs['_lengths']
            if len(got) != 3 or not all(to_rat(got[i]).equals(fr[2 - i]) for i in range(3)):
                return False, 'the reversed copy inherits the length fractions in the original order: point(T)/T2t on it use the wrong segments'
        return True, ''
    ob('R09.4').run(fpr, 'Path(L,Q,C).reversed() == (C.rev, Q.rev, L.rev)', th_prev, judge_prev)

    # ------------------------------------------------------------ R09.7 Path.cropped piece table
    _path_cropped_table(ctx, mdl)

    # ------------------------------------------------------------ R09.6 lookups by value
    PathC = mdl.cls('path.Path')
    hits = []
    n_funcs = 0
    for fi in PathC.all_funcs():
        n_funcs += 1
        hits += value_lookups(fi, 'self')
    ctx.record('R09.6', 'path.Path', 'value lookups of indexed segments', not hits,
               detail='; '.join('%s L%d: %s' % h for h in hits), where='svgpathtools/path.py',
               sample={'methods_scanned': n_funcs, 'hits': len(hits)})
    # positive control
    ctrl = ast.parse("class P:\n def f(self, T):\n  k, t = self.T2t(T)\n  seg = self[k]\n  return self.index(seg)\n")
    for parent in ast.walk(ctrl):
        for ch in ast.iter_child_nodes(parent):
            ch._parent = parent
    import types
    fake = types.SimpleNamespace(node=ctrl.body[0].body[0], qualname='control')
    if len(value_lookups(fake, 'self')) != 1:
        raise Exception('R09.6 positive control did not fire')


def value_lookups(fi, recv):
    """calls recv.index(x) / recv.t2T(x, ..) where x is a local bound from recv[...] / iteration over recv"""
    fn = fi.node
    from_index = {}
    for n in walk_no_nested(fn):
        if isinstance(n, ast.Assign) and isinstance(n.targets[0], ast.Name) and isinstance(n.value, ast.Subscript):
            base = n.value.value
            if (isinstance(base, ast.Name) and base.id == recv) or \
                    (isinstance(base, ast.Attribute) and norm(base) == recv + '._segments'):
                from_index[n.targets[0].id] = n
        if isinstance(n, ast.For) and isinstance(n.target, ast.Name) and norm(n.iter) in (recv, recv + '._segments'):
            from_index[n.target.id] = n
    hits = []
    for n in walk_no_nested(fn):
        if isinstance(n, ast.Call) and isinstance(n.func, ast.Attribute) and norm(n.func.value) == recv and n.args \
                and isinstance(n.args[0], ast.Name) and n.args[0].id in from_index:
            if n.func.attr == 'index' or n.func.attr == 't2T':
                hits.append((fi.qualname, n.lineno, norm(n)))
    return hits


def _path_cropped_table(ctx, mdl):
    fi = mdl.func('path.Path.cropped')
    n = 4 if ctx.tier == 'thorough' else 3      # thorough: one more segment between the crop ends
    V = [Rat.csym('V%d' % i) for i in range(n)]
    TT0, TT1 = Rat.sym('T0'), Rat.sym('T1')
    s0, s1 = Rat.sym('s0'), Rat.sym('s1')
    presign = [(TT0, '+'), (TT1, '+'), (TT0 - 1, '-'), (TT1 - 1, '-'), (s0, '+'), (s1, '+'), (s0 - 1, '-'), (s1 - 1, '-'),
               ('close', s0, '+'), ('close', s1, '+'), ('close', s0 - 1, '+'), ('close', s1 - 1, '+'), (TT0 - TT1, '-+')]

    def seg_pt(k, t):
        return V[k] + t * (V[(k + 1) % n] - V[k])
    for i0 in range(n):
        for i1 in range(n):
            def t2t_hook(it, args, kwargs, i0=i0, i1=i1):
                T = args[1]
                if to_rat(T).equals(TT0):
                    return (i0, s0)
                if to_rat(T).equals(TT1):
                    return (i1, s1)
                raise Undecidable('T2t called with an unexpected argument')
            opts = {'call_hooks': {'path.Path.T2t': t2t_hook}, 'presign': presign}

            def th(it):
                segs = [it.construct('path.Line', V[k], V[(k + 1) % n]) for k in range(n)]
                p = it.construct('path.Path', *segs)
                r = it.call_method(p, 'cropped', TT0, TT1)
                fwd = path_sign(it, TT0 - TT1)
                return [(x.attrs['start'], x.attrs['end']) for x in it.iterate(r)], fwd

            def judge(v, i0=i0, i1=i1):
                pieces, fwd = v
                if fwd == frozenset('-'):      # T0 < T1
                    if i0 > i1:
                        return True, ''        # infeasible combination, nothing to compare
                    if i0 == i1:
                        exp = [(seg_pt(i0, s0), seg_pt(i0, s1))]
                    else:
                        exp = [(seg_pt(i0, s0), seg_pt(i0, 1))] + [(seg_pt(k, 0), seg_pt(k, 1)) for k in range(i0 + 1, i1)] + \
                              [(seg_pt(i1, 0), seg_pt(i1, s1))]
                elif fwd == frozenset('+'):    # T1 < T0: wrap around the closing joint
                    if i0 < i1:
                        return True, ''
                    exp = [(seg_pt(i0, s0), seg_pt(i0, 1))] + [(seg_pt(k, 0), seg_pt(k, 1)) for k in range(i0 + 1, n)] + \
                          [(seg_pt(k, 0), seg_pt(k, 1)) for k in range(0, i1)] + [(seg_pt(i1, 0), seg_pt(i1, s1))]
                else:
                    return None, 'order of T0 and T1 not decided on this path'
                if len(pieces) != len(exp):
                    return False, 'T0%sT1, i0=%d, i1=%d: %d pieces, expected %d' % ('<' if fwd == frozenset('-') else '>', i0, i1, len(pieces), len(exp))
                return decide_all_equal([x for k, (a, b) in enumerate(zip(pieces, exp)) for x in
                                         (('piece %d start' % k, a[0], b[0]), ('piece %d end' % k, a[1], b[1]))])
            Obligation(ctx, 'R09.7').run(fi, 'cropped: T0 on segment %d, T1 on segment %d' % (i0, i1), th, judge,
                                         allowed_raises=('AssertionError',), opts=opts)
