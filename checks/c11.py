"""C11 - every reported intersection is a real one, in range, with coherent parameters (thin).

Decided: operand order is coherent at every delegation (a swapped call is un-swapped, a direct one is
not); bounding-box pre-filters only ever discard strictly disjoint boxes; the Line-Line closed form
satisfies the intersection equations identically and is range-tested; in the Arc-Bezier branch the
polynomial whose roots are taken is |u1transform(B(t))|^2 - 1, u1transform maps the arc to the unit
circle, and each returned t1 is paired with the t2 it was computed from; Path.intersect pairs each
parameter with its own path/segment and maps through t2T.
Not decided: accuracy of subdivision and of the arc solvers (1e-5 / 1e-3 bounds)."""
import ast
from fractions import Fraction as Fr
from svtstatic import poly
from svtstatic.values import ExtRef
from .common import *

PROPERTY = 'C11'
LEVEL = 'other'
I = Rat.const(1j)
KINDS = {'Line': 2, 'QuadraticBezier': 3, 'CubicBezier': 4}
CACHE = {}


def run(ctx):
    mdl = ctx.model
    ctx.assume('the algebraic / subdivision solvers return pairs (parameter on their first argument, parameter on their second)')
    ctx.rule('R11.1', 'delegation: result pairs are (t on self, t on other) whatever the argument order of the delegate; bounding-box '
                      'pre-filters return [] only for strictly disjoint boxes', 11)
    ctx.rule('R11.3', 'Line-Line: p0 + t1(p1-p0) == q0 + t2(q1-q0) identically for the returned (t1,t2); both range-tested on [0,1]', 1)
    ctx.rule('R11.5', 'Arc-Bezier branch: polynomial == |u1transform(B(t))|^2 - 1; u1transform(point(t)) on the unit circle; each t1 is '
                      'phase2t of its own t2; both filtered to [0,1]', 3)
    ctx.rule('R11.4', 'Path.intersect: ((T1,seg1,t1),(T2,seg2,t2)) with seg1 from path1, seg2 from path2, T = own path.t2T(seg,t)', 1)
    ob = lambda r: Obligation(ctx, r)

    # ---------------------------------------------------------------- R11.1
    for sname in KINDS:
        for oname in list(KINDS) + ['Arc']:
            if sname == 'Line' and oname == 'Line':
                continue
            f = mdl.func('path.%s.intersect' % sname)
            rec = {}

            def solver(tag, rec=rec):
                def h(it, a, k):
                    rec['call'] = (tag, a[0], a[1])
                    return [(Rat.sym('FIRST'), Rat.sym('SECOND'))]
                return h
            mm = []

            def mmh(tag, mm=mm):
                def h(it, a, k):
                    items = it.iterate(a[0]) if len(a) == 1 else list(a)
                    mm.append((tag, items))
                    v = Rat.sym('%s%d' % (tag.upper(), len(mm)))
                    return v
                return h

            def th(it, sname=sname, oname=oname, rec=rec, mm=mm):
                rec.clear()
                del mm[:]
                me = it.construct('path.' + sname, *cpoints(KINDS[sname], 'S'))
                if oname == 'Arc':
                    other = sym_arc(it, 'A', True, False)
                else:
                    other = it.construct('path.' + oname, *cpoints(KINDS[oname], 'O'))
                it.call_hooks['path.bezier_by_line_intersections'] = solver('bbl')
                it.call_hooks['bezier.bezier_by_line_intersections'] = solver('bbl')
                it.call_hooks['bezier.bezier_intersections'] = solver('bi')
                it.call_hooks['path.Arc.intersect'] = solver('arc')
                for c in KINDS:
                    it.call_hooks['path.%s.length' % c] = lambda it2, a, k: Rat.sym('LEN')
                r = it.call_method(me, 'intersect', other)
                facts = []
                for i in range(0, len(mm) - 1, 2):
                    (t1, l1), (t2, l2) = mm[i], mm[i + 1]
                    a_, b_ = Rat.sym('%s%d' % (t1.upper(), i + 1)), Rat.sym('%s%d' % (t2.upper(), i + 2))
                    facts.append((t1, t2, path_sign(it, a_ - b_), l1, l2))
                return r, dict(rec), me, other, facts

            def judge(v):
                r, rec, me, other, facts = v
                if 'call' not in rec:
                    if list(r) != []:
                        return False, 'no solver called but result %r' % (r,)
                    # the pre-filter discarded the pair: some comparison must know strict separation
                    strict = [(l1, l2) for t1, t2, sg, l1, l2 in facts
                              if (t1 == 'min' and t2 == 'max' and sg == frozenset('+')) or (t1 == 'max' and t2 == 'min' and sg == frozenset('-'))]
                    if not strict:
                        return False, 'the pre-filter returns [] for boxes that are not known to be strictly disjoint (touching boxes are discarded)'
                    # the deciding comparison must put the SAME coordinate of the two segments side by side
                    def component(lst, seg):
                        pts = [seg.attrs[k] for k in ('start', 'control', 'control1', 'control2', 'end') if k in seg.attrs]
                        for nm, get in (('x', lambda z: z.real()), ('y', lambda z: z.imag())):
                            if all(any(to_rat(x).equals(get(to_rat(p))) for p in pts) for x in lst):
                                return nm
                        return None
                    l1, l2 = strict[-1]
                    comps = None
                    for sa, sb_ in ((me, other), (other, me)):
                        ca, cb = component(l1, sa), component(l2, sb_)
                        if ca and cb:
                            comps = (ca, cb)
                    if comps is None:
                        return False, 'the deciding comparison of the pre-filter is not between coordinates of the control points of the two segments'
                    if comps[0] != comps[1]:
                        return False, ('the pre-filter compares the %s-extent of one segment with the %s-extent of the other: crossing segments '
                                       'away from the diagonal x = y are discarded' % comps)
                    return True, ''
                for t1, t2, sg, l1, l2 in facts:
                    pass
                tag, a0, a1 = rec['call']
                if len(r) != 1:
                    return False, 'solver result not passed through: %r' % (r,)
                t_self, t_other = to_rat(r[0][0]), to_rat(r[0][1])
                if a0 is me and a1 is other:
                    exp = (Rat.sym('FIRST'), Rat.sym('SECOND'))
                elif a0 is other and a1 is me:
                    exp = (Rat.sym('SECOND'), Rat.sym('FIRST'))
                else:
                    return False, 'delegate %s called with unexpected operands' % tag
                ok = t_self.equals(exp[0]) and t_other.equals(exp[1])
                return ok, '' if ok else 'delegate %s(%s) returns (first, second); intersect returns them as (%s, %s): the pair is %s' % (
                    tag, 'self, other' if a0 is me else 'other, self', short(t_self, 20), short(t_other, 20),
                    'swapped although the call was direct' if a0 is me else 'not swapped back')
            opts = {'ext_hooks': {'builtins.min': mmh('min'), 'builtins.max': mmh('max')}}
            if oname == 'Arc':
                opts = arc_opts(mdl, opts)
            ob('R11.1').run(f, '%s.intersect(%s)' % (sname, oname), th, judge, allowed_raises=('AssertionError',), opts=opts)

    # ---------------------------------------------------------------- R11.3 Line-Line
    fl = mdl.func('path.Line.intersect')
    Pp, Qq = cpoints(2, 'P'), cpoints(2, 'Q')

    def th3(it):
        cnt[0] = 0
        a = it.construct('path.Line', *Pp)
        b = it.construct('path.Line', *Qq)
        r = it.call_method(a, 'intersect', b)
        out = []
        for t1, t2 in r:
            out.append((t1, t2, path_sign(it, to_rat(t1)), path_sign(it, to_rat(t1) - 1), path_sign(it, to_rat(t2)), path_sign(it, to_rat(t2) - 1)))
        return out

    def judge3(v):
        for t1, t2, a0, a1, b0, b1 in v:
            t1, t2 = to_rat(t1), to_rat(t2)
            ok, d = decide_equal(Pp[0] + t1 * (Pp[1] - Pp[0]), Qq[0] + t2 * (Qq[1] - Qq[0]))
            if ok is not True:
                return ok, 'the returned parameters do not satisfy the intersection equations: ' + d
            if not (a0 <= frozenset('0+') and a1 <= frozenset('-0') and b0 <= frozenset('0+') and b1 <= frozenset('-0')):
                return False, 'a returned parameter is not known to lie in [0,1] on this path'
        return True, ''
    cnt = [0]

    def atom_mm(it, a, k):
        cnt[0] += 1
        return Rat.sym('MM%d' % cnt[0])
    ob('R11.3').run(fl, 'Line.intersect(Line): closed form and range tests', th3, judge3, allowed_raises=('AssertionError',), need_return=True,
                    opts={'ext_hooks': {'builtins.min': atom_mm, 'builtins.max': atom_mm}})

    # ---------------------------------------------------------------- R11.5 Arc-Bezier branch
    fa = mdl.func('path.Arc.intersect')
    seen = {}

    def pr01(it, a, k, seen=seen):
        seen['poly'] = a[0]
        return [Rat.sym('rho1'), Rat.sym('rho2')]

    def p2t(it, a, k):
        return apply_fn('phase', to_rat(a[1])) * 0 + Rat(Poly.atom(poly.fn_atom('phase2t', to_rat(a[1]))))

    for oname in ('QuadraticBezier', 'CubicBezier'):
        def th5(it, oname=oname, seen=seen):
            seen.clear()
            arc = sym_arc(it, 'A', True, False)
            Pb = cpoints(KINDS[oname], 'O')
            other = it.construct('path.' + oname, *Pb)
            it.call_hooks['polytools.polyroots01'] = pr01
            it.call_hooks['path.Arc.phase2t'] = p2t
            r = it.call_method(arc, 'intersect', other)
            key = ('static', oname)
            if key not in CACHE:
                # path-independent quantities are computed once
                u = it.call_method(arc, 'u1transform', it.call_method(arc, 'point', T))
                up = lambda rho: it.call_method(arc, 'u1transform', bernstein(Pb, rho))
                CACHE[key] = (u, [up(Rat.sym('rho1')), up(Rat.sym('rho2'))])
            u, ups = CACHE[key]
            return r, dict(seen), arc, Pb, u, ups, it, oname

        def judge5(v):
            r, seen, arc, Pb, u, ups, it, oname = v
            probs = []
            p = seen.get('poly')
            if not isinstance(p, PolyT):
                return False, 'polyroots01 is not given a polynomial'
            key = ('idents', oname)
            if key not in CACHE:
                u = to_rat(u)
                r1 = decide_equal(u.real() ** 2 + u.imag() ** 2, 1)
                ut = to_rat(ups[0]).subst({'rho1': T})
                r2 = decide_equal(p(T), ut.real() ** 2 + ut.imag() ** 2 - 1)
                CACHE[key] = (r1, r2)
            (ok, d), (ok2, d2) = CACHE[key]
            if ok is not True:
                probs.append('u1transform does not map the arc to the unit circle: ' + d)
            if ok2 is not True:
                probs.append('polynomial is not |u1transform(B(t))|^2 - 1: ' + d2)
            rhos = [Rat.sym('rho1'), Rat.sym('rho2')]
            for t1, t2 in r:
                t1, t2 = to_rat(t1), to_rat(t2)
                idx = [i for i, rh in enumerate(rhos) if t2.equals(rh)]
                if not idx:
                    probs.append('a returned t2 is not one of the roots')
                    continue
                exp = Rat(Poly.atom(poly.fn_atom('phase2t', apply_fn('phase', to_rat(ups[idx[0]])))))
                if not t1.equals(exp):
                    probs.append('t1 paired with t2=%s was computed from another root (pairs are mis-zipped)' % short(t2, 20))
                if not (path_sign(it, t1) <= frozenset('0+') and path_sign(it, t1 - 1) <= frozenset('-0')):
                    probs.append('returned t1 not range-tested')
                if not (path_sign(it, t2) <= frozenset('0+') and path_sign(it, t2 - 1) <= frozenset('-0')):
                    probs.append('returned t2 not range-tested')
            return not probs, '; '.join(probs[:3])
        ob('R11.5').run(fa, 'Arc.intersect(%s): u1transform branch' % oname, th5, judge5, allowed_raises=('AssertionError',), opts=arc_opts(mdl))
    fu = mdl.func('path.Arc.u1transform')

    def th_aff(it):
        arc = sym_arc(it, 'A', True, False)
        z1, z2, lam = Rat.csym('w1'), Rat.csym('w2'), Rat.sym('lam')
        u = lambda z: to_rat(it.call_method(arc, 'u1transform', z))
        return u(lam * z1 + (1 - lam) * z2), lam * u(z1) + (1 - lam) * u(z2)
    ob('R11.5').run(fu, 'u1transform is affine (so it may be applied to poly() coefficient-wise)', th_aff,
                    lambda v: decide_equal(v[0], v[1]), allowed_raises=('AssertionError',), opts=arc_opts(mdl))

    # ---------------------------------------------------------------- R11.6 Arc-Line algebraic branch (rotation == 0)
    ctx.rule('R11.6', 'unrotated Arc x Line: every candidate point handed to point_to_t lies on the ellipse; in each branch the matching '
                      '(x, y) pairs also lie on the line; pairs are (arc parameter, line parameter); None results are skipped', 2)
    for vertical in (True, False):
        cand = []

        def th6(it, vertical=vertical, cand=cand):
            del cand[:]
            arc = sym_arc(it, 'A', True, False, rotation=Rat.const(0))
            lx0 = Rat.sym('lx0')
            q0 = lx0 + I * Rat.sym('ly0')
            q1 = (lx0 if vertical else Rat.sym('lx1')) + I * Rat.sym('ly1')
            line = it.construct('path.Line', q0, q1)

            def arc_p2t(it2, a, k):
                cand.append(to_rat(a[1]))
                return Rat.sym('TA%d' % len(cand))
            it.call_hooks['path.Arc.point_to_t'] = arc_p2t
            it.call_hooks['path.Line.point_to_t'] = lambda it2, a, k: Rat.sym('TL_%d' % len(cand))
            r = it.call_method(arc, 'intersect', line)
            return r, list(cand), arc, q0, q1, path_zero_facts(it)

        def judge6(v, vertical=vertical):
            r, cand, arc, q0, q1, facts = v
            a, b = arc.attrs['radius'].real(), arc.attrs['radius'].imag()
            ctr = arc.attrs['center']
            probs = []
            on_line = 0
            for p in cand:
                w = p - ctr
                ell = (w.real() / a) ** 2 + (w.imag() / b) ** 2 - 1
                ok, d = decide_equal(ell, 0)
                if ok is not True and zero_modulo_facts(ell, facts):
                    ok = True
                if ok is not True and not vertical:
                    # in the general branch x and y candidates are combined crosswise: only the matching pairs are on the ellipse
                    pass
                elif ok is not True:
                    probs.append('candidate %s is not on the ellipse: %s' % (short(p, 40), d[:120]))
                # on the line?  (p - q0) x (q1 - q0) == 0
                cr = ((p - q0) * (q1 - q0).conj()).imag()
                if decide_equal(cr, 0)[0] is True and ok is True:
                    on_line += 1
            if cand and on_line == 0:
                probs.append('no candidate lies on both the ellipse and the line')
            for pair in r:
                ta, tl = to_rat(pair[0]), to_rat(pair[1])
                if not (ta.key().startswith('1*TA') and tl.key().startswith('1*TL')):
                    probs.append('result pairs are not (arc parameter, line parameter)')
            return not probs, '; '.join(probs[:3])
        pres = [(Rat.sym('lx1') - Rat.sym('lx0'), '-+')] if not vertical else []
        ob('R11.6').run(fa, 'Arc.intersect(Line), rotation 0, %s line' % ('vertical' if vertical else 'oblique'), th6, judge6,
                        allowed_raises=('AssertionError',), opts=arc_opts(mdl, {'presign': pres}))

    # ---------------------------------------------------------------- R11.4 Path.intersect layout
    fp = mdl.func('path.Path.intersect')

    def th4(it):
        # concrete, pairwise overlapping segments: the tuple layout does not depend on the geometry (the segment solver is replaced by a
        # stub), and any cheap bounding pre-filter Path.intersect may apply decides at once
        cz = lambda x, y: Rat.const(x) + I * Rat.const(y)
        s1 = [it.construct('path.Line', cz(0, 0), cz(10, 10)), it.construct('path.Line', cz(10, 10), cz(20, 0))]
        s2 = [it.construct('path.Line', cz(0, 10), cz(10, 0)), it.construct('path.Line', cz(10, 0), cz(20, 10))]
        p1, p2 = it.construct('path.Path', *s1), it.construct('path.Path', *s2)

        def li(it2, a, k):
            i, j = [x for x, s in enumerate(s1) if s is a[0]], [x for x, s in enumerate(s2) if s is a[1]]
            if not i or not j:
                raise Undecidable('segment.intersect called across the wrong paths')
            return [(Rat.sym('t1_%d%d' % (i[0], j[0])), Rat.sym('t2_%d%d' % (i[0], j[0])))]
        it.call_hooks['path.Line.intersect'] = li
        it.call_hooks['path.Path.t2T'] = lambda it2, a, k: ('T', a[0], a[1], a[2])
        it.call_hooks['path.Line.point'] = lambda it2, a, k: Rat.csym('pt_%s' % to_rat(a[1]).key().replace('*', '').replace(' ', ''))
        r = it.call_method(p1, 'intersect', p2)
        return r, s1, s2, p1, p2

    def judge4(v):
        r, s1, s2, p1, p2 = v
        if not r:
            return False, 'no intersections reported'
        for (T1, g1, t1), (T2, g2, t2) in r:
            i = [x for x, s in enumerate(s1) if s is g1]
            j = [x for x, s in enumerate(s2) if s is g2]
            if not i or not j:
                return False, 'seg1/seg2 are not members of path1/path2 in this order'
            if not to_rat(t1).equals(Rat.sym('t1_%d%d' % (i[0], j[0]))) or not to_rat(t2).equals(Rat.sym('t2_%d%d' % (i[0], j[0]))):
                return False, 'parameters attached to the wrong segments'
            if not (isinstance(T1, tuple) and T1[1] is p1 and T1[2] is g1 and to_rat(T1[3]).equals(to_rat(t1))):
                return False, 'T1 is not path1.t2T(seg1, t1)'
            if not (isinstance(T2, tuple) and T2[1] is p2 and T2[2] is g2 and to_rat(T2[3]).equals(to_rat(t2))):
                return False, 'T2 is not path2.t2T(seg2, t2)'
        return True, ''
    ob('R11.4').run(fp, 'Path.intersect tuple layout on 2x2 segments', th4, judge4, allowed_raises=('AssertionError',))

    # ---------------------------------------------------------------- R11.7 subdivision solver invariants
    ctx.rule('R11.7', 'bezier_intersections: every sub-curve examined is the dyadic piece of its own input curve; each pair carries the mid '
                      'parameters of its two pieces; a pair is reported only on paths that know BOTH pieces\' boxes to be smaller than tol_deC', 4)
    subdivision_scenarios(ctx, 'R11.7', [(1, [(0, 0)]), (1, [(0, 1)]), (1, [(1, 0)]), (2, [(1, 2)])])
    subdivision_scenarios(ctx, 'R11.7', [(1, [(0, 0), (0, 1), (1, 0), (1, 1)])], mode='soundness')

    # ---------------------------------------------------------------- R11.8 positions are compared with an absolute tolerance
    _arc_point_to_t_axis_points(ctx, mdl)
    _flat_box_instances(ctx, mdl)
    ctx.rule('R11.8', 'point_to_t: an isclose() test between POSITIONS (values that move with a translation of the figure) has rtol = 0: a relative '
                      'tolerance grows with the distance from the origin and accepts points that are not on the segment', 2)
    SHIFT = Rat.csym('SHIFT')

    def moves_with_translation(v, points):
        """does the value change when every point of the figure is translated by SHIFT?"""
        v = to_rat(v)
        sub = {}
        for nm in points:
            sub[nm + '.re'] = Rat.sym(nm + '.re') + SHIFT.real()
            sub[nm + '.im'] = Rat.sym(nm + '.im') + SHIFT.imag()
        try:
            return not (v.subst(sub) - v).is_zero()
        except Exception:
            return False

    for label, build, points in (
            ('Line', lambda it: it.construct('path.Line', Rat.csym('LS'), Rat.csym('LE')), ('LS', 'LE', 'QP')),
            ('Arc', lambda it: sym_arc(it, 'A', True, True, rotation=Rat.const(0)), ('A.start', 'A.end', 'A.center', 'QP'))):
        fpt = mdl.func('path.%s.point_to_t' % label)
        calls = []

        def isclose_hook(it, a, k, calls=calls):
            calls.append((a[0], a[1], k.get('rtol', a[2] if len(a) > 2 else None)))
            return False          # no comparison succeeds: execution goes on to the next one, so that all of them are seen

        def th8(it, build=build, calls=calls):
            del calls[:]
            seg = build(it)
            try:
                it.call_method(seg, 'point_to_t', Rat.csym('QP'))
            except Undecidable:
                pass          # the comparisons made so far are what is judged
            return list(calls)

        def judge8(v, points=points, label=label):
            if not v:
                return None, 'point_to_t makes no isclose() comparison on this path'
            for a, b, rtol in v:
                if moves_with_translation(a, points) or moves_with_translation(b, points):
                    if rtol is None or not to_rat(rtol).is_zero():
                        return False, ('isclose(%s, %s) compares positions with a relative tolerance (rtol=%s): far from the origin it accepts points '
                                       'up to rtol*|position| away' % (short(a, 30), short(b, 30), 'default 1e-5' if rtol is None else short(rtol, 10)))
            return True, ''
        opts8 = {'ext_hooks': {'numpy.isclose': isclose_hook}, 'no_fork': True}
        if label == 'Arc':
            opts8 = arc_opts(mdl, opts8)
        ob('R11.8').run(fpt, '%s.point_to_t: position comparisons are absolute' % label, th8, judge8, allowed_raises=('AssertionError', 'ValueError'), opts=opts8)


def subdivision_scenarios(ctx, rule, scenarios, mode='all', offset=0):
    """mode: 'all' | 'soundness' (what is reported is justified) | 'once' (every group of accepted cells is reported exactly once).
    bezier_intersections on a symbolic cubic x quadratic with CONCRETE bounding boxes realising a scenario (L, cells): at
    subdivision level L (1 = halves, 2 = quarters) exactly the listed cells (piece index on the first curve, on the second) overlap
    and are candidates for being small; their ancestors overlap (boxes = hulls of their children's boxes, known NOT to be small);
    everything else, and every piece below level L, is disjoint.  Judged per label path: which pairs are reported, with which
    parameters, and what the path knows about the box sizes.  Cells that share a piece are one crossing next to a piece boundary
    (one report); cells that share none are distinct crossings (one report each)."""
    mdl = ctx.model
    ob = lambda r: Obligation(ctx, r)
    fbi = mdl.func('bezier.bezier_intersections')
    B1, B2 = cpoints(4, 'P'), cpoints(3, 'Q')
    TOLD, TOL = Rat.sym('told'), Rat.sym('tol')

    def decasteljau(P, lo, hi):
        def split(P, t):
            left, right, cur = [P[0]], [P[-1]], list(P)
            while len(cur) > 1:
                cur = [cur[i] + (cur[i + 1] - cur[i]) * t for i in range(len(cur) - 1)]
                left.append(cur[0])
                right.insert(0, cur[-1])
            return left, right
        out = list(P)
        if hi != 1:
            out = split(out, Rat.const(hi))[0]
        if lo != 0:
            out = split(out, Rat.const(Fr(lo) / Fr(hi)))[1]
        return out
    pieces = {}
    for tag, P in (('B1', B1), ('B2', B2)):
        for lvl in range(4):
            n = 2 ** lvl
            for i in range(n):
                pieces[tuple(to_rat(x).key() for x in decasteljau(P, Fr(i, n), Fr(i + 1, n)))] = (tag, lvl, i)

    def hull(boxes):
        return (min(b[0] for b in boxes), max(b[1] for b in boxes), min(b[2] for b in boxes), max(b[3] for b in boxes))

    def box_of(tag, lvl, i, L, cells):
        if lvl > L:                       # below the scenario level: pairwise disjoint
            return (1000 + 10 * i, 1001 + 10 * i, 100 * lvl + (50 if tag == 'B2' else 0), 100 * lvl + (50 if tag == 'B2' else 0) + 1)
        if lvl < L:
            return hull([box_of(tag, lvl + 1, 2 * i, L, cells), box_of(tag, lvl + 1, 2 * i + 1, L, cells)])
        if tag == 'B1':
            return (10 * i, 10 * i + 1, 0, 1)                                    # area 1
        partners = [a for a, b in cells if b == i]
        if partners:
            return (10 * min(partners), 10 * max(partners) + 1, Fr(i, 8), 2 + Fr(i, 8))    # area 2 (22 when it meets two neighbours); parents' hulls are larger
        sib = [a for a, b in cells if b == (i ^ 1)]
        x0 = 10 * min(sib) if sib else 0
        return (x0, x0 + 1, 5, 6)                                                # out of reach of every piece of the first curve

    def area(box):
        return Fr((box[1] - box[0]) * (box[3] - box[2]))

    def mid(lvl, i):
        return Fr(2 * i + 1, 2 ** (lvl + 1))

    for L, cells in scenarios:
        log = {'unknown': []}

        def bbox_hook(it, a, k, log=log, L=L, cells=cells):
            key = tuple(to_rat(x).key() for x in it.iterate(a[0]))
            pc = pieces.get(key)
            if pc is None:
                log['unknown'].append(key)
                return (5000, 5001, 5000, 5001)
            # `offset` moves the whole figure far from the origin (overlaps stay what they are: a test that scales its tolerance
            # with the magnitude of the coordinates loses them)
            return tuple(Rat.const(v + offset) for v in box_of(pc[0], pc[1], pc[2], L, cells))

        def pt_hook(it, a, k):
            return Rat.csym('PT_%s' % to_rat(a[1]).key().replace('/', 'o').replace('*', '').replace(' ', ''))

        def th7(it, log=log):
            log['unknown'][:] = []
            r = it.call(it.closure_of('bezier.bezier_intersections'), [list(B1), list(B2), Rat.sym('LL')], {'tol': TOL, 'tol_deC': TOLD})
            return list(r), list(log['unknown']), it

        def judge7(v, L=L, cells=cells):
            r, unknown, it = v
            if unknown:
                return False, 'a sub-curve is examined that is not a dyadic piece [i/2^k, (i+1)/2^k] of an input curve (wrong halving)'

            def known_small(tag, i):
                return path_sign(it, Rat.const(area(box_of(tag, L, i, L, cells))) - TOLD) == frozenset('-')
            got = set()
            for t1, t2 in r:
                t1, t2 = to_rat(t1), to_rat(t2)
                hit = [(a, b) for a in range(2 ** L) for b in range(2 ** L) if t1.equals(Rat.const(mid(L, a))) and t2.equals(Rat.const(mid(L, b)))]
                if not hit:
                    return False, ('reported (%s, %s) are not the mid parameters of a pair of level-%d pieces (t1 on the first curve, t2 on the second)'
                                   % (short(t1, 20), short(t2, 20), L))
                if hit[0] in got:
                    return False, 'the pair of pieces %s is reported twice' % (hit[0],)
                got.add(hit[0])
            for a, b in sorted(got):
                if mode == 'once':
                    break
                if (a, b) not in cells:
                    return False, 'a crossing is reported for the pieces %s whose boxes are disjoint' % ((a, b),)
                for tag, i in (('B1', a), ('B2', b)):
                    if not known_small(tag, i):
                        return False, ('a crossing is reported without knowing that the box of piece %d of the %s curve is smaller than tol_deC: '
                                       'its parameter is only known to +-%s' % (i, 'first' if tag == 'B1' else 'second', Fr(1, 2 ** (L + 1))))
            if mode == 'soundness':
                return True, ''
            accepted = [(a, b) for a, b in cells if known_small('B1', a) and known_small('B2', b)]
            if any(('P' in f.key() or 'Q' in f.key()) for f in path_zero_facts(it)):
                return True, ''           # degenerate input (two pieces with identical control points): outside general position
            groups = []
            for pr in accepted:
                for g in groups:
                    if any(pr[0] == q[0] or pr[1] == q[1] for q in g):
                        g.append(pr)
                        break
                else:
                    groups.append([pr])
            pkey = lambda a: Rat.csym('PT_%s' % Rat.const(mid(L, a)).key().replace('/', 'o').replace('*', '').replace(' ', ''))
            for g in groups:
                n = len([pr for pr in g if pr in got])
                if n == 0:
                    others = [q for q in got if q not in g]
                    if others and all(path_sign(it, apply_fn('abs', pkey(g[0][0]) - pkey(q[0])) - TOL) == frozenset('-') for q in others):
                        continue              # known to be closer than tol to a reported point: the same solution
                    return False, 'the overlapping small pair(s) of pieces %s are not reported (reported: %s): a crossing is lost' % (g, sorted(got))
                if n > 1:
                    return False, ('the pairs of pieces %s share a piece (one crossing next to a piece boundary) and %d of them are reported: '
                                   'the crossing is reported more than once' % (g, n))
            return True, ''
        # the ancestors of the cells are known not to be small (otherwise the solver stops before reaching level L)
        pres = [(TOLD, '+'), (TOL, '+')]
        anc = set()
        for lvl in range(L):
            for tag in ('B1', 'B2'):
                for i in range(2 ** lvl):
                    anc.add(area(box_of(tag, lvl, i, L, cells)))
        for a_ in sorted(anc):
            pres.append((Rat.const(a_) - TOLD, '+'))
        if offset:
            # the cells themselves are known to be small, whatever the solver looks at: every one of them has to be reported
            for a_ in sorted({area(box_of(tag, L, i, L, cells)) for a, b in cells for tag, i in (('B1', a), ('B2', b))} - anc):
                pres.append((Rat.const(a_) - TOLD, '-'))
        ob(rule).run(fbi, 'subdivision scenario%s%s: at level %d exactly the cells %s overlap' % ({'all': '', 'soundness': ' (soundness)', 'once': ' (reported once)'}[mode], ' far from the origin' if offset else '', L, cells), th7, judge7, allowed_raises=('Exception',),
                     opts={'call_hooks': {'bezier.bezier_bounding_box': bbox_hook, 'bezier.bezier_point': pt_hook},
                           'ext_hooks': {'builtins.int': lambda it, a, k: 5, 'math.ceil': lambda it, a, k: Rat.sym('CEIL'),
                                         'math.log': lambda it, a, k: Rat.sym('LOG')},
                           'presign': pres})


def _arc_point_to_t_axis_points(ctx, mdl):
    """Arc.point_to_t on concrete unrotated circles between axis points (every quantity exact): the axis points the arc passes,
    taken exactly and displaced radially OUTWARD by 1e-9 r (inside the function's own radius tolerance; the acos/asin argument is
    then just beyond +-1, as rounding makes it for real data), map to their parameter j/steps."""
    ctx.rule('R11.9', 'Arc.point_to_t on concrete axis circles: the axis points on the arc, exact and displaced outward by 1e-9 r, map to '
                      'their parameter (the inverse-trig arguments are clamped to the nearer of -1 and +1, never dropped)', 4)
    fi = mdl.func('path.Arc.point_to_t')
    unit = [Rat.const(1), Rat.const(1j), Rat.const(-1), Rat.const(-1j)]
    eps = Rat.const(1 + Fr(1, 10 ** 9))
    for large in (False, True):
        for sweep in (False, True):
            bad = []
            und = None
            n = 0
            for c, r in ((Rat.const(0), 1), (Rat.const(2 + 3j), 2)):
                for k0 in range(4):
                    sgn = 1 if sweep else -1
                    steps = 3 if large else 1
                    k1 = (k0 + sgn * steps) % 4
                    n += 1

                    def th(it, c=c, r=r, k0=k0, k1=k1, sgn=sgn, steps=steps):
                        a = it.construct('path.Arc', c + r * unit[k0], Rat.const(complex(r, r)), Rat.const(0), large, sweep, c + r * unit[k1])
                        out = []
                        for j in range(steps + 1):
                            u = unit[(k0 + sgn * j) % 4]
                            out.append((j, 'exact', it.call_method(a, 'point_to_t', c + r * u)))
                            out.append((j, 'displaced outward', it.call_method(a, 'point_to_t', c + r * u * eps)))
                        return out
                    try:
                        paths = explore(mdl, th, {'time_limit': 30})
                    except Undecidable as e:
                        und = und or str(e)
                        continue
                    for pth in paths:
                        if pth.raised is not None:
                            bad.append('raises %s' % pth.raised.exc_name)
                            continue
                        for j, how, t in pth.value:
                            want = Fr(j, steps)
                            from svtstatic.values import concrete_number
                            got = concrete_number(t) if t is not None else None
                            if got is None or abs(float(got) - float(want)) > 1e-9:
                                bad.append('circle centre %s radius %d from angle %d (%s, %s): the axis point %d/%d (%s) maps to %s' % (
                                    short(c, 8), r, 90 * k0, 'sweep' if sweep else 'no sweep', 'large' if large else 'small', j, steps, how,
                                    short(repr(t), 20)))
            label = 'large_arc=%s sweep=%s: %d concrete arcs, axis points exact and displaced' % (large, sweep, n)
            if und and not bad:
                ctx.undecided('R11.9', fi.qualname, label, und, where=where(fi))
            else:
                ctx.record('R11.9', fi.qualname, label, not bad, detail='; '.join(bad[:3]), where=where(fi), sample={'arcs': n})


def _flat_box_instances(ctx, mdl):
    """bezier_intersections on concrete straight, axis-parallel Beziers (bounding boxes of zero area at every depth, the
    degenerate case of a termination test on the box AREA): whatever is returned, the two points of every reported pair
    coincide - the function's own promise abs(B1(t) - B2(s)) < tol_deC."""
    fi = mdl.func('bezier.bezier_intersections')
    cases = [('horizontal cubic x vertical cubic, crossing off-centre', [complex(x, 1) for x in (0, 1, 3, 4)], [complex(1, y) for y in (0, 1, 3, 4)]),
             ('horizontal quadratic x vertical quadratic', [complex(x, 2) for x in (0, 1, 8)], [complex(3, y) for y in (-1, 0, 7)]),
             ('T-junction: vertical cubic ending on a horizontal cubic', [complex(x, 0) for x in (0, 2, 3, 8)], [complex(5, y) for y in (4, 3, 1, 0)]),
             ('horizontal cubic x vertical quadratic, boxes touching at a corner', [complex(x, 0) for x in (0, 1, 2, 3)], [complex(3, y) for y in (0, 1, 5)])]
    from svtstatic.values import concrete_number
    for label, A, B in cases:
        def th(it, A=A, B=B):
            a = [Rat.const(z) for z in A]
            b = [Rat.const(z) for z in B]
            prs = it.call(it.closure_of('bezier.bezier_intersections'), [a, b, Rat.const(8)], {})
            out = []
            for pr in it.iterate(prs):
                t1, t2 = it.iterate(pr)
                out.append((t1, t2, it.call(it.closure_of('bezier.bezier_point'), [a, t1], {}), it.call(it.closure_of('bezier.bezier_point'), [b, t2], {})))
            return out

        def judge(v):
            for t1, t2, p1, p2 in v:
                d = to_rat(p1) - to_rat(p2)
                c = d.const_value() if d.is_const() and not d.has_fn_atoms() else None
                if c is None:
                    return None, 'reported points are not reduced to numbers'
                if c[0] * c[0] + c[1] * c[1] > Fr(1, 10 ** 12):
                    return False, 'reports (t1, t2) = (%s, %s) whose points %s and %s are %s apart' % (short(t1, 10), short(t2, 10), short(p1, 14), short(p2, 14),
                                                                                                    round(float(c[0] * c[0] + c[1] * c[1]) ** 0.5, 6))
            return True, ''
        Obligation(ctx, 'R11.7').run(fi, 'flat boxes: %s' % label, th, judge, allowed_raises=(), opts={'time_limit': 30})
