"""helpers shared by the rule sets"""
import ast
from math import comb
from svtstatic.poly import Rat, Poly, Undecidable, numerically_zero, apply_fn, PI
from svtstatic.values import PyRaise, Obj, PolyT, Arr, to_rat, NumTok, StrT, Hole, Opaque
from svtstatic.interp import explore, Interp, Iter
from svtstatic.model import AnchorMissing, norm, loc

T = Rat.sym('t')
U = Rat.sym('u')


def cpoints(n, prefix='P'):
    return [Rat.csym('%s%d' % (prefix, i)) for i in range(n)]


def bernstein(pts, t):
    n = len(pts) - 1
    acc = Rat.const(0)
    for i, p in enumerate(pts):
        acc = acc + comb(n, i) * (1 - t) ** (n - i) * t ** i * p
    return acc


def nderiv(r, atom, n):
    for _ in range(n):
        r = r.diff(atom)
    return r


def short(r, n=160):
    s = r if isinstance(r, str) else (r.key() if hasattr(r, 'key') else repr(r))
    return s if len(s) <= n else s[:n] + '...'


def decide_equal(a, b):
    """-> (True|False|None, detail).  None = undecided (mismatch may be due to an unknown
    relation between function atoms)."""
    try:
        a, b = to_rat(a), to_rat(b)
    except Undecidable as e:
        return False, 'not a number: %s' % e
    d = a - b
    if d.is_zero():
        return True, ''
    if d.has_fn_atoms() and numerically_zero(d):
        return None, 'normal forms differ (%s) but the difference vanishes at random points: a relation between ' \
                     'function atoms that the rewrite system does not know' % short(d)
    return False, 'lhs - rhs = %s' % short(d)


def decide_all_equal(pairs):
    worst = True
    details = []
    for name, a, b in pairs:
        r, d = decide_equal(a, b)
        if r is not True:
            details.append('%s: %s' % (name, d))
            if r is False:
                worst = False
            elif worst is True:
                worst = None
    return worst, '; '.join(details)


def where(fi, node=None):
    return '%s:%d' % (fi.file, (node.lineno if node is not None else fi.line))


DEFAULT_TIME_LIMIT = {'quick': 90, 'thorough': 600}


class Obligation(object):
    """run a thunk under all label assignments, apply `judge(value) -> (ok, detail)` on each
    normally returning path; raising paths must be in `allowed_raises` (set of exception names)."""

    def __init__(self, ctx, rule):
        self.ctx = ctx
        self.rule = rule

    def run(self, fi, construct, thunk, judge, allowed_raises=(), opts=None, need_return=True, sample=None):
        ctx = self.ctx
        try:
            # every theorem is bounded in time: code outside the exact fragment can make expressions grow without bound, and a check
            # that does not come back decides nothing (override with opts['time_limit'])
            opts = dict(opts or {})
            opts.setdefault('time_limit', DEFAULT_TIME_LIMIT.get(ctx.tier, 300))
            paths = explore(ctx.model, thunk, opts)
        except Undecidable as e:
            return ctx.undecided(self.rule, fi.qualname, construct, 'outside the fragment: %s' % e, where=where(fi))
        except Exception as e:
            if getattr(e, 'verdict_violation', False):
                return ctx.record(self.rule, fi.qualname, construct, False, detail=str(e), where=where(fi), sample=sample)
            raise
        ctx.extra['label_paths_explored'] = ctx.extra.get('label_paths_explored', 0) + len(paths)
        verdict = True
        details = []
        returned = 0
        for p in paths:
            if p.raised is not None:
                if p.raised.exc_name in allowed_raises:
                    continue
                verdict = False
                details.append('raises %s(%s) when %s' % (p.raised.exc_name, p.raised.msg[:80], p.cond_text()[:200]))
                continue
            returned += 1
            try:
                ok, d = judge(p.value)
            except Undecidable as e:
                ok, d = None, 'outside the fragment: %s' % e
            except PyRaise as e:
                ok, d = False, 'judge raised %s %s' % (e.exc_name, e.msg)
            if ok is not True:
                details.append(('when %s: ' % p.cond_text()[:200] if p.decisions else '') + d)
                if ok is False:
                    verdict = False
                elif verdict is True:
                    verdict = None
        if need_return and returned == 0 and verdict is True:
            verdict = False
            details.append('no normally returning path')
        return ctx.record(self.rule, fi.qualname, construct, verdict, detail=' | '.join(details)[:900],
                          where=where(fi), sample=sample)


def expect_raise(ctx, rule, fi, construct, thunk, exc_names, opts=None, ignore_conditions=()):
    """every path must raise one of exc_names"""
    try:
        paths = explore(ctx.model, thunk, opts)
    except Undecidable as e:
        return ctx.undecided(rule, fi.qualname, construct, 'outside the fragment: %s' % e, where=where(fi))
    bad = []
    for p in paths:
        if p.raised is None:
            bad.append('returns %s when %s' % (short(repr(p.value), 60), p.cond_text()[:120]))
        elif p.raised.exc_name not in exc_names and p.raised.exc_name not in ignore_conditions:
            bad.append('raises %s instead of %s' % (p.raised.exc_name, '/'.join(exc_names)))
    return ctx.record(rule, fi.qualname, construct, not bad, detail=' | '.join(bad)[:600], where=where(fi))


def find_calls(node, pred):
    out = []
    for n in ast.walk(node):
        if isinstance(n, ast.Call) and pred(n):
            out.append(n)
    return out


def call_name(call):
    f = call.func
    if isinstance(f, ast.Name):
        return f.id
    if isinstance(f, ast.Attribute):
        return f.attr
    return None


def dotted(e):
    if isinstance(e, ast.Name):
        return e.id
    if isinstance(e, ast.Attribute):
        b = dotted(e.value)
        return b + '.' + e.attr if b else None
    return None


# ----------------------------------------------------------------------------- symbolic records
def bind_args(it, fi, args, kwargs, drop_self=True):
    """bind call arguments to the parameter names of fi (defaults evaluated in the module context)"""
    from svtstatic.interp import Env
    a = fi.node.args
    params = [x.arg for x in a.posonlyargs + a.args]
    if drop_self and params and params[0] == 'self':
        params = params[1:]
    out = {}
    for p, v in zip(params, args):
        out[p] = v
    defaults = dict(zip([x.arg for x in (a.posonlyargs + a.args)][len(a.posonlyargs + a.args) - len(a.defaults):], a.defaults))
    for p in params[len(args):]:
        if p in kwargs:
            out[p] = kwargs[p]
        elif p in defaults:
            out[p] = it.eval(defaults[p], Env(module=fi.module))
        else:
            raise PyRaise('TypeError', 'missing argument %s' % p)
    for k in kwargs:
        if k not in params:
            raise PyRaise('TypeError', 'unexpected keyword %s' % k)
    return out


def ctor_record_hook(model, cls_qual):
    """call hook: `Cls(...)` returns a record of its bound constructor arguments (no __init__ run)"""
    info = model.cls(cls_qual)
    init = info.method('__init__')

    def hook(it, args, kwargs):
        o = Obj(info)
        o.attrs.update(bind_args(it, init, args, kwargs))
        o.attrs['__record__'] = True
        return o
    return hook


ARC_OPTS = None


def arc_opts(model, extra=None):
    """interpreter options under which Arc.__init__ runs but _parameterize is summarised by fresh symbols
    theta, delta (real), center (complex); radius keeps the constructor value"""
    def namer(o, w):
        base = o.attrs.get('__name__', 'A')
        if w == 'center':
            return Rat.csym(base + '.center')
        return Rat.sym('%s.%s' % (base, w))
    opts = {'havoc': {'path.Arc._parameterize'}, 'havoc_keep': ('radius',), 'havoc_namer': namer}
    if extra:
        opts.update(extra)
    return opts


def sym_arc(it, name='A', large_arc=False, sweep=True, rotation=None):
    """a symbolic Arc built by the real constructor (under arc_opts); radii are declared positive"""
    from svtstatic import poly
    poly.POSITIVE.update({name + '.rx', name + '.ry'})
    radius = Rat.sym(name + '.rx') + Rat.sym(name + '.ry') * Rat.const(1j)
    rot = Rat.sym(name + '.rot') if rotation is None else rotation
    info = it.model.cls('path.Arc')
    o = Obj(info)
    o.attrs['__name__'] = name
    init = info.method('__init__')
    from svtstatic.values import Closure
    it.call_closure(Closure(init, init.node, None, init.module, o, info),
                    [Rat.csym(name + '.start'), radius, rot, large_arc, sweep, Rat.csym(name + '.end')], {})
    return o


def seg_fields(o):
    return {k: v for k, v in o.attrs.items() if not k.startswith('_')}


def path_sign(it, expr):
    """what the decisions taken so far on this path imply about sign(expr): subset of {'-','0','+'}"""
    from svtstatic.interp import _canon_diff, _known_sign
    expr = to_rat(expr)
    if expr.is_zero():
        return frozenset('0')
    if expr.is_const():
        c = expr.const_value()
        return frozenset('+' if c[0] > 0 else '-')
    ks = _known_sign(expr)
    if ks is not None:
        return frozenset('+' if ks > 0 else '-')
    sgn, key, text = _canon_diff(expr)
    flip = lambda cur: frozenset({'-': '+', '+': '-', '0': '0'}[c] for c in cur)
    if key in it.trace.signs:
        cur = it.trace.signs[key]
        return flip(cur) if sgn < 0 else cur
    if not expr.is_poly():
        # printed forms of quotients are not canonical: look the test up semantically
        from svtstatic.poly import fingerprint
        fp = fingerprint(expr)
        for k2, e2 in it.trace.sign_exprs.items():
            if k2 not in it.trace.signs or e2.is_poly():
                continue
            f2 = fingerprint(e2)
            if fp is None or f2 is None:
                continue
            if abs(fp - f2) < 1e-7 * (1 + abs(fp)) and expr.equals(e2):
                return it.trace.signs[k2]
            if abs(fp + f2) < 1e-7 * (1 + abs(fp)) and expr.equals(-e2):
                return flip(it.trace.signs[k2])
    return frozenset('-0+')


def path_zero_facts(it):
    """expressions the explored path has decided to be exactly zero"""
    out = []
    for key, signs in it.trace.signs.items():
        if signs == frozenset('0') and not key.startswith('close:') and key in it.trace.sign_exprs:
            out.append(it.trace.sign_exprs[key])
    return out


def zero_modulo_facts(d, facts):
    """is the Rat d a constant multiple of one of the path's zero facts (or zero after its linear substitution)?"""
    d = to_rat(d)
    if d.is_zero():
        return True
    for f in facts:
        # compare numerators up to a constant: d.num * f.den == k * f.num * d.den
        lhs = d.num * f.den
        rhs = f.num * d.den
        if not lhs.t or not rhs.t:
            continue
        m0 = min(rhs.t)
        if m0 not in lhs.t:
            continue
        c1, c2 = lhs.t[m0], rhs.t[m0]
        n = c2[0] * c2[0] + c2[1] * c2[1]
        k = ((c1[0] * c2[0] + c1[1] * c2[1]) / n, (c1[1] * c2[0] - c1[0] * c2[1]) / n)
        if (lhs - rhs.scale(k)).is_zero():
            return True
    return False


def module_const(it, module, name, default=None):
    """value of a module-level name as seen from `module` (follows package imports: the constant may live in another module)"""
    mod = it.model.module(module)
    r = it.model.resolve_global(mod, name)
    if r is None:
        return default
    return it._global_value(r)


def path_sign_mod(it, expr):
    """path_sign, also using the path's exact-zero facts linearly: expr +- f1 +- f2 for zero facts f (e.g. start == 0 and end == 0 known
    separately imply start - end == 0)"""
    import itertools
    expr = to_rat(expr)
    s = path_sign(it, expr)
    if s != frozenset('-0+'):
        return s
    facts = path_zero_facts(it)[:8]
    for n in (1, 2):
        for fs in itertools.combinations(facts, n):
            for cs in itertools.product((1, -1), repeat=n):
                e2 = expr
                for c, f in zip(cs, fs):
                    e2 = e2 + f * c
                s = path_sign(it, e2)
                if s != frozenset('-0+'):
                    return s
    return frozenset('-0+')


def check_isclose_definition(ctx, rule):
    """misctools.isclose(a, b, rtol, atol) is the test |a - b| < atol + rtol*|b| (the numpy.isclose predicate the package documents)"""
    mdl = ctx.model
    fi = mdl.func('misctools.isclose')
    A, B_ = Rat.csym('ia'), Rat.csym('ib')
    RT, AT = Rat.sym('rtol'), Rat.sym('atol')
    from svtstatic import poly
    poly.POSITIVE.update({'rtol', 'atol'})

    def th(it):
        r = it.call(it.closure_of('misctools.isclose'), [A, B_], {'rtol': RT, 'atol': AT})
        out = it.truth(r)
        expected = AT + RT * apply_fn('abs', B_) - apply_fn('abs', A - B_)
        return bool(out), path_sign(it, expected)

    def judge(v):
        out, sg = v
        if out and sg == frozenset('+'):
            return True, ''
        if (not out) and sg <= frozenset('-0'):
            return True, ''
        return False, 'isclose answers %r on a path that only knows sign(atol + rtol|b| - |a-b|) in {%s}: the predicate is not |a-b| < atol + rtol|b|' % (
            out, ','.join(sorted(sg)))
    Obligation(ctx, rule).run(fi, 'isclose(a, b) == (|a-b| < atol + rtol*|b|)', th, judge)
