"""helpers shared by the rule sets"""
import ast
from math import comb
from svtstatic.poly import Rat, Poly, Undecidable, numerically_zero, apply_fn, PI
from svtstatic.values import PyRaise, Obj, PolyT, Arr, to_rat, NumTok, StrT, Hole, Opaque
from svtstatic.interp import explore, Interp, Iter
from svtstatic.model import AnchorMissing, norm, loc

T = Rat.sym('t')
U = Rat.sym('u')


def cpoints(n, prefix='P'):
    return [Rat.csym('%s%d' % (prefix, i)) for i in range(n)]


def bernstein(pts, t):
    n = len(pts) - 1
    acc = Rat.const(0)
    for i, p in enumerate(pts):
        acc = acc + comb(n, i) * (1 - t) ** (n - i) * t ** i * p
    return acc


def nderiv(r, atom, n):
    for _ in range(n):
        r = r.diff(atom)
    return r


def short(r, n=160):
    s = r if isinstance(r, str) else (r.key() if hasattr(r, 'key') else repr(r))
    return s if len(s) <= n else s[:n] + '...'


def decide_equal(a, b):
    """-> (True|False|None, detail).  None = undecided (mismatch may be due to an unknown
    relation between function atoms)."""
    try:
        a, b = to_rat(a), to_rat(b)
    except Undecidable as e:
        return False, 'not a number: %s' % e
    d = a - b
    if d.is_zero():
        return True, ''
    if d.has_fn_atoms() and numerically_zero(d):
        return None, 'normal forms differ (%s) but the difference vanishes at random points: a relation between ' \
                     'function atoms that the rewrite system does not know' % short(d)
    return False, 'lhs - rhs = %s' % short(d)


def decide_all_equal(pairs):
    worst = True
    details = []
    for name, a, b in pairs:
        r, d = decide_equal(a, b)
        if r is not True:
            details.append('%s: %s' % (name, d))
            if r is False:
                worst = False
            elif worst is True:
                worst = None
    return worst, '; '.join(details)


def where(fi, node=None):
    return '%s:%d' % (fi.file, (node.lineno if node is not None else fi.line))


class Obligation(object):
    """run a thunk under all label assignments, apply `judge(value) -> (ok, detail)` on each
    normally returning path; raising paths must be in `allowed_raises` (set of exception names)."""

    def __init__(self, ctx, rule):
        self.ctx = ctx
        self.rule = rule

    def run(self, fi, construct, thunk, judge, allowed_raises=(), opts=None, need_return=True, sample=None):
        ctx = self.ctx
        try:
            paths = explore(ctx.model, thunk, opts)
        except Undecidable as e:
            return ctx.undecided(self.rule, fi.qualname, construct, 'outside the fragment: %s' % e, where=where(fi))
        verdict = True
        details = []
        returned = 0
        for p in paths:
            if p.raised is not None:
                if p.raised.exc_name in allowed_raises:
                    continue
                verdict = False
                details.append('raises %s(%s) when %s' % (p.raised.exc_name, p.raised.msg[:80], p.cond_text()[:200]))
                continue
            returned += 1
            try:
                ok, d = judge(p.value)
            except Undecidable as e:
                ok, d = None, 'outside the fragment: %s' % e
            except PyRaise as e:
                ok, d = False, 'judge raised %s %s' % (e.exc_name, e.msg)
            if ok is not True:
                details.append(('when %s: ' % p.cond_text()[:200] if p.decisions else '') + d)
                if ok is False:
                    verdict = False
                elif verdict is True:
                    verdict = None
        if need_return and returned == 0 and verdict is True:
            verdict = False
            details.append('no normally returning path')
        return ctx.record(self.rule, fi.qualname, construct, verdict, detail=' | '.join(details)[:900],
                          where=where(fi), sample=sample)


def expect_raise(ctx, rule, fi, construct, thunk, exc_names, opts=None, ignore_conditions=()):
    """every path must raise one of exc_names"""
    try:
        paths = explore(ctx.model, thunk, opts)
    except Undecidable as e:
        return ctx.undecided(rule, fi.qualname, construct, 'outside the fragment: %s' % e, where=where(fi))
    bad = []
    for p in paths:
        if p.raised is None:
            bad.append('returns %s when %s' % (short(repr(p.value), 60), p.cond_text()[:120]))
        elif p.raised.exc_name not in exc_names and p.raised.exc_name not in ignore_conditions:
            bad.append('raises %s instead of %s' % (p.raised.exc_name, '/'.join(exc_names)))
    return ctx.record(rule, fi.qualname, construct, not bad, detail=' | '.join(bad)[:600], where=where(fi))


def find_calls(node, pred):
    out = []
    for n in ast.walk(node):
        if isinstance(n, ast.Call) and pred(n):
            out.append(n)
    return out


def call_name(call):
    f = call.func
    if isinstance(f, ast.Name):
        return f.id
    if isinstance(f, ast.Attribute):
        return f.attr
    return None


def dotted(e):
    if isinstance(e, ast.Name):
        return e.id
    if isinstance(e, ast.Attribute):
        b = dotted(e.value)
        return b + '.' + e.attr if b else None
    return None
