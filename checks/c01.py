"""C01 - Path.d() output parses back to the same path, under every option.

Writer/reader composition: Path.d is interpreted (E3) on symbolic paths of every shape (segment
classes x joint continuity x closedness, up to 3 segments; 2 quick) under all 8 option
combinations; the resulting string template is tokenised by a model of the lexer and handed to
the interpreted parser (Path._parse_path); the parsed segments must equal the original ones as
polynomial identities modulo the equalities the explored path assumes (e.g. the smoothness
equations under which S/T was emitted).
Also: format specs (full-precision '{}'), lexer language inclusion for everything the writer can print.
Not decided: float repr/float() exactness (CPython guarantee), rounding of the differences in
relative form, the <=1e-12 radius caveat, leftmost-greedy tokenisation order."""
import ast, itertools, os
from svtstatic.values import Closure, NumTok, StrT, Hole
from svtstatic import redfa, poly
from .common import *
from . import c02

PROPERTY = 'C01'
LEVEL = 'other'
I = Rat.const(1j)
CLASSES = ['Line', 'CubicBezier', 'QuadraticBezier', 'Arc']
FIELDS = {'Line': ('start', 'end'), 'CubicBezier': ('start', 'control1', 'control2', 'end'),
          'QuadraticBezier': ('start', 'control', 'end'), 'Arc': ('start', 'radius', 'rotation', 'large_arc', 'sweep', 'end')}
COMMANDS = set('MmZzLlHhVvCcSsQqTtAa')


# ------------------------------------------------------------------------------------ lexer model
def tokenise(s):
    """model of COMMAND_RE.split + FLOAT_RE.findall on a string template whose holes are printed numbers"""
    if isinstance(s, str):
        s = StrT([s])
    out = []
    sep = True      # is the previous thing a separator/command (so that a number may start here)?
    for part in s.parts:
        if isinstance(part, Hole):
            if part.spec not in ('',):
                raise FormatProblem('a coordinate is printed with format spec %r (limits precision)' % part.spec)
            v = part.value
            if isinstance(v, NumTok):
                v = v.value
            if not isinstance(v, Rat):
                raise Undecidable('non-numeric value %r printed into the d-string' % (v,))
            if not v.is_real():
                raise FormatProblem('a complex value is printed into the d-string')
            if not sep:
                raise FormatProblem('two numbers are printed without a separator between them')
            out.append(NumTok(v))
            sep = False
            continue
        i = 0
        while i < len(part):
            ch = part[i]
            if ch in COMMANDS:
                out.append(ch)
                sep = True
                i += 1
            elif ch in ' ,\t\n':
                sep = True
                i += 1
            elif ch in '0123456789.+-':
                j = i
                while j < len(part) and part[j] in '0123456789.+-eE':
                    j += 1
                txt = part[i:j]
                if not sep:
                    raise FormatProblem('literal number %r directly follows another number' % txt)
                from fractions import Fraction
                try:
                    out.append(NumTok(Rat.const(Fraction(txt))))
                except ValueError:
                    raise FormatProblem('literal %r is not a number' % txt)
                sep = False
                i = j
            else:
                raise FormatProblem('character %r in the d-string is neither command, number nor separator' % ch)
    return out


class FormatProblem(Exception):
    verdict_violation = True      # raised while judging a produced string: it IS the finding, not an analysis failure

    pass


# ------------------------------------------------------------------------------------ reasoning modulo path facts
def zero_facts(it):
    out = []
    for key, signs in it.trace.signs.items():
        if signs == frozenset('0') and not key.startswith('close:') and key in it.trace.sign_exprs:
            out.append(it.trace.sign_exprs[key])
    return out


def solve_facts(facts):
    """turn facts (Rat == 0, complex allowed) into a substitution atom -> Rat, by eliminating atoms that occur linearly
    with a constant coefficient"""
    eqs = []
    for f in facts:
        if not f.is_poly():
            continue
        for part in (f.real(), f.imag()):
            if not part.is_zero():
                eqs.append(part.num)
    subst = {}
    progress = True
    while eqs and progress:
        progress = False
        for k, p in enumerate(eqs):
            p = Rat(p).subst(subst).num if subst else p
            if p.is_zero():
                eqs.pop(k)
                progress = True
                break
            pick = None
            for m, c in sorted(p.t.items()):
                if len(m) == 1 and m[0][1] == 1 and poly.atom_of(m[0][0]).fn is None and p.degree_in(m[0][0]) == 1 \
                        and sum(1 for mm in p.t if any(a == m[0][0] for a, _ in mm)) == 1:
                    pick = (m[0][0], c)
            if pick is None:
                continue
            a, c = pick
            rest = p - Poly({((a, 1),): c})
            val = Rat(-rest) / Rat(Poly.const(c))
            subst = {k2: v.subst({a: val}) for k2, v in subst.items()}
            subst[a] = val
            eqs.pop(k)
            progress = True
            break
    return subst


def equal_modulo(a, b, subst):
    d = to_rat(a) - to_rat(b)
    if d.is_zero():
        return True, ''
    if subst:
        d2 = d.subst(subst)
        if d2.is_zero():
            return True, ''
        return False, 'differs by %s (after using the path\'s equalities)' % short(d2, 120)
    return False, 'differs by %s' % short(d, 120)


# ------------------------------------------------------------------------------------ symbolic paths
def make_path(it, shape, joints, closed):
    """shape: tuple of class names; joints[i] True = segment i+1 starts at the very end point of segment i;
    closed True = the last end point is the first start point"""
    n = len(shape)
    starts = [Rat.csym('P0')]
    ends = []
    for i in range(n):
        last = i == n - 1
        e = starts[0] if (last and closed) else Rat.csym('E%d' % i)
        ends.append(e)
        if not last:
            starts.append(e if joints[i] else Rat.csym('P%d' % (i + 1)))
    segs = []
    for i, c in enumerate(shape):
        info = it.model.cls('path.' + c)
        o = Obj(info)
        if c == 'Line':
            o.attrs.update(start=starts[i], end=ends[i])
        elif c == 'CubicBezier':
            o.attrs.update(start=starts[i], control1=Rat.csym('C%da' % i), control2=Rat.csym('C%db' % i), end=ends[i])
            o.attrs['_length_info'] = {'length': None, 'bpoints': None, 'error': None, 'min_depth': None}
        elif c == 'QuadraticBezier':
            o.attrs.update(start=starts[i], control=Rat.csym('Q%d' % i), end=ends[i])
            o.attrs['_length_info'] = {'length': None, 'bpoints': None}
        else:
            poly.POSITIVE.update({'rx%d' % i, 'ry%d' % i})
            o.attrs.update(start=starts[i], radius=Rat.sym('rx%d' % i) + I * Rat.sym('ry%d' % i), rotation=Rat.sym('rot%d' % i),
                           large_arc=bool(i % 2), sweep=not bool(i % 2), end=ends[i])
        segs.append(o)
    info = it.model.cls('path.Path')
    p = Obj(info)
    p.attrs.update(_segments=list(segs), _length=None, _lengths=None, _start=segs[0].attrs['start'], _end=segs[-1].attrs['end'])
    return p, segs


def presigns(shape, joints, closed):
    """quantifier of C01: no zero-length Line segments"""
    out = []
    n = len(shape)
    starts = [Rat.csym('P0')]
    out.append((Rat.csym('P0'), '-+'))    # Path.start/.end getters re-derive a falsy cached end point: behaviour-neutral (R16.2)
    for i in range(n):
        last = i == n - 1
        e = starts[0] if (last and closed) else Rat.csym('E%d' % i)
        if last and not closed:
            out.append((e, '-+'))
        if shape[i] == 'Line' and not (e - starts[i]).is_zero():
            out.append((e - starts[i], '-+'))
        if not last:
            starts.append(e if joints[i] else Rat.csym('P%d' % (i + 1)))
    return out


def roundtrip(model, shape, joints, closed, useSandT, use_closed_attrib, rel):
    """-> (ok, detail)"""
    def th(it):
        p, segs = make_path(it, shape, joints, closed)
        d = it.call_method(p, 'd', useSandT=useSandT, use_closed_attrib=use_closed_attrib, rel=rel)
        toks = tokenise(d)
        info = it.model.cls('path.Path')
        q = Obj(info)
        q.attrs['_segments'] = []
        it.call_hooks['path.Path._tokenize_path'] = lambda it2, a, k: Iter(list(toks))
        it.call_hooks['path.Arc'] = ctor_record_hook(it.model, 'path.Arc')
        f = info.method('_parse_path')
        it.call_closure(Closure(f, f.node, None, f.module, q, info), ['<d>'], {})
        return segs, q.attrs['_segments'], d, dict(it.trace.subst)
    if len(shape) == 1 and closed and shape[0] == 'Line':
        return True, ''     # a closed one-segment Line path is a zero-length Line (outside the quantifier)
    try:
        paths = explore(model, th, {'presign': presigns(shape, joints, closed)}, max_paths=2048)
    except Undecidable as e:
        return None, 'outside the fragment: %s' % e
    except FormatProblem as e:
        return False, str(e)
    for p in paths:
        if p.raised is not None:
            if p.raised.exc_name == 'AssertionError':
                continue
            return False, 'raises %s(%s) when %s' % (p.raised.exc_name, p.raised.msg[:60], p.cond_text()[:120])
        segs, parsed, d, subst = p.value
        when = (' when ' + p.cond_text()[:150]) if p.decisions else ''
        got = [s.cls.name for s in parsed]
        exp = [s.cls.name for s in segs]
        if got != exp:
            return False, 'd=%s parses to %s, original %s%s' % (short(repr(d), 90), got, exp, when)
        for i, (a, b) in enumerate(zip(parsed, segs)):
            for fld in FIELDS[b.cls.name]:
                va, vb = a.attrs[fld], b.attrs[fld]
                if isinstance(vb, bool):
                    ok = isinstance(va, Rat) and va.equals(int(vb)) or va is vb
                    if not ok:
                        return False, 'segment %d flag %s reads back as %r%s' % (i, fld, va, when)
                    continue
                ok, det = equal_modulo(va, vb, subst)
                if not ok:
                    return False, 'd=%s: segment %d (%s).%s %s%s' % (short(repr(d), 80), i, b.cls.name, fld, det, when)
    return True, ''


def cases(tier):
    out = []
    maxn = 3 if tier == 'thorough' else 2
    for n in range(1, maxn + 1):
        for shape in itertools.product(CLASSES, repeat=n):
            for joints in itertools.product((True, False), repeat=n - 1):
                for closed in (False, True):
                    for opts in itertools.product((False, True), repeat=3):
                        out.append((shape, joints, closed) + opts)
    if tier != 'thorough':
        # three segments: the shapes in which a smooth curve follows a curve follows anything, closed and open
        for shape in itertools.product(('Line', 'CubicBezier'), ('CubicBezier', 'QuadraticBezier'), ('CubicBezier', 'QuadraticBezier', 'Line')):
            for joints in ((True, True), (True, False), (False, True)):
                for closed in (False, True):
                    for opts in ((True, True, False), (True, True, True)):
                        out.append((shape, joints, closed) + opts)
    return out


def _worker(args):
    repo, cs = args
    from svtstatic.model import Model
    m = Model(repo)
    res = []
    for c in cs:
        ok, d = roundtrip(m, *c)
        if ok is not True:
            res.append((c, ok, d))
    return res


def case_text(c):
    shape, joints, closed, s, z, r = c
    j = ''.join('-' if x else '|' for x in joints)
    return '%s joints[%s] %s useSandT=%d use_closed_attrib=%d rel=%d' % ('+'.join(x[0] for x in shape), j,
                                                                          'closed' if closed else 'open', s, z, r)


def run(ctx):
    mdl = ctx.model
    fd = mdl.func('path.Path.d')
    fp = mdl.func('path.Path._parse_path')
    ctx.assume('repr(float)/float(str) round-trip exactly (CPython guarantee); finite coordinates; no zero-length Line segments')
    ctx.assume('ring semantics: in relative form (x - s) + s == x (rounding of emitted differences not modelled)')
    ctx.assume('the lexer model (commands split, numbers separated by blanks/commas) is what R01.6/R02.8 justify at language level')
    cs = cases(ctx.tier)
    ctx.rule('R01.2', 'parse(tokens(d(path))) has the same segment classes and defining points as path, for every path shape x option '
                      'combination, modulo the equalities assumed on the explored path', len(cs))
    ctx.rule('R01.6', 'everything the writer prints is in the lexer\'s language: L(float repr, int str) subset of L(FLOAT_RE); '
                      'emitted letters are commands', 2)
    bad = []
    if len(cs) > 300 and (os.cpu_count() or 1) > 1:
        import multiprocessing as mp
        n = min(16, os.cpu_count() or 4)
        with mp.Pool(n) as pool:
            for res in pool.map(_worker, [(ctx.repo, cs[i::n]) for i in range(n)]):
                bad.extend(res)
    else:
        bad = _worker((ctx.repo, cs))
    badmap = {case_text(c): (ok, d) for c, ok, d in bad}
    for c in cs:
        t = case_text(c)
        if t in badmap:
            ok, d = badmap[t]
            ctx.record('R01.2', fd.qualname, t, ok, detail=d, where=where(fd), sample={'case': t})
        else:
            ctx.record('R01.2', fd.qualname, t, True, where=where(fd), sample={'case': t} if len(c[0]) == 2 and c[3] and c[5] else None)
    ctx.extra['cases_explored'] = len(cs)
    ctx.exhaustive = True

    # ---------------------------------------------------------------- R01.6
    pm = mdl.module('path')
    fre = redfa.pattern_of(pm, 'FLOAT_RE')
    d_float = redfa.compile_dfa(fre)
    py_repr = r'-?[0-9]+(?:\.[0-9]+)?(?:e[+-][0-9]+)?'
    inc, w = redfa.included(redfa.compile_dfa(py_repr), d_float)
    ctx.record('R01.6', 'path', 'L(repr of a finite float / str of an int) subset of L(FLOAT_RE)', inc,
               detail='' if inc else 'the writer can print %r which FLOAT_RE does not accept' % w, where='svgpathtools/path.py',
               sample={'python_repr_grammar': py_repr, 'FLOAT_RE': fre})
    # letters the writer can emit
    letters = set()
    doc = ast.get_docstring(fd.node, clean=False)
    for n in ast.walk(fd.node):
        if isinstance(n, ast.Constant) and isinstance(n.value, str) and n.value != doc:
            import string
            try:
                literal = ''.join(lit for lit, _f, _s, _c in string.Formatter().parse(n.value))
            except ValueError:
                literal = n.value
            for ch in literal:
                if ch.isalpha():
                    letters.add(ch)
    cmds = c02_commands(pm)
    ok = letters <= cmds and {l.lower() for l in letters} <= cmds
    ctx.record('R01.6', fd.qualname, 'letters in format strings are commands (also after .lower())', ok,
               detail='' if ok else 'format strings contain %s' % sorted(letters - cmds), where=where(fd), sample={'letters': sorted(letters)})


def c02_commands(pm):
    e = pm.globals.get('COMMANDS')
    if isinstance(e, ast.Call) and call_name(e) == 'set' and isinstance(e.args[0], ast.Constant):
        return set(e.args[0].value)
    if isinstance(e, ast.Constant) and isinstance(e.value, str):
        return set(e.value)
    raise AnchorMissing('path.COMMANDS')
