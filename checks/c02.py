"""C02 - parse_path implements the SVG path-data semantics for every command sequence.

State machine: Path._parse_path is interpreted (E3) on *token programs*: every sequence of command
letters of bounded length (quick: [Mm] + 2 letters of the 20, thorough: + 3), with symbolic numeric
arguments and implicit repetitions; the resulting segment list is compared, for all argument
values at once, with the SVG 1.1 section 8.3 semantics transcribed below.  This is exhaustive over the
parser's finite control state (command, last command, abs/rel) - longer programs revisit the same
control states with other symbols.
Lexer: language-level facts about COMMAND_RE / FLOAT_RE / the arc-argument pattern (regex -> DFA).
Not decided: behaviour on ungrammatical input, leftmost-greedy tokenisation order, float()."""
import ast, itertools, os
from svtstatic.values import Closure, NumTok
from svtstatic import redfa
from .common import *

PROPERTY = 'C02'
LEVEL = 'other'
ARITY = {'M': 2, 'Z': 0, 'L': 2, 'H': 1, 'V': 1, 'C': 6, 'S': 4, 'Q': 4, 'T': 2, 'A': 7}
LETTERS = [c for u in 'MZLHVCSQTA' for c in (u, u.lower())]
I = Rat.const(1j)


# ------------------------------------------------------------------------------------------- oracle
def svg_semantics(it, prog, numbers):
    """SVG 1.1 8.3 path data semantics over symbolic numbers.  prog: [(letter, reps)]; numbers: iterator of Rat.
    Decisions that depend on values (Z: pen already at start; A: zero radius) are taken through the interpreter's
    decision mechanism so that they agree with the path being explored."""
    segs = []
    cur = Rat.const(0)
    start = None
    prev_cmd = None          # upper-case letter of the previous command (explicit or implicit)
    prev_ctrl = None
    nxt = lambda: next(numbers)
    pt = lambda: (lambda x, y: x + I * y)(nxt(), nxt())
    for letter, reps in prog:
        up = letter.upper()
        ab = letter.isupper()
        for rep in range(reps):
            cmd = up
            if up == 'M' and rep > 0:
                cmd = 'L'       # additional pairs after a moveto are implicit linetos (relative iff the moveto was)
            if cmd == 'M':
                p = pt()
                cur = p if ab else cur + p
                start = cur
                prev_ctrl = None
            elif cmd == 'Z':
                if not it.truth(it.compare_vals('eq', cur, start)):
                    segs.append(('Line', cur, start))
                cur = start
                prev_ctrl = None
            elif cmd == 'L':
                p = pt()
                p = p if ab else cur + p
                segs.append(('Line', cur, p))
                cur = p
                prev_ctrl = None
            elif cmd == 'H':
                x = nxt()
                p = (x if ab else cur.real() + x) + I * cur.imag()
                segs.append(('Line', cur, p))
                cur = p
                prev_ctrl = None
            elif cmd == 'V':
                y = nxt()
                p = cur.real() + I * (y if ab else cur.imag() + y)
                segs.append(('Line', cur, p))
                cur = p
                prev_ctrl = None
            elif cmd == 'C':
                c1, c2, e = pt(), pt(), pt()
                if not ab:
                    c1, c2, e = cur + c1, cur + c2, cur + e
                segs.append(('CubicBezier', cur, c1, c2, e))
                cur, prev_ctrl = e, c2
            elif cmd == 'S':
                c1 = 2 * cur - prev_ctrl if prev_cmd in ('C', 'S') else cur
                c2, e = pt(), pt()
                if not ab:
                    c2, e = cur + c2, cur + e
                segs.append(('CubicBezier', cur, c1, c2, e))
                cur, prev_ctrl = e, c2
            elif cmd == 'Q':
                c, e = pt(), pt()
                if not ab:
                    c, e = cur + c, cur + e
                segs.append(('QuadraticBezier', cur, c, e))
                cur, prev_ctrl = e, c
            elif cmd == 'T':
                c = 2 * cur - prev_ctrl if prev_cmd in ('Q', 'T') else cur
                e = pt()
                if not ab:
                    e = cur + e
                segs.append(('QuadraticBezier', cur, c, e))
                cur, prev_ctrl = e, c
            elif cmd == 'A':
                rx, ry, rot, fa, fs = nxt(), nxt(), nxt(), nxt(), nxt()
                e = pt()
                if not ab:
                    e = cur + e
                zero = it.truth(it.compare_vals('eq', rx, 0)) or it.truth(it.compare_vals('eq', ry, 0))
                if zero:
                    segs.append(('Line', cur, e))
                else:
                    segs.append(('Arc', cur, rx + I * ry, rot, fa, fs, e))
                cur = e
                prev_ctrl = None
            prev_cmd = cmd
    return segs


def tokens_of(prog):
    out = []
    nums = []
    k = 0
    for letter, reps in prog:
        out.append(letter)
        for _ in range(reps * ARITY[letter.upper()]):
            k += 1
            v = Rat.sym('n%d' % k)
            nums.append(v)
            out.append(NumTok(v, 'n%d' % k))
    return out, nums


def seg_tuple(o):
    a = o.attrs
    n = o.cls.name
    if n == 'Line':
        return ('Line', a['start'], a['end'])
    if n == 'CubicBezier':
        return ('CubicBezier', a['start'], a['control1'], a['control2'], a['end'])
    if n == 'QuadraticBezier':
        return ('QuadraticBezier', a['start'], a['control'], a['end'])
    if n == 'Arc':
        return ('Arc', a['start'], a['radius'], a['rotation'], a['large_arc'], a['sweep'], a['end'])
    return (n,)


def run_program(model, prog):
    """-> (ok True/False/None, detail)"""
    tk, nums = tokens_of(prog)

    def th(it):
        info = it.model.cls('path.Path')
        p = Obj(info)
        p.attrs['_segments'] = []
        it.call_hooks['path.Path._tokenize_path'] = lambda it2, a, k: Iter(list(tk))
        it.call_hooks['path.Arc'] = ctor_record_hook(it.model, 'path.Arc')
        f = info.method('_parse_path')
        it.call_closure(Closure(f, f.node, None, f.module, p, info), ['<d>'], {})
        got = [seg_tuple(s) for s in p.attrs['_segments']]
        exp = svg_semantics(it, prog, iter(nums))
        return got, exp
    try:
        paths = explore(model, th, {})
    except Undecidable as e:
        return None, 'outside the fragment: %s' % e
    for p in paths:
        if p.raised is not None:
            return False, 'raises %s(%s)%s' % (p.raised.exc_name, p.raised.msg[:60], (' when ' + p.cond_text()[:100]) if p.decisions else '')
        got, exp = p.value
        if len(got) != len(exp) or [g[0] for g in got] != [e[0] for e in exp]:
            return False, 'segments %s, expected %s%s' % ([g[0] for g in got], [e[0] for e in exp],
                                                          (' when ' + p.cond_text()[:100]) if p.decisions else '')
        for i, (g, e) in enumerate(zip(got, exp)):
            names = {'Line': ('start', 'end'), 'CubicBezier': ('start', 'control1', 'control2', 'end'),
                     'QuadraticBezier': ('start', 'control', 'end'),
                     'Arc': ('start', 'radius', 'rotation', 'large_arc', 'sweep', 'end')}[g[0]]
            for nm, a, b in zip(names, g[1:], e[1:]):
                ok, d = decide_equal(a, b)
                if ok is not True:
                    return ok, 'segment %d (%s).%s: %s' % (i, g[0], nm, d)
    return True, ''


def prog_text(prog):
    return ' '.join(l + ('*%d' % r if r > 1 else '') for l, r in prog)


def _worker(args):
    repo, progs = args
    from svtstatic.model import Model
    m = Model(repo)
    out = []
    for prog in progs:
        ok, d = run_program(m, prog)
        if ok is not True:
            out.append((prog, ok, d))
    return len(progs), out


def programs(tier):
    progs = []
    firsts = [('M', 1), ('m', 1)]
    for f in firsts:
        progs.append([f])
        for a in LETTERS:
            progs.append([f, (a, 1)])
            for b in LETTERS:
                progs.append([f, (a, 1), (b, 1)])
    # implicit repetition: moveto with extra pairs, every command with a repeated argument group, and what follows it
    for f in (('M', 2), ('m', 2), ('M', 3)):
        progs.append([f])
        for a in LETTERS:
            progs.append([f, (a, 1)])
    for f in firsts:
        for a in LETTERS:
            if ARITY[a.upper()]:
                progs.append([f, (a, 2)])
                for b in ('S', 's', 'T', 't', 'Z', 'L', 'l'):
                    progs.append([f, (a, 2), (b, 1)])
    # context needs one more command: reflection after a curve that itself reflected / followed a closepath
    for f in firsts:
        for mid in (('C', 1), ('Q', 1), ('L', 1)):
            for z in ('Z', 'z'):
                for a in LETTERS:
                    progs.append([f, mid, (z, 1), (a, 1)])
    # a second sub-path that is closed straight after its moveto (and what follows): `M .. L .. M x y Z`
    for f in firsts:
        for mid in (('L', 1), ('C', 1), ('Q', 1), ('h', 1)):
            for mv in (('M', 1), ('m', 1), ('M', 2)):
                for z in ('Z', 'z'):
                    progs.append([f, mid, mv, (z, 1)])
                    for a in ('L', 'l', 't', 's', 'h'):
                        progs.append([f, mid, mv, (z, 1), (a, 1)])
    if tier == 'thorough':
        for f in firsts:
            for a in LETTERS:
                for b in LETTERS:
                    for c in LETTERS:
                        progs.append([f, (a, 1), (b, 1), (c, 1)])
    return progs


def run(ctx):
    mdl = ctx.model
    fi = mdl.func('path.Path._parse_path')
    ctx.assume('SVG 1.1 section 8.3 path data semantics as transcribed in checks/c02.py:svg_semantics (trusted oracle)')
    ctx.assume('the tokeniser delivers the command letters and numbers of a grammatical string in order (lexer rules R02.8 decide '
               'language-level necessary conditions only)')
    progs = programs(ctx.tier)
    ctx.rule('R02.1', 'for every command program (bounded length, symbolic numbers) the parsed segment list equals the SVG semantics: '
                      'abs/rel operands, implicit repetition, S/T reflection and fallback, closepath, zero-radius arcs', len(progs))
    ctx.rule('R02.2', 'dispatch tables: UPPERCASE == the ten SVG command letters (each exercised by R02.1), COMMANDS == upper+lower (sets of single letters), COMMAND_RE class == COMMANDS', 4)
    ctx.rule('R02.8', 'lexer: L(FLOAT_RE) == SVG number language; commands cannot occur inside numbers; arc operands are tokenised '
                      'with single-character flags for both A and a', 4)
    # ------------------------------------------------------------------ R02.1
    bad = []
    if len(progs) > 500 and (os.cpu_count() or 1) > 1:
        import multiprocessing as mp
        n = min(16 if ctx.tier == 'thorough' else 8, os.cpu_count() or 4)
        chunks = [progs[i::n] for i in range(n)]
        with mp.Pool(n) as pool:
            for cnt, out in pool.map(_worker, [(ctx.repo, c) for c in chunks]):
                bad.extend(out)
    else:
        for prog in progs:
            ok, d = run_program(mdl, prog)
            if ok is not True:
                bad.append((prog, ok, d))
    badset = {prog_text(p): (ok, d) for p, ok, d in bad}
    # one instance per program; violating programs are grouped by their last command (the transition that fails)
    reported = set()
    for prog in progs:
        t = prog_text(prog)
        if t in badset:
            ok, d = badset[t]
            # key by the shortest failing program with this final transition
            key = 'program ' + t
            tail = ' '.join(t.split()[-2:])
            if tail in reported:
                ctx.record('R02.1', fi.qualname, key, True, nontrivial=False, where=where(fi))   # same transition already reported
                continue
            reported.add(tail)
            ctx.record('R02.1', fi.qualname, key, ok, detail=d, where=where(fi), sample={'program': t})
        else:
            ctx.record('R02.1', fi.qualname, 'program ' + t, True, where=where(fi),
                       sample={'program': t} if len(prog) == 3 and prog[1][0] in 'Cc' and prog[2][0] in 'Ss' else None)
    ctx.extra['programs_explored'] = len(progs)
    ctx.exhaustive = True

    # ------------------------------------------------------------------ R02.2 exhaustiveness
    pm = mdl.module('path')
    kinds = {}

    def const_set(name):
        """value of a module constant that is used as the right operand of `in`"""
        from svtstatic.interp import Interp, Trace, Env
        e = pm.globals.get(name)
        if e is None:
            raise AnchorMissing('path.%s' % name)
        try:
            v = Interp(mdl, Trace([]), {}).eval(e, Env(module=pm))
        except Undecidable as ex:
            raise AnchorMissing('path.%s is not a constant collection (%s)' % (name, ex))
        kinds[name] = type(v).__name__
        if isinstance(v, (set, frozenset, tuple, list, str)):
            return set(v)
        raise AnchorMissing('path.%s is a %s' % (name, type(v).__name__))
    upper, commands = const_set('UPPERCASE'), const_set('COMMANDS')
    strs = [n for n, k in kinds.items() if k == 'str']
    ctx.record('R02.2', 'path', 'COMMANDS / UPPERCASE are collections of single letters (not str)', not strs,
               detail='' if not strs else '%s is a str: `x in %s` is a substring test, which accepts the empty chunk between two adjacent command '
               'letters (and multi-letter chunks) as a command' % (strs[0], strs[0]), where='svgpathtools/path.py')
    # that each of these letters HAS a handler with the right meaning is R02.1 (every letter occurs in the programs); here: the table
    # the dispatcher tests membership in is exactly the ten SVG commands (a letter missing from it is read as an implicit repetition)
    used = {c.upper() for prog in progs for c, _ in prog}
    ctx.record('R02.2', fi.qualname, 'UPPERCASE == the SVG command letters, all exercised by R02.1', upper == set(ARITY) and used >= set(ARITY),
               detail='UPPERCASE=%s exercised=%s' % (sorted(upper), sorted(used)), where=where(fi))
    ctx.record('R02.2', 'path', 'COMMANDS == UPPERCASE + lower case', commands == upper | {c.lower() for c in upper},
               detail='COMMANDS=%s' % sorted(commands), where='svgpathtools/path.py')
    cre = redfa.pattern_of(pm, 'COMMAND_RE')
    cls_ = redfa.single_char_class(cre)
    ctx.record('R02.2', 'path', 'COMMAND_RE character class == COMMANDS', cls_ == commands,
               detail='class=%s' % (sorted(cls_) if cls_ is not None else None), where='svgpathtools/path.py')

    # ------------------------------------------------------------------ R02.9 public entry points
    ctx.rule('R02.9', 'parse_path(s, pos) and Path(s, pos) hand the path data string UNCHANGED and the given start position to the parser '
                      '(one call), return a path holding exactly what it produced, and every call returns a fresh object', 3)
    samples = ['m 10,20 3,-4 L 5 5', 'M1 2', '  m1 2 3 4z', 'z', 'l 1 1', 'm0,0']
    POS = Rat.csym('POS')

    def entry_theorem(via):
        def th(it):
            seen = []
            made = []

            def pp(it2, a, k):
                self_, rest = a[0], a[1:]
                seen.append((rest[0] if rest else k.get('pathdef'), rest[1] if len(rest) > 1 else k.get('current_pos', 'DEFAULT')))
                mark = Opaque('segment-of-%d' % len(seen))
                mark.attrs['start'], mark.attrs['end'] = Rat.csym('S%d' % len(seen)), Rat.csym('E%d' % len(seen))
                made.append(mark)
                self_.attrs['_segments'].append(mark)
                return self_.attrs['_segments']
            it.call_hooks['path.Path._parse_path'] = pp
            out = []
            for sname in samples + samples[:2]:          # the first two once more: a second parse of the same string is a new parse
                for pos in (None, POS):
                    if via == 'parse_path':
                        args, kw = [sname], ({} if pos is None else {'current_pos': pos})
                        r = it.call(it.closure_of('parser.parse_path'), args, kw)
                    elif via == 'Path(s, pos)':
                        r = it.construct('path.Path', *([sname] if pos is None else [sname, pos]))
                    else:
                        r = it.construct('path.Path', sname, **({} if pos is None else {'current_pos': pos}))
                    out.append((sname, pos, r))
            return out, list(seen), list(made)
        return th

    def entry_judge(v):
        out, seen, made = v
        if len(seen) != len(out):
            return False, ('the parser is called %d times for %d requests (a repeated request is answered from a memo: both callers '
                           'share one mutable Path)' % (len(seen), len(out)))
        probs = []
        objs = []
        for i, ((sname, pos, r), (got_s, got_p)) in enumerate(zip(out, seen)):
            if not (isinstance(got_s, str) and got_s == sname):
                probs.append('the parser is given %r for the path data %r' % (got_s, sname))
            exp_p = Rat.const(0) if pos is None else pos
            if got_p == 'DEFAULT' or not to_rat(got_p).equals(exp_p):
                probs.append('the parser starts at %r instead of %s for %r' % (got_p, 'the given position' if pos is not None else '0', sname))
            if not (isinstance(r, Obj) and r.attrs.get('_segments') == [made[i]]):
                probs.append('the returned path does not hold what the parser produced for %r' % sname)
            if any(r is o for o in objs):
                probs.append('two calls return the same (mutable) Path object')
            objs.append(r)
        return not probs, '; '.join(sorted(set(probs))[:3])
    for via, q in (('parse_path', 'parser.parse_path'), ('Path(s, pos)', 'path.Path.__init__'), ('Path(s, current_pos=pos)', 'path.Path.__init__')):
        Obligation(ctx, 'R02.9').run(mdl.func(q), 'entry point %s' % via, entry_theorem(via), entry_judge)

    # ------------------------------------------------------------------ R02.8 lexer
    fre = redfa.pattern_of(pm, 'FLOAT_RE')
    d_float = redfa.compile_dfa(fre)
    svg_number = r'[+-]?(?:[0-9]*\.[0-9]+|[0-9]+)(?:[eE][+-]?[0-9]+)?'
    d_svg = redfa.compile_dfa(svg_number)
    eq, witness = redfa.equivalent(d_float, d_svg)
    ctx.record('R02.8', 'path', 'L(FLOAT_RE) == L(SVG 2 number)', eq, detail='' if eq else 'differs on %r' % witness,
               where='svgpathtools/path.py', sample={'FLOAT_RE': fre, 'reference': svg_number})
    alpha = redfa.alphabet(d_float)
    inter = alpha & commands
    ctx.record('R02.8', 'path', 'alphabet(FLOAT_RE) disjoint from COMMANDS', not inter,
               detail='' if not inter else 'a number may contain the command letter(s) %s: splitting on commands would cut it' % sorted(inter),
               where='svgpathtools/path.py')
    _arc_tokenising(ctx, mdl, pm, fre)


def _arc_tokenising(ctx, mdl, pm, fre):
    """context rule: flags are single characters, so the operand tokens of A/a must depend on the command"""
    ft = mdl.func('path.Path._tokenize_path')
    # (1) some branch of the tokeniser is control-dependent on the command being an arc, for BOTH cases of the letter
    arc_tests = []
    for n in ast.walk(ft.node):
        if isinstance(n, ast.Compare) and len(n.ops) == 1:
            consts = [c for c in ast.walk(n) if isinstance(c, ast.Constant) and isinstance(c.value, str)]
            vals = {c.value for c in consts}
            if vals & {'A', 'a'}:
                arc_tests.append((n, vals))
    covered = set()
    for n, vals in arc_tests:
        # `x.upper() == 'A'` / `x.lower() == 'a'` cover both cases
        txt = norm(n)
        if '.upper()' in txt and 'A' in vals or '.lower()' in txt and 'a' in vals:
            covered |= {'A', 'a'}
        covered |= vals & {'A', 'a'}
    ok = covered == {'A', 'a'}
    ctx.record('R02.8', ft.qualname, 'arc-aware tokenising covers {A, a}', ok,
               detail='' if ok else 'flag ::= "0"|"1" needs command-dependent tokenising for both A and a; the tokeniser tests %s' % sorted(covered),
               where=where(ft))
    # (2) the arc pattern: 3 numbers, 2 single-character flags, 2 numbers
    try:
        pat = redfa.pattern_of(pm, 'ARC_ARGS_RE', env={'FLOAT_RE.pattern': fre})
    except AnchorMissing:
        ctx.record('R02.8', 'path', 'arc argument pattern', False, detail='no ARC_ARGS_RE pattern', where='svgpathtools/path.py')
        return
    d = redfa.compile_dfa(pat)
    acc = ['1,1 0 01 10,10', '1 1 0 0 1 10 10', '1,1,0,1,1,10,10', '1 1 0 1110,10', '.5.5 0 00.5.5', '1e1 2 30 1 0-1-1']
    rej = ['1,1 0 2 1 10,10', '1,1 0 0', '1 1 0 0 1 5', '1 1 0 0 3 5 5']
    wrong = [s for s in acc if not redfa.accepts(d, s)] + ['!' + s for s in rej if redfa.accepts(d, s)]
    ctx.record('R02.8', 'path', 'arc argument pattern = num num num flag flag num num', not wrong,
               detail='' if not wrong else 'pattern misclassifies %s' % wrong, where='svgpathtools/path.py', sample={'pattern': pat[:120]})
    # (3) the tokeniser itself on concrete strings: every legal spelling of the same arcs (separators after the letter, between
    # the operands, flags run together with each other and with the next number, repeated operand groups) gives the same tokens
    spell = [('M0,0 A50 50 0 0 1 100 80', ['M', '0', '0', 'A', '50', '50', '0', '0', '1', '100', '80']),
             ('M0,0 A 50 50 0 01 100 80', ['M', '0', '0', 'A', '50', '50', '0', '0', '1', '100', '80']),
             ('M0,0A50,50,0,0,1,100,80', ['M', '0', '0', 'A', '50', '50', '0', '0', '1', '100', '80']),
             ('M0,0 A 50 50 0 01100 80', ['M', '0', '0', 'A', '50', '50', '0', '0', '1', '100', '80']),
             ('M0,0\nA\n50 50 0 0 1 100 80', ['M', '0', '0', 'A', '50', '50', '0', '0', '1', '100', '80']),
             ('M0,0 a 40 25 0 1060 0', ['M', '0', '0', 'a', '40', '25', '0', '1', '0', '60', '0']),
             ('M0,0 a40 25 0 10 60 0 , 40 25 0 01-60 0', ['M', '0', '0', 'a', '40', '25', '0', '1', '0', '60', '0', '40', '25', '0', '0', '1', '-60', '0']),
             ('M0,0 A 5 5 0 1 1 9 9 L 01 2', ['M', '0', '0', 'A', '5', '5', '0', '1', '1', '9', '9', 'L', '01', '2'])]
    bad = []
    und = None
    for text, want in spell:
        def th(it, text=text):
            p_ = it.new_obj('path.Path')
            return [x if isinstance(x, str) else str(x) for x in it.iterate(it.call_method(p_, '_tokenize_path', text))]
        try:
            for pth in explore(mdl, th, {'time_limit': 20}):
                if pth.raised is not None:
                    bad.append('%r: raises %s' % (text, pth.raised.exc_name))
                elif [t_ for t_ in pth.value if t_ not in ('', None)] != want:
                    bad.append('%r is tokenised as %s' % (text, pth.value))
        except Undecidable as e:
            und = str(e)
    if und and not bad:
        ctx.undecided('R02.8', ft.qualname, 'arc spellings tokenise alike', und, where=where(ft))
    else:
        ctx.record('R02.8', ft.qualname, 'arc spellings tokenise alike', not bad, detail='; '.join(bad[:3]), where=where(ft), sample={'spellings': len(spell)})
