"""C10 - translated/rotated/scaled/transform commute with point evaluation.

Decided: for Line/Quadratic/Cubic every operation maps the curve by one affine map (identity in
the control points, the operation's parameters and t); Arc field tables for translate / rotate /
uniform scale; non-uniform scale of an Arc always raises; joint welding covers every joint
including the closing one; the Path branches delegate to the same operation with the same
parameters; information-flow necessary conditions of the arc branch of transform().
Not decided: numerics of the arc branch of transform() (eigen-decomposition)."""
import ast
from svtstatic.cfg import walk_no_nested, enclosing_stmt
from svtstatic.values import Closure
from .common import *
from fractions import Fraction as Fr

PROPERTY = 'C10'
LEVEL = 'other'
BEZ = [('Line', 2), ('QuadraticBezier', 3), ('CubicBezier', 4)]
I = Rat.const(1j)


def run(ctx):
    mdl = ctx.model
    ctx.assume('ring semantics of arithmetic; exp(1j*x) = cos x + 1j sin x; numpy 3x3 matrices modelled exactly')
    ctx.assume('Arc geometry summarised by symbols (theta, delta, center): the tables compare constructor arguments')
    ctx.rule('R10.1', 'Bezier segments: op(seg, params).point(t) == affine_map(seg.point(t)) identically', 3 * 7)
    ctx.rule('R10.2', 'Arc tables for translate / rotate / uniform scale (end points mapped, radius, rotation, flags)', 4)
    ctx.rule('R10.3', 'scale() of an Arc with sy != sx raises on every path', 1)
    ctx.rule('R10.4', 'Path.joints pairs cyclically; transform_segments_together welds every coinciding joint (and only those); '
                      'the Path branch of each operation delegates to it with the same parameters', 7)
    ctx.rule('R10.5', 'arc branch of transform(): orientation depends on the whole linear part; the new rotation on both eigenvector '
                      'components; the new radii on the arc\'s own rotation (information-flow necessary conditions)', 3)
    ob = lambda r: Obligation(ctx, r)
    Z = Rat.csym('z')
    D = Rat.sym('deg')
    O = Rat.csym('o')
    SX, SY = Rat.sym('sx'), Rat.sym('sy')
    E = apply_fn('exp', I * D * PI / 180)
    tfs = {k: Rat.sym('m' + k) for k in 'abcdef'}
    TF = lambda: Arr([[tfs['a'], tfs['c'], tfs['e']], [tfs['b'], tfs['d'], tfs['f']], [Rat.const(0), Rat.const(0), Rat.const(1)]])

    def affine(pt):
        x, y = pt.real(), pt.imag()
        return (tfs['a'] * x + tfs['c'] * y + tfs['e']) + I * (tfs['b'] * x + tfs['d'] * y + tfs['f'])

    def scaled(pt, sx, sy, o):
        return sx * (pt.real() - o.real()) + I * sy * (pt.imag() - o.imag()) + o

    nonzero = lambda r: (r, '-+')
    for cname, n in BEZ:
        P = cpoints(n)
        B = bernstein(P, T)
        Bhalf = bernstein(P, Rat.const(Fr(1, 2)))
        cq = 'path.' + cname
        mk = lambda it, P=P, cq=cq: it.construct(cq, *P)
        cases = [
            ('translate', 'translate(%s, z)' % cname, lambda it, mk=mk: it.call(it.closure_of('path.translate'), [mk(it), Z], {}), B + Z, {}),
            ('rotate', 'rotate(%s, deg, origin=o)' % cname, lambda it, mk=mk: it.call(it.closure_of('path.rotate'), [mk(it), D], {'origin': O}),
             E * (B - O) + O, {'presign': [nonzero(O)]}),
            ('rotate', 'rotate(%s, deg, origin=0)' % cname, lambda it, mk=mk: it.call(it.closure_of('path.rotate'), [mk(it), D], {'origin': Rat.const(0)}),
             E * B, {}),
            ('rotate', 'rotate(%s, deg) default origin point(0.5)' % cname, lambda it, mk=mk: it.call(it.closure_of('path.rotate'), [mk(it), D], {}),
             E * (B - Bhalf) + Bhalf, {}),
            ('scale', 'scale(%s, sx)' % cname, lambda it, mk=mk: it.call(it.closure_of('path.scale'), [mk(it), SX], {}), SX * B, {}),
            ('scale', 'scale(%s, sx, sy, origin=o)' % cname, lambda it, mk=mk: it.call(it.closure_of('path.scale'), [mk(it), SX, SY, O], {}),
             scaled(B, SX, SY, O), {}),
            ('transform', 'transform(%s, M)' % cname, lambda it, mk=mk: it.call(it.closure_of('path.transform'), [mk(it), TF()], {}),
             affine(B), {'presign': [(tfs['a'] - 1, '-+')]}),
        ]
        for fname, construct, th, expected, opts in cases:
            f = mdl.func('path.' + fname)

            def th2(it, th=th):
                seg = th(it)
                return seg, it.call_method(seg, 'point', T)

            def judge(v, cname=cname, expected=expected):
                seg, pt = v
                if not isinstance(seg, Obj) or seg.cls.name != cname:
                    return False, 'result is %r, expected a %s' % (seg, cname)
                return decide_equal(pt, expected)
            ob('R10.1').run(f, construct, th2, judge, opts=opts, sample={'expected': short(expected, 100)})
        # the method wrappers forward their arguments
        for meth, fn, args, kw in (('translated', 'translate', [Z], {}), ('rotated', 'rotate', [D], {'origin': O}),
                                   ('scaled', 'scale', [SX], {'sy': SY, 'origin': O})):
            fm = mdl.func('%s.%s' % (cq, meth))

            def th3(it, mk=mk, meth=meth, fn=fn, args=args, kw=kw):
                a = it.call_method(it.call_method(mk(it), meth, *args, **kw), 'point', T)
                b = it.call_method(it.call(it.closure_of('path.' + fn), [mk(it)] + args, kw), 'point', T)
                return a, b
            ob('R10.1').run(fm, '%s.%s forwards to %s' % (cname, meth, fn), th3, lambda v: decide_equal(v[0], v[1]),
                            opts={'presign': [nonzero(O)]})

    # ---------------------------------------------------------------- wrappers hand every argument on unchanged (all five classes,
    # falsy values included: an explicit origin 0 is not "no origin", sy = 0 is not "sy not given")
    def mk_any(it, cname):
        if cname == 'Arc':
            return sym_arc(it, 'A', True, False)
        if cname == 'Path':
            return it.construct('path.Path', it.construct('path.Line', *cpoints(2, 'L')))
        return it.construct('path.' + cname, *cpoints(dict(BEZ)[cname]))
    ZERO = Rat.const(0)
    for cname in [c for c, _ in BEZ] + ['Arc', 'Path']:
        for meth, fn, args, kw, want in (
                ('rotated', 'rotate', [D], {'origin': ZERO}, {'degs': D, 'origin': ZERO}),
                ('rotated', 'rotate', [D], {}, {'degs': D, 'origin': None}),
                ('rotated', 'rotate', [D, O], {}, {'degs': D, 'origin': O}),
                ('translated', 'translate', [ZERO], {}, {'z0': ZERO}),
                ('scaled', 'scale', [SX], {'sy': ZERO}, {'sx': SX, 'sy': ZERO, 'origin': ZERO}),
                ('scaled', 'scale', [SX], {}, {'sx': SX, 'sy': None, 'origin': ZERO}),
                ('scaled', 'scale', [SX, SY, O], {}, {'sx': SX, 'sy': SY, 'origin': O})):
            fm = mdl.func('path.%s.%s' % (cname, meth))
            ffn = mdl.func('path.' + fn)
            got = {}

            def fhook(it, a, k, got=got, ffn=ffn):
                got['curve'] = a[0]
                got['args'] = bind_args(it, ffn, a, k, drop_self=False)
                return 'RESULT'

            def th_w(it, cname=cname, meth=meth, fn=fn, args=args, kw=kw, got=got, fhook=fhook):
                got.clear()
                seg = mk_any(it, cname)
                it.call_hooks['path.' + fn] = fhook
                r = it.call_method(seg, meth, *args, **kw)
                return r, seg, dict(got)

            def judge_w(v, want=want, ffn=ffn):
                r, seg, got = v
                if r != 'RESULT' or got.get('curve') is not seg:
                    return False, 'the wrapper does not return %s(self, ...)' % ffn.name
                names = ffn.params()[1:]
                for nm in names:
                    exp = want.get(nm)
                    have = got['args'].get(nm)
                    if exp is None:
                        if have is not None:
                            return False, 'argument %s arrives as %s although it was not given' % (nm, short(have, 30) if isinstance(have, Rat) else have)
                    elif have is None or not to_rat(have).equals(exp):
                        return False, 'argument %s = %s arrives as %s' % (nm, short(exp, 20), short(have, 30) if isinstance(have, Rat) else have)
                return True, ''
            ob('R10.1').run(fm, '%s.%s(%s) hands its arguments on unchanged' % (cname, meth, ', '.join([short(a_, 10) for a_ in args] + ['%s=%s' % (k_, short(v_, 10)) for k_, v_ in kw.items()])),
                            th_w, judge_w, allowed_raises=('AssertionError',), opts=arc_opts(mdl) if cname == 'Arc' else None)

    # ---------------------------------------------------------------- R10.2 / R10.3 Arc tables
    def arc_case(fn, args, kwargs, large=True, sweep=False):
        def th(it):
            a = sym_arc(it, 'A', large, sweep)
            it.call_hooks['path.Arc'] = ctor_record_hook(it.model, 'path.Arc')
            try:
                r = it.call(it.closure_of('path.' + fn), [a] + args, kwargs)
            finally:
                del it.call_hooks['path.Arc']
            return a, r
        return th

    def judge_arc(expect):
        def judge(v):
            a, r = v
            if not isinstance(r, Obj) or r.cls.name != 'Arc':
                return False, 'result is %r' % (r,)
            f = r.attrs
            exp = expect(a)
            probs = []
            for flag in ('large_arc', 'sweep'):
                if f.get(flag) is not a.attrs[flag]:
                    probs.append('%s=%r, expected %r' % (flag, f.get(flag), a.attrs[flag]))
            ok, d = decide_all_equal([(k, f[k], exp[k]) for k in ('start', 'end', 'radius', 'rotation')])
            if ok is not True:
                probs.append(d)
            if probs:
                return (False if ok is not None or len(probs) > 1 or ok is False else None), '; '.join(probs)
            return True, ''
        return judge
    A = lambda a, k: a.attrs[k]
    aopts = arc_opts(mdl, {'presign': [nonzero(O)]})
    ob('R10.2').run(mdl.func('path.translate'), 'translate(Arc, z) table', arc_case('translate', [Z], {}),
                    judge_arc(lambda a: {'start': A(a, 'start') + Z, 'end': A(a, 'end') + Z, 'radius': A(a, 'radius'), 'rotation': A(a, 'rotation')}),
                    allowed_raises=('AssertionError',), opts=aopts)
    ob('R10.2').run(mdl.func('path.rotate'), 'rotate(Arc, deg, origin=o) table', arc_case('rotate', [D], {'origin': O}),
                    judge_arc(lambda a: {'start': E * (A(a, 'start') - O) + O, 'end': E * (A(a, 'end') - O) + O,
                                         'radius': A(a, 'radius'), 'rotation': A(a, 'rotation') + D}),
                    allowed_raises=('AssertionError',), opts=aopts)
    ob('R10.2').run(mdl.func('path.rotate'), 'rotate(Arc, deg) default origin = center', arc_case('rotate', [D], {}),
                    judge_arc(lambda a: {'start': E * (A(a, 'start') - A(a, 'center')) + A(a, 'center'),
                                         'end': E * (A(a, 'end') - A(a, 'center')) + A(a, 'center'),
                                         'radius': A(a, 'radius'), 'rotation': A(a, 'rotation') + D}),
                    allowed_raises=('AssertionError',), opts=aopts)
    ob('R10.2').run(mdl.func('path.scale'), 'scale(Arc, sx, origin=o) table', arc_case('scale', [SX], {'origin': O}),
                    judge_arc(lambda a: {'start': SX * (A(a, 'start') - O) + O, 'end': SX * (A(a, 'end') - O) + O,
                                         'radius': SX * A(a, 'radius'), 'rotation': A(a, 'rotation')}),
                    allowed_raises=('AssertionError',), opts=aopts)

    def th_nonuni(it):
        a = sym_arc(it, 'A', True, False)
        it.call_hooks['path.Arc'] = ctor_record_hook(it.model, 'path.Arc')
        try:
            return it.call(it.closure_of('path.scale'), [a, SX, SY], {})
        finally:
            del it.call_hooks['path.Arc']
    expect_raise(ctx, 'R10.3', mdl.func('path.scale'), 'scale(Arc, sx, sy) with sy != sx', th_nonuni, ('Exception', 'ValueError', 'NotImplementedError'),
                 opts=arc_opts(mdl, {'presign': [(SX - SY, '-+')]}), ignore_conditions=('AssertionError',))

    # ---------------------------------------------------------------- R10.4 joints / welding
    fj = mdl.func('path.Path.joints')
    for n in (1, 2, 3):
        def th_j(it, n=n):
            segs = [it.construct('path.Line', Rat.csym('J%d' % k), Rat.csym('J%d' % (k + 1))) for k in range(n)]
            p = it.construct('path.Path', *segs)
            return segs, it.iterate(it.call_method(p, 'joints'))

        def judge_j(v, n=n):
            segs, pairs = v
            exp = [(segs[k], segs[(k + 1) % n]) for k in range(n)]
            got = [tuple(p) for p in pairs]
            ok = len(got) == len(exp) and all(a is x and b is y for (a, b), (x, y) in zip(got, exp))
            return ok, '' if ok else 'joints() of %d segments yields %d pair(s); expected the cyclic pairing (s_k, s_k+1 mod n)' % (n, len(got))
        ob('R10.4').run(fj, 'Path.joints() of %d segment(s) is the cyclic pairing' % n, th_j, judge_j)

    fw = mdl.func('path.transform_segments_together')
    for closed in (True, False):
        def th_w(it, closed=closed):
            n = 3
            V = [Rat.csym('V%d' % k) for k in range(n + 1)]
            ends = [V[1], V[2], V[0] if closed else V[3]]
            segs = [it.construct('path.Line', V[k], ends[k]) for k in range(n)]
            p = it.construct('path.Path', *segs)
            fresh = {}

            def tr(it2, args, kwargs):
                seg = args[0]
                k = [i for i, s in enumerate(segs) if s is seg][0]
                fresh[k] = it2.construct('path.Line', Rat.csym('A%d' % k), Rat.csym('B%d' % k))
                return fresh[k]
            it.ext_hooks['__tr__'] = tr
            from svtstatic.values import ExtRef
            r = it.call(it.closure_of('path.transform_segments_together'), [p, ExtRef('__tr__')], {})
            out = it.iterate(r)
            return [(s.attrs['start'], s.attrs['end']) for s in out]

        def judge_w(v, closed=closed):
            n = 3
            if len(v) != n:
                return False, 'result has %d segments' % len(v)
            pairs = []
            for k in range(n):
                nxt = (k + 1) % n
                if k < n - 1 or closed:
                    pairs.append(('joint %d->%d welded' % (k, nxt), v[k][1], v[nxt][0]))
                else:
                    pairs.append(('open end untouched', v[k][1], Rat.csym('B%d' % k)))
                pairs.append(('start %d untouched' % k, v[k][0], Rat.csym('A%d' % k)))
            return decide_all_equal(pairs)
        ob('R10.4').run(fw, 'transform_segments_together on a %s 3-segment path' % ('closed' if closed else 'open'), th_w, judge_w,
                        opts={'presign': [(Rat.csym('V3') - Rat.csym('V0'), '-+')]})

    # Path branches delegate with the same parameters
    for fn, args, kwargs in (('translate', [Z], {}), ('rotate', [D], {'origin': O}), ('scale', [SX, SY, O], {}), ('transform', [None], {})):
        f = mdl.func('path.' + fn)

        def th_d(it, fn=fn, args=args, kwargs=kwargs):
            args = [TF() if a is None else a for a in args]
            seg = it.construct('path.CubicBezier', *cpoints(4))
            p = it.construct('path.Path', seg)
            got = {}

            def hook(it2, a2, k2):
                got['path'] = a2[0]
                got['mapped'] = it2.call(a2[1], [seg], {})
                return 'WELDED'
            it.call_hooks['path.transform_segments_together'] = hook
            try:
                r = it.call(it.closure_of('path.' + fn), [p] + args, kwargs)
            finally:
                del it.call_hooks['path.transform_segments_together']
            direct = it.call(it.closure_of('path.' + fn), [seg] + args, kwargs)
            return r, got, p, it.call_method(direct, 'point', T)

        def judge_d(v):
            r, got, p, direct = v
            if r != 'WELDED' or got.get('path') is not p:
                return False, 'Path branch does not return transform_segments_together(curve, ...)'
            m = got['mapped']
            if not isinstance(m, Obj):
                return False, 'segment transformation returns %r' % (m,)
            return decide_equal(_pt(m), direct)

        def _pt(m):
            P = [m.attrs[k] for k in ('start', 'control', 'control1', 'control2', 'end') if k in m.attrs]
            return bernstein(P, T)
        ob('R10.4').run(f, '%s(Path, ...) delegates per segment with the same parameters' % fn, th_d, judge_d,
                        opts={'presign': [nonzero(O), (tfs['a'] - 1, '-+')]})

    # default origin of rotate(Path): the whole path's point(0.5), the same for every segment (not each segment's own midpoint)
    def th_po(it):
        s0 = it.construct('path.Line', Rat.const(0), Rat.const(3))
        s1 = it.construct('path.Line', Rat.const(3), Rat.const(3) + I)
        p = it.construct('path.Path', s0, s1)
        got = {}

        def hook(it2, a2, k2):
            got['mapped'] = [it2.call(a2[1], [s], {}) for s in (s0, s1)]
            return 'WELDED'
        it.call_hooks['path.transform_segments_together'] = hook
        try:
            it.call(it.closure_of('path.rotate'), [p, D], {})
        finally:
            del it.call_hooks['path.transform_segments_together']
        return got

    def judge_po(got):
        m = got.get('mapped')
        if not m or not all(isinstance(x, Obj) for x in m):
            return False, 'Path branch does not map the segments through transform_segments_together'
        c = Rat.const(2)        # lengths 3 and 1: half of the arc length is at 2 on the first segment
        pairs = []
        for k, (a, b) in enumerate(((Rat.const(0), Rat.const(3)), (Rat.const(3), Rat.const(3) + I))):
            pairs.append(('segment %d start' % k, m[k].attrs['start'], E * (a - c) + c))
            pairs.append(('segment %d end' % k, m[k].attrs['end'], E * (b - c) + c))
        return decide_all_equal(pairs)
    ob('R10.4').run(mdl.func('path.rotate'), 'rotate(Path, deg) default origin = path.point(0.5) for every segment', th_po, judge_po)

    # ---------------------------------------------------------------- R10.5 information flow in the arc branch
    _arc_branch_flow(ctx, mdl.func('path.transform'))


def _defs_in(fn):
    d = {}
    for n in walk_no_nested(fn):
        if isinstance(n, ast.Assign):
            for t in n.targets:
                for x in ast.walk(t):
                    if isinstance(x, ast.Name) and isinstance(x.ctx, ast.Store):
                        d.setdefault(x.id, []).append(n.value)
    return d


def _slice_exprs(fn, expr, defs, seen=None):
    """all expressions the value of `expr` may depend on through local definitions (backward slice)"""
    seen = seen if seen is not None else set()
    out = [expr]
    for x in ast.walk(expr):
        if isinstance(x, ast.Name) and x.id in defs and x.id not in seen:
            seen.add(x.id)
            for v in defs[x.id]:
                out += _slice_exprs(fn, v, defs, seen)
    return out


def _tf_entries(exprs, tfname):
    got = set()
    for e in exprs:
        for x in ast.walk(e):
            if isinstance(x, ast.Subscript):
                txt = norm(x)
                for i in (0, 1):
                    for j in (0, 1):
                        if txt in ('%s[%d][%d]' % (tfname, i, j), '%s[%d, %d]' % (tfname, i, j)):
                            got.add((i, j))
                if txt.replace(' ', '') in ('%s[:2,:2]' % tfname, '%s[0:2,0:2]' % tfname):
                    got |= {(0, 0), (0, 1), (1, 0), (1, 1)}
    return got


def _find_arc_branch(ctx, fi):
    """the function that holds transform()'s Arc branch: transform itself, or a helper it reaches through calls / dispatch tables"""
    mod = fi.module
    seen, todo = set(), [fi.node]
    order = []
    while todo and len(seen) < 60:
        node = todo.pop(0)
        for x in ast.walk(node):
            if isinstance(x, ast.Name) and isinstance(x.ctx, ast.Load) and x.id not in seen:
                if x.id in mod.functions and mod.functions[x.id] is not fi:
                    seen.add(x.id)
                    order.append(mod.functions[x.id])
                    todo.append(mod.functions[x.id].node)
                elif x.id in mod.globals and x.id.startswith('_'):
                    seen.add(x.id)
                    todo.append(mod.globals[x.id])
    for f in order:
        if len(f.params()) >= 2 and any(isinstance(c, ast.Call) and call_name(c) == 'Arc' for c in walk_no_nested(f.node)) and \
                any(isinstance(c, ast.Call) and 'eig' in call_name(c) for c in walk_no_nested(f.node)):
            return f
    return None


def _arc_branch_flow(ctx, fi):
    fn = fi.node
    tfname = fi.params()[1]
    # the Arc(...) construction in the arc branch
    arcs = [c for c in walk_no_nested(fn) if isinstance(c, ast.Call) and call_name(c) == 'Arc']
    holder = fi
    if not arcs:
        holder = _find_arc_branch(ctx, fi)
        if holder is None:
            raise AnchorMissing('Arc(...) construction in path.transform (or in a helper it dispatches to)')
        fn = holder.node
        tfname = holder.params()[1]
        arcs = [c for c in walk_no_nested(fn) if isinstance(c, ast.Call) and call_name(c) == 'Arc']
    defs = _defs_in(fn)
    call = arcs[-1]
    kw = {k.arg: k.value for k in call.keywords}
    pos = list(call.args)
    names = ['start', 'radius', 'rotation', 'large_arc', 'sweep', 'end']
    argmap = dict(zip(names, pos))
    argmap.update(kw)
    # (a) sweep: the controlling tests + value
    sweep_exprs = _slice_exprs(fn, argmap['sweep'], defs)
    for n in walk_no_nested(fn):
        if isinstance(n, ast.If) and any(isinstance(s, ast.Assign) and any(isinstance(t, ast.Name) and t.id == norm(argmap['sweep']) for t in s.targets)
                                         for b in (n.body, n.orelse) for s in b):
            sweep_exprs += _slice_exprs(fn, n.test, defs)
    ent = _tf_entries(sweep_exprs, tfname)
    full = {(0, 0), (0, 1), (1, 0), (1, 1)}
    ctx.record('R10.5', fi.qualname, 'sweep depends on tf entries %s' % sorted(ent), ent == full,
               detail='' if ent == full else 'orientation is the sign of the determinant of tf[:2,:2]; the sweep decision reads only %s' % sorted(ent),
               where=where(holder, call))
    # (b) rotation: must read both components of an eigenvector
    rot_exprs = _slice_exprs(fn, argmap['rotation'], defs)
    comps = set()
    for e in rot_exprs:
        for x in ast.walk(e):
            if isinstance(x, ast.Subscript) and isinstance(x.value, ast.Name) and isinstance(x.slice, ast.Constant) \
                    and isinstance(x.slice.value, int) and any('eig' in norm(v) for v in defs.get(x.value.id, [])):
                comps.add(x.slice.value)
        if any(isinstance(x, ast.Call) and call_name(x) in ('arctan2', 'atan2', 'angle', 'phase') for x in ast.walk(e)):
            comps |= {0, 1}
    ctx.record('R10.5', fi.qualname, 'rotation depends on eigenvector components %s' % sorted(comps), comps >= {0, 1},
               detail='' if comps >= {0, 1} else 'the axis angle is taken from one component through an even function (arccos): its sign is lost',
               where=where(holder, call))
    # (c) radii must depend on curve.rotation
    rad_exprs = _slice_exprs(fn, argmap['radius'], defs)
    dep = any(isinstance(x, ast.Attribute) and x.attr in ('rotation', 'phi', 'rot_matrix') for e in rad_exprs for x in ast.walk(e))
    ctx.record('R10.5', fi.qualname, 'radius depends on curve.rotation=%s' % dep, dep,
               detail='' if dep else "the quadratic form of the transformed ellipse ignores the ellipse's own rotation",
               where=where(holder, call))
