"""C14 - area() is the signed enclosed area; enclosure tests agree with crossing parity (thin).

Decided: area_without_arcs sums a Green's-theorem area form over the segments (identity on a
symbolic closed Line+Quadratic+Cubic path: any valid form gives the same polynomial because the
boundary terms telescope); arcs are replaced by the chord polyline of seg2lines before
integrating and seg2lines chains chords through point(k/n); path_encloses_pt is the parity of the
crossings of Path(Line(pt, opt)) with the path; is_contained_by = no crossing and start inside the
bbox and enclosure with a probe end strictly outside the bbox; closedness is asserted.
Not decided: numeric exactness, crossing counts (C12), chord error of arcs."""
import ast
from fractions import Fraction as Fr
from svtstatic import poly
from svtstatic.values import ExtRef
from .common import *

PROPERTY = 'C14'
LEVEL = 'other'
I = Rat.const(1j)


def green_xdy(P):
    """integral over [0,1] of x(t) y'(t) dt for the Bezier curve with control points P (computed by the checker)"""
    B = bernstein(P, T)
    x, dy = B.real(), B.imag().diff('t')
    f = (x * dy).num          # polynomial in t
    tot = Rat.const(0)
    for m, c in f.t.items():
        d = dict(m)
        k = d.pop('t', 0)
        rest = Rat(Poly({tuple(sorted(d.items())): c}))
        tot = tot + rest / (k + 1)
    return tot


def run(ctx):
    mdl = ctx.model
    ctx.assume("Green's theorem: the signed area of a closed curve is the integral of x dy (counter-clockwise positive)")
    ctx.rule('R14.1', 'area of a closed Line+Quadratic+Cubic path == sum of the integrals of x dy (any Green form, boundary terms telescope)', 1)
    ctx.rule('R14.2', 'Arc segments are replaced by seg2lines(seg) before integrating; seg2lines chains chords through point(k/n) from start to end', 2)
    ctx.rule('R14.3', 'path_encloses_pt: asserts closedness; result == parity of len(Path(Line(pt,opt)).intersect(path))', 1)
    ctx.rule('R14.4', 'is_contained_by: False on any crossing; False when the start is outside the bbox; else path_encloses_pt(start, opt, other) '
                      'with opt strictly outside the bbox', 1)
    ob = lambda r: Obligation(ctx, r)
    fa = mdl.func('path.Path.area')
    V = [Rat.csym('V%d' % k) for k in range(3)]
    Q1 = Rat.csym('q')
    C1, C2 = Rat.csym('c1'), Rat.csym('c2')

    def th1(it):
        segs = [it.construct('path.Line', V[0], V[1]), it.construct('path.QuadraticBezier', V[1], Q1, V[2]),
                it.construct('path.CubicBezier', V[2], C1, C2, V[0])]
        p = it.construct('path.Path', *segs)
        return it.call_method(p, 'area')
    expected = green_xdy([V[0], V[1]]) + green_xdy([V[1], Q1, V[2]]) + green_xdy([V[2], C1, C2, V[0]])
    ob('R14.1').run(fa, 'area(Line + Quadratic + Cubic, closed) == sum of the integrals of x dy', th1,
                    lambda v: decide_equal(v, expected), allowed_raises=('AssertionError',),
                    opts={'presign': [(V[0], '-+')]})

    # ---------------------------------------------------------------- R14.2
    def th2(it):
        arc = sym_arc(it, 'A', False, True)
        M = Rat.csym('M')
        close = it.construct('path.Line', arc.attrs['end'], arc.attrs['start'])
        p = it.construct('path.Path', arc, close)
        got = {}

        def s2l(it2, a, k):
            got['arg'] = a[0]
            return [it2.construct('path.Line', arc.attrs['start'], M), it2.construct('path.Line', M, arc.attrs['end'])]
        it.call_hooks['<locals>.seg2lines'] = s2l
        r = it.call_method(p, 'area')
        return r, got, arc, M

    def judge2(v):
        r, got, arc, M = v
        if got.get('arg') is not arc:
            return False, 'the Arc segment is not handed to seg2lines'
        s, e = arc.attrs['start'], arc.attrs['end']
        return decide_equal(r, green_xdy([s, M]) + green_xdy([M, e]) + green_xdy([e, s]))
    ob('R14.2').run(fa, 'area(Arc + closing Line): the arc is integrated as its chord polyline', th2, judge2,
                    allowed_raises=('AssertionError',), opts=arc_opts(mdl, {'presign': [(Rat.csym('A.start'), '-+')]}))

    def th2b(it, NCH=3):
        arc = sym_arc(it, 'A', False, True)
        close = it.construct('path.Line', arc.attrs['end'], arc.attrs['start'])
        p = it.construct('path.Path', arc, close)
        out = {}
        it.call_hooks['path.Arc.length'] = lambda it2, a, k: Rat.sym('ALEN')
        it.ext_hooks['numpy.ceil'] = lambda it2, a, k: NCH          # NCH chords (1: an arc no longer than one chord still contributes its chord)
        it.ext_hooks['numpy.linspace'] = lambda it2, a, k: out.update(ls=a) or [Rat.const(Fr(i, NCH)) for i in range(NCH + 1)]
        it.call_hooks['path.Arc.point'] = lambda it2, a, k: Rat.csym('PT_%s' % to_rat(a[1]).key().replace('/', '_'))

        def awa(it2, a, k):
            out['segs'] = [(s.attrs['start'], s.attrs['end']) for s in it2.iterate(a[0])]
            return Rat.sym('AREA')
        it.call_hooks['<locals>.area_without_arcs'] = awa
        it.call_method(p, 'area')
        return out, arc

    def judge2b(v, NCH=3):
        out, arc = v
        segs = out.get('segs')
        if not segs or len(segs) != NCH + 1:
            return False, 'expected %d chord(s) + the closing line, got %r segments' % (NCH, segs and len(segs))
        ls = out.get('ls')
        pairs = []
        if ls is not None:
            pairs += [('linspace from', ls[0], 0), ('linspace to', ls[1], 1), ('linspace count', ls[2], NCH + 1)]
        pts = [Rat.csym('PT_%s' % Rat.const(Fr(i, NCH)).key().replace('/', '_')) for i in range(NCH + 1)]
        for i in range(NCH):
            pairs += [('chord %d start' % i, segs[i][0], pts[i]), ('chord %d end' % i, segs[i][1], pts[i + 1])]
        return decide_all_equal(pairs)
    for NCH_ in ((1, 2, 3, 5) if ctx.tier == 'thorough' else (1, 2, 3)):
        ob('R14.2').run(fa, 'seg2lines: n chords through point(k/n), k = 0..n (n = %d)' % NCH_, lambda it, n_=NCH_: th2b(it, n_),
                        lambda v, n_=NCH_: judge2b(v, n_), allowed_raises=('AssertionError',),
                        opts=arc_opts(mdl, {'presign': [(Rat.csym('A.start'), '-+')]}))

    # ---------------------------------------------------------------- R14.3
    fe = mdl.func('path.path_encloses_pt')
    bad = []
    structure = []
    for k in range(0, 10 if ctx.tier == 'thorough' else 5):
        def th3(it, k=k):
            path = Opaque('closedpath')
            path.attrs['isclosed'] = ExtRef('__isclosed__')
            asserted = []
            it.ext_hooks['__isclosed__'] = lambda it2, a, kw: asserted.append(1) or True
            seen = {}

            def pint(it2, a, kw):
                seen['recv'] = a[0]
                seen['arg'] = a[1]
                return [('x',)] * k
            it.call_hooks['path.Path.intersect'] = pint
            r = it.truth(it.call(it.closure_of('path.path_encloses_pt'), [Rat.csym('pt'), Rat.csym('opt'), path], {}))
            probe = seen.get('recv')
            segs = it.iterate(probe) if probe is not None else []
            return r, bool(asserted), seen.get('arg') is path, [(s.attrs['start'], s.attrs['end']) for s in segs]
        try:
            for p in explore(ctx.model, th3, {}):
                if p.raised is not None:
                    bad.append('raises %s' % p.raised.exc_name)
                    continue
                r, asserted, argok, segs = p.value
                if bool(r) != (k % 2 == 1):
                    bad.append('%d crossings -> %r' % (k, r))
                if not asserted:
                    structure.append('closedness is not asserted')
                if not argok or len(segs) != 1 or not (to_rat(segs[0][0]).equals(Rat.csym('pt')) and to_rat(segs[0][1]).equals(Rat.csym('opt'))):
                    structure.append('the probe is not Path(Line(pt, opt)).intersect(path)')
        except Undecidable as e:
            bad.append('outside the fragment: %s' % e)
    probs = sorted(set(bad + structure))
    ctx.record('R14.3', fe.qualname, 'parity table for 0..4 crossings', not probs, detail='; '.join(probs[:3]), where=where(fe))

    # ---------------------------------------------------------------- R14.4
    fc = mdl.func('path.Path.is_contained_by')
    X0, X1, Y0, Y1 = [Rat.sym(n) for n in ('bx0', 'bx1', 'by0', 'by1')]
    PT = Rat.csym('start')

    def th4(it, crossing):
        me = it.construct('path.Path', it.construct('path.Line', PT, Rat.csym('e1')))
        other = it.construct('path.Path', it.construct('path.Line', Rat.csym('o0'), Rat.csym('o1')))
        it.call_hooks['path.Path.isclosed'] = lambda it2, a, k: True
        it.call_hooks['path.Path.__eq__'] = lambda it2, a, k: False
        it.call_hooks['path.Path.__ne__'] = lambda it2, a, k: True
        it.call_hooks['path.Path.intersect'] = lambda it2, a, k: ([('x',)] if crossing else [])
        it.call_hooks['path.Path.bbox'] = lambda it2, a, k: (X0, X1, Y0, Y1)
        it.call_hooks['path.Path.point'] = lambda it2, a, k: PT
        got = {}
        it.call_hooks['path.path_encloses_pt'] = lambda it2, a, k: got.update(a=a) or 'ENCL'
        r = it.call_method(me, 'is_contained_by', other)
        inside = [path_sign(it, PT.real() - X0), path_sign(it, PT.real() - X1), path_sign(it, PT.imag() - Y0), path_sign(it, PT.imag() - Y1)]
        return r, got, other, inside
    probs = []
    try:
        for crossing in (True, False):
            for p in explore(ctx.model, lambda it: th4(it, crossing), {'presign': [(PT, '-+')]}):
                if p.raised is not None:
                    if p.raised.exc_name != 'AssertionError':
                        probs.append('raises %s' % p.raised.exc_name)
                    continue
                r, got, other, ins = p.value
                if crossing:
                    if r is not False:
                        probs.append('returns %r although the paths cross' % (r,))
                    continue
                is_in = ins[0] <= frozenset('0+') and ins[1] <= frozenset('-0') and ins[2] <= frozenset('0+') and ins[3] <= frozenset('-0')
                is_out = ins[0] == frozenset('-') or ins[1] == frozenset('+') or ins[2] == frozenset('-') or ins[3] == frozenset('+')
                if is_out:
                    if r is not False:
                        probs.append('start outside the bbox but result %r' % (r,))
                elif is_in:
                    a = got.get('a')
                    if r != 'ENCL' or a is None:
                        probs.append('start inside the bbox: result must be path_encloses_pt(...)')
                    else:
                        opt = to_rat(a[1])
                        if not (to_rat(a[0]).equals(PT) and a[2] is other):
                            probs.append('path_encloses_pt is not given (start point, opt, other)')
                        dx, dy = X0 - opt.real(), Y0 - opt.imag()
                        fx, fy = dx.as_fraction(), dy.as_fraction()
                        if not (fx is not None and fx > 0 or fy is not None and fy > 0):
                            probs.append('the probe end %s is not strictly outside the bbox' % short(opt, 40))
                else:
                    probs.append('the bbox test is not a closed containment test (%s)' % [sorted(x) for x in ins])
    except Undecidable as e:
        ctx.undecided('R14.4', fc.qualname, 'structure', str(e), where=where(fc))
        return
    ctx.record('R14.4', fc.qualname, 'crossing / bbox / enclosure structure', not probs, detail='; '.join(sorted(set(probs))[:3]), where=where(fc))
