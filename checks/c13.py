"""C13 - radialrange / closest / farthest point return the global extremes of distance.

Decided: bezier_radialrange evaluates the distance at {0,1} and at the roots of d/dt|B(t)-z|^2
(the polynomial handed to the root finder is that derivative, for quadratics and cubics) and
selects by distance; Line.radialrange's closed form is the critical point and its 4-way decision
table is the clamp / farther-end table; Path.radialrange is a correct arg-min / arg-max fold over
every weak ordering of three segments' extremes; closest/farthest pick the right slot.
Not decided: that the numeric root finder returns all roots (C19/F10 class)."""
import ast, itertools
from fractions import Fraction as Fr
from svtstatic import poly
from .common import *

PROPERTY = 'C13'
LEVEL = 'other'
I = Rat.const(1j)
Z = Rat.csym('z')
CURRENT_IT = [None]


def run(ctx):
    mdl = ctx.model
    ctx.assume('polyroots01 returns the real roots in [0,1] of the polynomial it is given (C19 decides its structure, numpy its numerics)')
    ctx.rule('R13.1', 'bezier_radialrange: polynomial == d/dt |B(t)-z|^2; candidates {0, 1} + roots; (distance, t) pairs; min/max by distance; '
                      'also for query points level with / straight above the start point (a coordinate polynomial with a vanishing constant term)', 6)
    ctx.rule('R13.2', 'Line.radialrange: the closed-form t is the critical point of |p0 + t d - z|^2; decision table = clamp / farther end', 1)
    ctx.rule('R13.3', 'Path.radialrange: arg-min / arg-max fold is correct on every weak ordering of three segments (values touched only through '
                      'comparisons) and appends the index of the same iteration', 1)
    ctx.rule('R13.4', 'closest_point_in_path -> radialrange(pt)[0]; farthest_point_in_path -> radialrange(pt)[1]; on concrete rational paths both return the global extremum with its segment index, for every segment order', 12)
    ob = lambda r: Obligation(ctx, r)

    # ---------------------------------------------------------------- R13.1
    fr = mdl.func('path.bezier_radialrange')
    for cname, n, zkind in [(c, n, zk) for c, n in (('QuadraticBezier', 3), ('CubicBezier', 4)) for zk in ('general', 'level with the start', 'above the start')]:
        seen = {}
        P0_ = cpoints(n)[0]
        Zq = {'general': Z, 'level with the start': Rat.sym('zr') + I * P0_.imag(), 'above the start': P0_.real() + I * Rat.sym('zi')}[zkind]

        def pr01(it, a, k, seen=seen):
            seen['poly'] = a[0]
            return [Rat.sym('rho')]

        def th(it, cname=cname, n=n, seen=seen, Zq=Zq):
            seen.clear()
            CURRENT_IT[0] = it
            P = cpoints(n)
            seg = it.construct('path.' + cname, *P)
            r = it.call_method(seg, 'radialrange', Zq)
            return r, dict(seen), P, it

        def judge(v, Z=Zq):
            r, seen, P, it = v
            B = lambda x: bernstein(P, x)
            probs = []
            p = seen.get('poly')
            if not isinstance(p, PolyT):
                return False, 'polyroots01 is not given a poly1d'
            w = B(T) - Z
            ok, d = decide_equal(p(T), (w.real() ** 2 + w.imag() ** 2).diff('t'))
            if ok is not True:
                probs.append('polynomial is not d/dt |B(t)-z|^2: ' + d)
            try:
                (dmin, tmin), (dmax, tmax) = r
            except (TypeError, ValueError):
                return False, 'result is not ((dmin, tmin), (dmax, tmax))'
            cands = [(apply_fn('abs', B(t_) - Z), to_rat(t_)) for t_ in (Rat.const(0), Rat.const(1), Rat.sym('rho'))]
            # what the path knows about the order of the candidate distances, closed under transitivity
            nC = len(cands)
            leq = [[i_ == j_ or path_sign(it, cands[i_][0] - cands[j_][0]) <= frozenset('-0') for j_ in range(nC)] for i_ in range(nC)]
            for k_ in range(nC):
                for i_ in range(nC):
                    for j_ in range(nC):
                        leq[i_][j_] = leq[i_][j_] or (leq[i_][k_] and leq[k_][j_])
            for which, dd, tt in (('minimum', dmin, tmin), ('maximum', dmax, tmax)):
                dd, tt = to_rat(dd), to_rat(tt)
                idx = [i_ for i_, (cd, ct) in enumerate(cands) if tt.equals(ct)]
                if not idx or not dd.equals(cands[idx[0]][0]):
                    probs.append('the %s is not a pair (|B(t)-z|, t) with t in {0, 1, roots}' % which)
                    continue
                for j_, (cd, ct) in enumerate(cands):
                    if j_ == idx[0]:
                        continue
                    known = leq[idx[0]][j_] if which == 'minimum' else leq[j_][idx[0]]
                    if not known:
                        probs.append('the %s is taken at t=%s on a path that does not know its distance to be %s that at t=%s (candidates are not compared by distance)'
                                     % (which, short(tt, 8), 'at most' if which == 'minimum' else 'at least', short(ct, 8)))
            return not probs, '; '.join(sorted(set(probs))[:3])
        ob('R13.1').run(fr, '%s.radialrange(z) via bezier_radialrange, z %s' % (cname, zkind), th, judge,
                        opts={'call_hooks': {'polytools.polyroots01': pr01}})

    # ---------------------------------------------------------------- R13.2
    fl = mdl.func('path.Line.radialrange')
    P = cpoints(2)

    def th2(it):
        seg = it.construct('path.Line', *P)
        r = it.call_method(seg, 'radialrange', Z)
        d = P[1] - P[0]
        tstar = ((Z - P[0]) * d.conj()).real() / (d * d.conj()).real()
        d0, d1 = apply_fn('abs', P[0] - Z), apply_fn('abs', P[1] - Z)
        return r, path_sign(it, tstar), path_sign(it, tstar - 1), path_sign(it, d0 - d1), tstar, d0, d1

    def judge2(v):
        r, s0, s1, sd, tstar, d0, d1 = v
        (dmin, tmin), (dmax, tmax) = r
        inside = s0 == frozenset('+') and s1 == frozenset('-')
        outside = s0 <= frozenset('-0') or s1 <= frozenset('0+')
        if not (inside or outside):
            return False, 'the path does not decide whether the critical parameter lies in (0,1): the closed-form t is not %s' % short(tstar, 80)
        if sd not in (frozenset('-'), frozenset('0+'), frozenset('+'), frozenset('-0'), frozenset('0')):
            return False, 'the path does not compare the end-point distances'
        zero_closer = sd <= frozenset('-')        # d0 < d1
        far = (d1, 1) if zero_closer else (d0, 0)
        pairs = [('dmax', dmax, far[0]), ('tmax', tmax, far[1])]
        if inside:
            pairs += [('tmin', tmin, tstar), ('dmin', dmin, apply_fn('abs', P[0] + tstar * (P[1] - P[0]) - Z))]
        else:
            near = (d0, 0) if zero_closer else (d1, 1)
            pairs += [('dmin', dmin, near[0]), ('tmin', tmin, near[1])]
        return decide_all_equal(pairs)
    ob('R13.2').run(fl, 'Line.radialrange(z): critical point and decision table', th2, judge2)

    # ---------------------------------------------------------------- R13.3 fold over all weak orderings
    fp = mdl.func('path.Path.radialrange')
    NSEG = 4 if ctx.tier == 'thorough' else 3
    vals = [Fr(0), Fr(1), Fr(2)] + ([Fr(3)] if NSEG == 4 else [])
    cases = list(itertools.product(vals, repeat=NSEG))
    if NSEG == 4:
        # every weak ordering of 4 values is realised by a tuple over {0,1,2,3}; drop tuples that skip a rank (same ordering as a smaller one)
        cases = [c for c in cases if set(c) == set(range(len(set(c))))]
    bad = []
    und = None
    for mins in cases:
        for maxs in (tuple(m + 5 for m in mins), tuple(7 - m for m in mins)):
            def th3(it, mins=mins, maxs=maxs):
                segs = [it.construct('path.Line', Rat.csym('A%d' % k), Rat.csym('B%d' % k)) for k in range(NSEG)]
                table = {id(s): ((mins[k], Fr(k + 1, 10)), (maxs[k], Fr(k + 1, 20))) for k, s in enumerate(segs)}
                it.call_hooks['path.Line.radialrange'] = lambda it2, a, kw: table[id(a[0])]
                p = it.construct('path.Path', *segs)
                return it.call_method(p, 'radialrange', Z)
            try:
                paths = explore(ctx.model, th3, {})
            except Undecidable as e:
                und = str(e)
                break
            for pth in paths:
                if pth.raised is not None:
                    bad.append('raises %s for minima %s' % (pth.raised.exc_name, mins))
                    continue
                gmin, gmax = pth.value
                km = [k for k in range(NSEG) if mins[k] == min(mins)]
                kx = [k for k in range(NSEG) if maxs[k] == max(maxs)]
                if not (len(gmin) == 3 and gmin[2] in km and concrete_number_eq(gmin[0], min(mins)) and concrete_number_eq(gmin[1], Fr(gmin[2] + 1, 10))):
                    bad.append('minima %s -> %r' % (tuple(map(str, mins)), gmin))
                if not (len(gmax) == 3 and gmax[2] in kx and concrete_number_eq(gmax[0], max(maxs)) and concrete_number_eq(gmax[1], Fr(gmax[2] + 1, 20))):
                    bad.append('maxima %s -> %r' % (tuple(map(str, maxs)), gmax))
        if und:
            break
    if und:
        ctx.undecided('R13.3', fp.qualname, 'fold over orderings', und, where=where(fp))
    else:
        ctx.record('R13.3', fp.qualname, 'arg-min/arg-max fold on all %d orderings of %d segments (with ties and zeros)' % (2 * len(cases), NSEG),
                   not bad, detail='; '.join(bad[:3]), where=where(fp), sample={'orderings': 2 * len(cases), 'segments': NSEG})
    # a longer, mixed path (one curve followed by eight lines): the index reported is the position IN THE PATH of the segment that
    # attains the extreme, whatever grouping by segment kind an implementation uses internally
    def th_mixed(it):
        q = it.construct('path.QuadraticBezier', Rat.csym('Q0'), Rat.csym('Q1'), Rat.csym('Q2'))
        lines = [it.construct('path.Line', Rat.csym('A%d' % k), Rat.csym('B%d' % k)) for k in range(8)]
        mins = [12, 11, 15, 9, 4, 8, 13, 10]
        maxs = [30, 31, 29, 35, 28, 27, 41, 33]
        table = {id(s_): ((Fr(mins[k]), Fr(k + 1, 20)), (Fr(maxs[k]), Fr(k + 1, 40))) for k, s_ in enumerate(lines)}
        it.call_hooks['path.Line.radialrange'] = lambda it2, a, kw: table[id(a[0])]
        it.call_hooks['path.QuadraticBezier.radialrange'] = lambda it2, a, kw: ((Fr(20), Fr(1, 2)), (Fr(25), Fr(1, 2)))
        p = it.construct('path.Path', q, *lines)
        return it.call_method(p, 'radialrange', Z)
    try:
        mixed_bad = []
        for pth in explore(ctx.model, th_mixed, {'time_limit': 30}):
            if pth.raised is not None:
                mixed_bad.append('raises %s' % pth.raised.exc_name)
                continue
            gmin, gmax = pth.value
            if not (len(gmin) == 3 and concrete_number_eq(gmin[0], 4) and concrete_number_eq(gmin[1], Fr(5, 20)) and concrete_number_eq(gmin[2], 5)):
                mixed_bad.append('minimum reported as %r, it is (4, 1/4) on the segment at index 5' % (gmin,))
            if not (len(gmax) == 3 and concrete_number_eq(gmax[0], 41) and concrete_number_eq(gmax[1], Fr(7, 40)) and concrete_number_eq(gmax[2], 7)):
                mixed_bad.append('maximum reported as %r, it is (41, 7/40) on the segment at index 7' % (gmax,))
        ctx.record('R13.3', fp.qualname, 'curve + 8 lines: the reported index is the position in the path', not mixed_bad,
                   detail='; '.join(mixed_bad[:2]), where=where(fp))
    except Undecidable as e:
        ctx.undecided('R13.3', fp.qualname, 'curve + 8 lines: the reported index is the position in the path', str(e), where=where(fp))
    ctx.exhaustive = True

    # ---------------------------------------------------------------- R13.4
    _closest_farthest_semantics(ctx, mdl)
    for fn, slot in (('closest_point_in_path', 0), ('farthest_point_in_path', 1)):
        f = mdl.func('path.' + fn)

        def th4(it, fn=fn):
            p = Opaque('path')
            from svtstatic.values import ExtRef
            p.attrs['radialrange'] = ExtRef('__rr__')
            got = {}
            it.ext_hooks['__rr__'] = lambda it2, a, k: got.update(arg=a[0]) or ('MIN', 'MAX')
            return it.call(it.closure_of('path.' + fn), [Z, p], {}), got
        try:
            explore(ctx.model, th4, {})
        except Undecidable:
            continue              # no plain delegation to path.radialrange(pt): decided by the concrete instances above
        ob('R13.4').run(f, '%s picks slot %d of radialrange(pt)' % (fn, slot), th4,
                        lambda v, slot=slot: (v[0] == ('MIN', 'MAX')[slot] and to_rat(v[1].get('arg', 0)).equals(Z),
                                              'returns %r for radialrange(%r)' % (v[0], v[1].get('arg'))))


def _closest_farthest_semantics(ctx, mdl):
    """closest_point_in_path / farthest_point_in_path on concrete three-segment paths (Pythagorean geometry: every distance is
    rational) in all six segment orders and for query points inside / outside the segments' coordinate ranges: whatever route the
    functions take (delegation, own loop, pruning), the answer is the global extremum with its segment index."""
    geo = [((Fr(9, 2), Fr(-6)), (Fr(9, 2), Fr(6))),      # vertical, foot of the perpendicular inside: dmin 9/2 at t=1/2, ends 15/2
           ((Fr(-3), Fr(4)), (Fr(3), Fr(4))),            # horizontal, dmin 4 at t=1/2, ends 5
           ((Fr(8), Fr(6)), (Fr(8), Fr(15)))]            # foot outside: dmin 10 at t=0, dmax 17 at t=1

    def dist2(p, q):
        return (p[0] - q[0]) ** 2 + (p[1] - q[1]) ** 2

    def extremes(seg, z):
        (x0, y0), (x1, y1) = seg
        dx, dy = x1 - x0, y1 - y0
        t = (dx * (z[0] - x0) + dy * (z[1] - y0)) / (dx * dx + dy * dy)
        cands = [(dist2((x0, y0), z), Fr(0)), (dist2((x1, y1), z), Fr(1))]
        lo = list(cands)
        if 0 < t < 1:
            lo.append((dist2((x0 + t * dx, y0 + t * dy), z), t))
        return min(lo), max(cands)

    # rigid images of the one configuration (all distances stay rational): as is, translated, mirrored in the diagonal, point-reflected
    images = [('as is', lambda p: p, False), ('translated', lambda p: (p[0] + 10, p[1] - 7), False), ('x/y swapped', lambda p: (p[1], p[0]), False),
              ('point-reflected', lambda p: (-p[0], -p[1]), False),
              # every segment traversed the other way: the extrema now sit at STARTS of segments (the lines do not join, so a start
              # is not the end of the segment before it)
              ('segments reversed', lambda p: p, True), ('segments reversed, translated', lambda p: (p[0] - 4, p[1] + 9), True)]
    base = geo
    for fn, slot in (('closest_point_in_path', 0), ('farthest_point_in_path', 1)):
        f = mdl.func('path.' + fn)
        for iname, img, rev in images:
            z = img((Fr(0), Fr(0)))
            geo = [((img(b), img(a)) if rev else (img(a), img(b))) for a, b in base]
            bad = []
            und = None
            for order in itertools.permutations(range(3)):
                segs = [geo[k] for k in order]
                ex = [extremes(sg, z)[slot] for sg in segs]
                best = (min if slot == 0 else max)(d for d, _ in ex)
                winners = [k for k, (d, _) in enumerate(ex) if d == best]

                def th(it, segs=segs, z=z, fn=fn):
                    ls = [it.construct('path.Line', Rat.const(complex(a[0], a[1])), Rat.const(complex(b[0], b[1]))) for a, b in segs]
                    return it.call(it.closure_of('path.' + fn), [Rat.const(complex(z[0], z[1])), it.construct('path.Path', *ls)], {})
                try:
                    paths = explore(ctx.model, th, {'time_limit': 30})
                except Undecidable as e:
                    und = str(e)
                    break
                for pth in paths:
                    if pth.raised is not None:
                        bad.append('order %s: raises %s' % (order, pth.raised.exc_name))
                        continue
                    v = pth.value
                    ok = False
                    if isinstance(v, tuple) and len(v) == 3:
                        from svtstatic.values import concrete_number
                        d, t, k = concrete_number(v[0]), concrete_number(v[1]), concrete_number(v[2])
                        k = int(k) if k is not None and k == int(k) else None
                        ok = d is not None and k in winners and abs(float(d) ** 2 - float(best)) < 1e-9 and t is not None and \
                            abs(float(t) - float(ex[k][1])) < 1e-9
                    if not ok:
                        bad.append('segments %s, query %s: returns %s, the %s point lies on segment %s at distance^2 %s' % (
                            [tuple(map(str, a + b)) for a, b in segs], tuple(map(str, z)), short(repr(v), 60), 'closest' if slot == 0 else 'farthest',
                            winners, best))
            label = '%s over the 6 orders of three concrete lines (%s)' % (fn, iname)
            if und:
                ctx.undecided('R13.4', f.qualname, label, und, where=where(f))
            else:
                ctx.record('R13.4', f.qualname, label, not bad, detail='; '.join(bad[:2]), where=where(f))


def concrete_number_eq(a, b):
    from svtstatic.values import concrete_number
    x = concrete_number(a)
    return x is not None and x == b
