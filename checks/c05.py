"""C05 - path parameter T, segment parameter t and arc-length fractions are coherent.

Decided (for a symbolic 3-segment path, all length fractions and all T at once, on every label
path): Path.point and Path.T2t select the same segment with the same local parameter; the selected
segment is the first whose cumulative fraction reaches T; t2T(T2t(T)) == T; the end-point shortcuts;
_calc_lengths normalises the very list it summed (zero total guarded); iscontinuous / isclosed /
continuous_subpaths report exactly the coincidences of consecutive end points and partition the path.
Not decided: that the fractions are the true arc-length fractions (C06), rounding at boundaries."""
import ast
from svtstatic import poly
from svtstatic.values import Closure
from svtstatic.interp import Env
from svtstatic.model import AnchorMissing
from .common import *

PROPERTY = 'C05'
LEVEL = 'other'
N = 3


def mk_path(it, lengths=True):
    """Path(L0, L1, L2) of Lines with independent symbolic end points; optionally with symbolic normalised lengths"""
    segs = [it.construct('path.Line', Rat.csym('A%d' % k), Rat.csym('B%d' % k)) for k in range(N)]
    p = it.construct('path.Path', *segs)
    if lengths:
        ls = [Rat.sym('l%d' % k) for k in range(N - 1)]
        ls.append(1 - sum(ls, Rat.const(0)))          # the fractions are normalised: they sum to 1
        poly.POSITIVE.update({'l%d' % k for k in range(N - 1)})
        # a CONSISTENT, fresh cache (whatever helper the readers use to make sure the table is there finds nothing to do, and a
        # recomputation through the hooked segment lengths l_k*Ltot reproduces the very same table)
        p.attrs['_lengths'] = list(ls)
        p.attrs['_length'] = Rat.sym('Ltot')
        poly.POSITIVE.add('Ltot')
        p.attrs['_length_tol'] = tuple(module_const(it, 'path', nm, Rat.const(0)) for nm in ('LENGTH_ERROR', 'LENGTH_MIN_DEPTH'))
        it.call_hooks.setdefault('path.Line.length', lambda it2, a, k, segs=segs, ls=ls: ls[[i for i, x in enumerate(segs) if x is a[0]][0]] * Rat.sym('Ltot'))
    return p, segs


def run(ctx):
    global N
    N = 4 if ctx.tier == 'thorough' else 3      # thorough: one more segment (more interior boundaries, more label paths)
    mdl = ctx.model
    ctx.assume('segment length fractions are positive symbols l0,l1,l2 (zero-length segments in leading position are outside the quantifier)')
    ctx.rule('R05.1', 'Path.point(T) and Path.T2t(T) pick the same (segment, t); the segment is the first whose cumulative fraction '
                      'reaches T; t == (T - cumulative)/fraction; t2T(T2t(T)) == T', 2)
    ctx.rule('R05.2', 'shortcuts: point(0)/point(1), T2t(0)/T2t(1), start/end read the first/last segment', 4)
    ctx.rule('R05.3', '_calc_lengths: total == sum of one length() per segment with the given tolerances; fractions == each/total; zero total guarded', 2)
    ctx.rule('R05.4', 'iscontinuous/isclosed are the conjunction of end-point coincidences; continuous_subpaths cuts exactly at the others '
                      'and its pieces concatenate to the path', 3)
    ob = lambda r: Obligation(ctx, r)
    Tt = Rat.sym('T')
    nocalc = {'call_hooks': {'path.Line.point': lambda it, a, k: ('pt', a[0], a[1])},
              'presign': [(Tt, '+'), (Tt - 1, '-'), (1 - Rat.sym('l0') - Rat.sym('l1'), '+')]}

    # ---------------------------------------------------------------- R05.1
    fpt = mdl.func('path.Path.point')
    ft2 = mdl.func('path.Path.T2t')

    def th_scan(it):
        p, segs = mk_path(it)
        k, t = it.call_method(p, 'T2t', Tt)
        pt = it.call_method(p, 'point', Tt)
        ls = p.attrs['_lengths']
        cum = [sum(ls[:i + 1], Rat.const(0)) for i in range(N)]
        facts = [path_sign(it, c - Tt) for c in cum]
        back = it.call_method(p, 't2T', k, t)
        return k, t, pt, segs, facts, cum, ls, back

    def judge_scan(v):
        k, t, pt, segs, facts, cum, ls, back = v
        probs = []
        if not (isinstance(pt, tuple) and pt[0] == 'pt'):
            return False, 'Path.point did not delegate to a segment'
        kk = [i for i, s in enumerate(segs) if s is pt[1]]
        if not kk or kk[0] != k:
            probs.append('T2t selects segment %r but point() evaluates segment %r' % (k, kk[0] if kk else None))
        ok, d = decide_equal(pt[2], t)
        if ok is not True:
            probs.append('local parameter of point() and T2t differ: ' + d)
        # first segment whose cumulative fraction reaches T
        # (the cumulative fractions ascend - the fractions are positive - so knowing one of them below T settles all earlier ones,
        #  and knowing one of them at or above T settles all later ones: a binary search decides as much as a linear scan)
        for i in range(k):
            if not any(facts[j] <= frozenset('-') for j in range(i, N)):
                probs.append('segment %d is skipped although its cumulative fraction may reach T (known signs %s)' % (i, sorted(facts[i])))
        if not any(facts[j] <= frozenset('0+') for j in range(0, k + 1)) and k != N - 1:
            probs.append('segment %d is selected although its cumulative fraction may be below T' % k)
        prev = cum[k - 1] if k > 0 else Rat.const(0)
        ok, d = decide_equal(t, (Tt - prev) / ls[k])
        if ok is not True:
            probs.append('t is not (T - cumulative)/fraction: ' + d)
        ok, d = decide_equal(back, Tt)
        if ok is not True:
            probs.append('t2T(T2t(T)) != T: ' + d)
        return not probs, '; '.join(probs)
    ob('R05.1').run(ft2, 'T2t / point / t2T agree on a %d-segment path, all T in (0,1)' % N, th_scan, judge_scan,
                    allowed_raises=('AssertionError', 'BugException', 'RuntimeError'), opts=nocalc)

    ft = mdl.func('path.Path.t2T')

    def th_t2T(it):
        p, segs = mk_path(it)
        return [it.call_method(p, 't2T', k, U) for k in range(N)] + [it.call_method(p, 't2T', segs[0], U)], p.attrs['_lengths']

    def judge_t2T(v):
        res, ls = v
        pairs = []
        for k in range(N):
            pairs.append(('t2T(%d,u)' % k, res[k], sum(ls[:k], Rat.const(0)) + ls[k] * U))
        pairs.append(('t2T(segment object)', res[N], res[0]))
        return decide_all_equal(pairs)
    ob('R05.1').run(ft, 't2T(k,u) == cumulative + fraction*u; segment objects resolve to their index', th_t2T, judge_t2T, opts=nocalc)

    # ---------------------------------------------------------------- R05.2
    def th_short(it):
        p, segs = mk_path(it)
        p.attrs['_start'] = None
        p.attrs['_end'] = None
        st_, en_ = it.getattr(p, 'start'), it.getattr(p, 'end')
        # the point queries are answered by the segments themselves: cached end points that differ from the segments' (a segment was
        # edited in place) must not show through
        p.attrs['_start'] = Rat.csym('STALE0')
        p.attrs['_end'] = Rat.csym('STALE1')
        return (it.call_method(p, 'point', 0), it.call_method(p, 'point', 1), it.call_method(p, 'T2t', 0), it.call_method(p, 'T2t', 1),
                st_, en_, segs)

    def judge_short(v):
        p0, p1, t0, t1, st, en, segs = v
        probs = []
        is_hook = lambda x: isinstance(x, tuple) and len(x) == 3 and x[0] == 'pt'
        if not (is_hook(p0) and p0[1] is segs[0] and to_rat(p0[2]).equals(0)):
            probs.append('point(0) is not segments[0].point(0)%s' % ('' if is_hook(p0) else ' (it returns %s)' % short(p0, 30)))
        if not (is_hook(p1) and p1[1] is segs[-1] and to_rat(p1[2]).equals(1)):
            probs.append('point(1) is not segments[-1].point(1)%s' % ('' if is_hook(p1) else ' (it returns %s)' % short(p1, 30)))
        if tuple(t0) != (0, 0):
            probs.append('T2t(0) = %r' % (t0,))
        if tuple(t1) != (N - 1, 1):
            probs.append('T2t(1) = %r' % (t1,))
        ok, d = decide_all_equal([('start', st, segs[0].attrs['start']), ('end', en, segs[-1].attrs['end'])])
        if ok is not True:
            probs.append(d)
        return not probs, '; '.join(probs)
    for nm, f in (('point', fpt), ('T2t', ft2), ('start', mdl.func('path.Path.start:getter')), ('end', mdl.func('path.Path.end:getter'))):
        ob('R05.2').run(f, 'end-point shortcuts (%s)' % nm, th_short, judge_short, opts=nocalc)

    # ---------------------------------------------------------------- R05.3
    # the method that builds the length table: `_calc_lengths` when it exists, else the table builder discovered by interpretation
    # (C16) that takes the tolerances
    PathC = mdl.cls('path.Path')
    builder = '_calc_lengths'
    if builder not in PathC.methods:
        from . import c16
        found, _w, _f = c16._ensurers(ctx, mdl, PathC)
        cands = sorted(n for n in found if {'error', 'min_depth'} <= set(PathC.methods[n].params()) and n.startswith('_'))
        if not cands:
            raise AnchorMissing('no method of Path builds the length table with given tolerances')
        builder = cands[0]
    fc = PathC.methods[builder]
    seen = []

    def len_hook(it, a, k):
        seen.append((a[0], dict(k)))
        idx = len(seen) - 1
        poly.POSITIVE.add('len%d' % idx)
        return Rat.sym('len%d' % idx)

    def th_calc(it):
        del seen[:]
        p, segs = mk_path(it, lengths=False)
        p.attrs['_length'] = None
        it.call_method(p, builder, error=Rat.sym('err'), min_depth=Rat.sym('md'))
        return p, segs, list(seen)

    def judge_calc(v):
        p, segs, calls = v
        probs = []
        if [c[0] for c in calls] != segs:
            probs.append('length() is not called exactly once per segment in order')
        for c in calls:
            kw = c[1]
            if not (to_rat(kw.get('error', 0)).equals(Rat.sym('err')) and to_rat(kw.get('min_depth', 0)).equals(Rat.sym('md'))):
                probs.append('tolerances are not forwarded to segment.length()')
                break
        ls = [Rat.sym('len%d' % i) for i in range(len(calls))]
        tot = sum(ls, Rat.const(0))
        ok, d = decide_equal(p.attrs['_length'], tot)
        if ok is not True:
            probs.append('total: ' + d)
        fr = p.attrs['_lengths']
        if len(fr) != len(ls):
            probs.append('%d fractions for %d segments' % (len(fr), len(ls)))
        else:
            ok, d = decide_all_equal([('fraction %d' % i, fr[i], ls[i] / tot) for i in range(len(ls))])
            if ok is not True:
                probs.append(d)
        return not probs, '; '.join(probs)
    ob('R05.3').run(fc, '_calc_lengths on %d segments (positive lengths)' % N, th_calc, judge_calc,
                    opts={'call_hooks': {'path.Line.length': len_hook}})
    # zero total (all segments degenerate): the normalisation must not divide by it
    def th_zero(it):
        p, segs = mk_path(it, lengths=False)
        p.attrs['_length'] = None
        it.call_method(p, builder, error=Rat.sym('err'), min_depth=Rat.sym('md'))
        return p

    def judge_zero(p):
        ok = to_rat(p.attrs['_length']).is_zero() and len(p.attrs['_lengths']) == N
        return ok, '' if ok else 'total %r / fractions %r for three zero-length segments' % (p.attrs['_length'], p.attrs['_lengths'])
    ob('R05.3').run(fc, 'division by the total is guarded against a zero total', th_zero, judge_zero,
                    opts={'call_hooks': {'path.Line.length': lambda it, a, k: Rat.const(0)}})

    # ---------------------------------------------------------------- R05.4
    fcs = mdl.func('path.Path.continuous_subpaths')

    def th_cont(it, closed_flag=False):
        p, segs = mk_path(it, lengths=False)
        if closed_flag:
            # the internal flag a parsed `Z` (or the deprecated attribute) leaves behind: the predicates are about the segments as they
            # are now, not about how the path was once written
            p.attrs['_closed'] = True
        cont = it.call_method(p, 'iscontinuous')
        subs = it.call_method(p, 'continuous_subpaths')
        joints = [path_sign(it, segs[k].attrs['end'] - segs[k + 1].attrs['start']) for k in range(N - 1)]
        pieces = [[s for s in it.iterate(sp)] for sp in subs]
        closedac = it.truth(it.call_method(p, 'isclosedac'))
        cl = path_sign_mod(it, p.attrs['_segments'][0].attrs['start'] - p.attrs['_segments'][-1].attrs['end'])
        return cont, pieces, joints, segs, closedac, cl

    def judge_cont(v):
        cont, pieces, joints, segs, closedac, cl = v
        probs = []
        for j in joints:
            if j not in (frozenset('0'), frozenset('-+')):
                return None, 'a joint coincidence is undecided on this path (%s)' % sorted(j)
        eq = [j == frozenset('0') for j in joints]
        if bool(cont) != all(eq):
            probs.append('iscontinuous()=%r for joint coincidences %s' % (cont, eq))
        flat = [s for pc in pieces for s in pc]
        if len(flat) != len(segs) or any(a is not b for a, b in zip(flat, segs)):
            probs.append('the subpaths do not concatenate to the original path')
        cuts = [len(pc) for pc in pieces]
        exp = []
        run_ = 1
        for e in eq:
            if e:
                run_ += 1
            else:
                exp.append(run_)
                run_ = 1
        exp.append(run_)
        if cuts != exp:
            probs.append('subpath sizes %s, expected %s for joint coincidences %s' % (cuts, exp, eq))
        if cl in (frozenset('0'), frozenset('-+')) and bool(closedac) != (cl == frozenset('0')):
            probs.append('isclosedac()=%r although start %s end' % (closedac, '==' if cl == frozenset('0') else '!='))
        return not probs, '; '.join(probs)
    for nm, f in (('iscontinuous', mdl.func('path.Path.iscontinuous')), ('continuous_subpaths', fcs), ('isclosed', mdl.func('path.Path.isclosed'))):
        ob('R05.4').run(f, 'continuity predicates on %d segments with independent end points (%s)' % (N, nm), th_cont, judge_cont,
                        allowed_raises=('AssertionError',))
    ob('R05.4').run(mdl.func('path.Path.iscontinuous'), 'continuity predicates on a path that carries the closed flag of an earlier state',
                    lambda it: th_cont(it, True), judge_cont, allowed_raises=('AssertionError',))
    # isclosed <=> start == end (under its own assertions)
    fic = mdl.func('path.Path.isclosed')

    def th_closed(it):
        p, segs = mk_path(it, lengths=False)
        r = it.truth(it.call_method(p, 'isclosed'))
        return r, path_sign_mod(it, segs[0].attrs['start'] - segs[-1].attrs['end'])

    def judge_closed(v):
        r, cl = v
        if cl not in (frozenset('0'), frozenset('-+')):
            return False, 'isclosed() answers %r without deciding whether start == end' % (r,)
        ok = isinstance(r, bool) and r == (cl == frozenset('0'))
        return ok, '' if ok else 'isclosed()=%r although start %s end' % (r, '==' if cl == frozenset('0') else '!=')
    ob('R05.4').run(fic, 'isclosed() <=> start == end on a continuous path', th_closed, judge_closed, allowed_raises=('AssertionError',),
                    opts={'call_hooks': {'path.Path.iscontinuous': lambda it, a, k: True}})
    _concat_rule(ctx, mdl)


def _concat_rule(ctx, mdl):
    """concatpaths(parts) is the path of the parts' own segments, in order, untouched: in particular
    concatpaths(p.continuous_subpaths()) == p for a path with breaks of any size (a break of rounding size is still a break)."""
    try:
        fc = mdl.func('path.concatpaths')
    except Exception:
        return
    CLS = {2: 'path.Line', 3: 'path.QuadraticBezier', 4: 'path.CubicBezier'}

    def th(it):
        # end points are independent symbols: adjacent ones may or may not coincide, exactly or approximately
        shapes = [(2, 'a'), (3, 'b'), (4, 'c'), (2, 'd')]
        segs = [it.construct(CLS[n], *cpoints(n, nm)) for n, nm in shapes]
        parts = [it.construct('path.Path', segs[0]), it.construct('path.Path', segs[1], segs[2]), it.construct('path.Path', segs[3])]
        from svtstatic import builtins_model as bm
        it.call_hooks['misctools.isclose'] = lambda it2, a, k: bm.call_ext(it2, 'numpy.isclose', a, k)
        before = [dict(s.attrs) for s in segs]          # the segments as they were handed in (they must not be edited in place either)
        r = it.call(it.closure_of('path.concatpaths'), [parts], {})
        got = list(r.attrs['_segments'])
        return [(g is s, g.cls.name if isinstance(g, Obj) else None, dict(g.attrs) if isinstance(g, Obj) else None) for g, s in zip(got, segs)], len(got), \
            [(s.cls.name, before[i]) for i, s in enumerate(segs)]

    def judge(v):
        rows, n, segs = v
        if n != len(segs):
            return False, '%d segments come back for %d' % (n, len(segs))
        for i, (same, cname, attrs) in enumerate(rows):
            # the very object or a rebuilt one: in both cases it has to be the curve that was handed in
            cname0, attrs0 = segs[i]
            if cname != cname0:
                return False, 'segment %d comes back as a %s' % (i, cname)
            for k_ in ('start', 'control', 'control1', 'control2', 'end'):
                if k_ in attrs0 and not to_rat(attrs.get(k_, 0)).equals(to_rat(attrs0[k_])):
                    return False, 'segment %d comes back with another %s (%s instead of %s)' % (i, k_, short(attrs.get(k_), 20), short(attrs0[k_], 20))
        return True, ''
    Obligation(ctx, 'R05.4').run(fc, 'concatpaths keeps every segment of its parts as it is, in order (breaks of any size stay breaks)', th, judge)
