"""C04 - Arc realises the SVG endpoint parameterisation (F.6.5).

Decided: derivative(t,n) is the n-th t-derivative of point(t) (n = 1..8); point(t) lies on the
ellipse of the stored center/radius/rotation; constructor normalisation and initialisation order;
the F.6.5 formulas of _parameterize (x1', radius check and minimal scaling, radicand, centre and its
sign rule, u1/u2, theta and raw delta case tables, the +-360 adjustment) on every path of the
function; the cubic/quadratic approximations are chained, end-point exact and pass through the arc.
Not decided: point(0)=start / point(1)=end as numeric statements (acos/sqrt/clip), monotonicity
and 'minimal factor' up to rounding."""
import ast
from fractions import Fraction as Fr
from svtstatic import poly
from svtstatic.cfg import walk_no_nested, enclosing_stmt, CFG, ENTRY
from svtstatic.values import Closure
from .common import *

PROPERTY = 'C04'
LEVEL = 'other'
I = Rat.const(1j)
Q = 'path.Arc._parameterize'


def run(ctx):
    mdl = ctx.model
    ctx.assume('ring semantics; cos^2+sin^2=1 and sqrt(u)^2=u are the only relations used between function atoms')
    ctx.assume('feasibility lemma (F.6.5 geometry): with the F.6.5 centre the raw angle difference is > 0 iff sweep != large_arc; '
               'clip() is the identity on [-1,1] (guards rounding only)')
    ctx.rule('R04.1', 'derivative(t, n) == d^n/dt^n point(t) for n = 1..8 (all four n mod 4 branches, twice)', 8)
    ctx.rule('R04.2', 'point(t) lies on the ellipse with the stored center, radius and rotation', 1)
    ctx.rule('R04.3', 'every attribute _parameterize reads is assigned by __init__ before the call; radius is |re|+1j|im|; flags are bools', 3)
    ctx.rule('R04.4', 'F.6.5 (5.1)-(5.3),(6.x): x1\', radius check and scaling by sqrt(radius_check) only when > 1, radicand, guarded radical, '
                      'centre with sign rule, u1/u2 - on every path of _parameterize, for all four flag combinations', 8)
    ctx.rule('R04.5', 'theta / raw delta case tables and the +-360 adjustment give the spec\'s angle for every feasible flag/sign combination', 8)
    ctx.rule('R04.6', 'as_cubic_curves / as_quad_curves (1..3 pieces): start at start, chained, end at end, interior joints on the arc, '
                      'control points on the tangents', 6)
    ob = lambda r: Obligation(ctx, r)

    # ---------------------------------------------------------------- R04.1 / R04.2
    fd = mdl.func('path.Arc.derivative')
    fp = mdl.func('path.Arc.point')
    # documented range |delta| <= 360 (so that a piece count derived from delta stays a small number)
    absd = apply_fn('abs', Rat.sym('A.delta'))
    aopts = arc_opts(mdl, {'presign': [(absd - 360, '-0'), (absd - 540, '-'), (absd - 720, '-')]})
    for n in range(1, 9):
        def th(it, n=n):
            a = sym_arc(it, 'A', True, False)
            return it.call_method(a, 'point', T), it.call_method(a, 'derivative', T, n)
        ob('R04.1').run(fd, 'Arc.derivative(t, n=%d) vs d^%d point/dt^%d' % (n, n, n), th,
                        lambda v, n=n: decide_equal(v[1], nderiv(to_rat(v[0]), 't', n)), allowed_raises=('AssertionError',), opts=aopts)

    def th_ell(it):
        a = sym_arc(it, 'A', False, True)
        return a, it.call_method(a, 'point', T)

    def judge_ell(v):
        a, pt = v
        phi = a.attrs['rotation'] * PI / 180
        w = (to_rat(pt) - a.attrs['center']) * apply_fn('exp', -I * phi)
        rx, ry = a.attrs['radius'].real(), a.attrs['radius'].imag()
        return decide_equal((w.real() / rx) ** 2 + (w.imag() / ry) ** 2, 1)
    ob('R04.2').run(fp, '((point(t)-center)e^{-i phi}) on the unit circle after dividing by rx, ry', th_ell, judge_ell,
                    allowed_raises=('AssertionError',), opts=aopts)

    # ---------------------------------------------------------------- R04.3 initialisation
    ArcC = mdl.cls('path.Arc')
    init = ArcC.method('__init__')
    par = ArcC.method('_parameterize')
    calls = [enclosing_stmt(c) for c in walk_no_nested(init.node) if isinstance(c, ast.Call) and isinstance(c.func, ast.Attribute)
             and c.func.attr == '_parameterize']
    if not calls:
        # reached through a helper method of the class?
        def reaches(mname, seen=()):
            m_ = ArcC.methods.get(mname)
            if m_ is None or mname in seen:
                return False
            for c_ in walk_no_nested(m_.node):
                if isinstance(c_, ast.Call) and isinstance(c_.func, ast.Attribute) and isinstance(c_.func.value, ast.Name) and c_.func.value.id == 'self':
                    if c_.func.attr == '_parameterize' or reaches(c_.func.attr, seen + (mname,)):
                        return True
            return False
        calls = [enclosing_stmt(c) for c in walk_no_nested(init.node) if isinstance(c, ast.Call) and isinstance(c.func, ast.Attribute)
                 and isinstance(c.func.value, ast.Name) and c.func.value.id == 'self' and reaches(c.func.attr)]
    if not calls:
        raise AnchorMissing('call of _parameterize in Arc.__init__')
    cfg = CFG(init.node)
    reads = set()
    writes_first = set()
    for n in walk_no_nested(par.node):
        if isinstance(n, ast.Attribute) and isinstance(n.value, ast.Name) and n.value.id == 'self' and isinstance(n.ctx, ast.Load) \
                and n.attr not in ArcC.methods:
            reads.add(n.attr)
    def stores_of(mname, seen=()):
        """attributes a method of the class stores on self, helpers it calls included"""
        m_ = ArcC.methods.get(mname)
        out = set()
        if m_ is None or mname in seen:
            return out
        for n_ in walk_no_nested(m_.node):
            if isinstance(n_, ast.Attribute) and isinstance(n_.ctx, ast.Store) and isinstance(n_.value, ast.Name) and n_.value.id == 'self':
                out.add(n_.attr)
            if isinstance(n_, ast.Call) and isinstance(n_.func, ast.Attribute) and isinstance(n_.func.value, ast.Name) and n_.func.value.id == 'self':
                out |= stores_of(n_.func.attr, seen + (mname,))
        return out
    missing = []
    for attr in sorted(reads):
        asg = [s for s in walk_no_nested(init.node) if isinstance(s, ast.Assign) and any(
            isinstance(t, ast.Attribute) and isinstance(t.value, ast.Name) and t.value.id == 'self' and t.attr == attr for t in s.targets)]
        # ... or a helper method called by __init__ stores it (the call statement then plays the part of the assignment)
        asg += [s for s in walk_no_nested(init.node) if isinstance(s, ast.Expr) and isinstance(s.value, ast.Call) and isinstance(s.value.func, ast.Attribute)
                and isinstance(s.value.func.value, ast.Name) and s.value.func.value.id == 'self' and s.value.func.attr != '_parameterize'
                and attr in stores_of(s.value.func.attr)]
        own = [s for s in walk_no_nested(par.node) if isinstance(s, ast.Assign) and any(
            isinstance(t, ast.Attribute) and isinstance(t.value, ast.Name) and t.value.id == 'self' and t.attr == attr for t in s.targets)]
        if not (asg and cfg.dominated_by(calls[0], set(asg))) and not own:
            missing.append(attr)
        elif not (asg and cfg.dominated_by(calls[0], set(asg))) and own:
            # assigned inside _parameterize itself: must be assigned there before being read (checked by the interpreter run below)
            pass
    ctx.record('R04.3', init.qualname, 'attributes read by _parameterize are initialised first', not missing,
               detail='' if not missing else '_parameterize reads %s before __init__ assigns them' % missing, where=where(init, calls[0]),
               sample={'reads': sorted(reads)})

    def th_norm(it):
        info = it.model.cls('path.Arc')
        o = Obj(info)
        o.attrs['__name__'] = 'A'
        rr = Rat.sym('r.re') + I * Rat.sym('r.im')
        it.call_closure(Closure(init, init.node, None, init.module, o, info),
                        [Rat.csym('S'), rr, Rat.sym('rot'), 1, 0, Rat.csym('E')], {})
        return o, rr
    ob('R04.3').run(init, 'radius normalised to |re| + 1j|im|', th_norm,
                    lambda v: decide_equal(v[0].attrs['radius'], apply_fn('abs', v[1].real()) + I * apply_fn('abs', v[1].imag())),
                    allowed_raises=('AssertionError',), opts=aopts)
    ob('R04.3').run(init, 'flags pass through bool()', th_norm,
                    lambda v: (v[0].attrs['large_arc'] is True and v[0].attrs['sweep'] is False,
                               'large_arc=%r sweep=%r for inputs 1, 0' % (v[0].attrs['large_arc'], v[0].attrs['sweep'])),
                    allowed_raises=('AssertionError',), opts=aopts)

    # ---------------------------------------------------------------- R04.4 / R04.5 the F.6.5 chain
    for large in (False, True):
        for sweep in (False, True):
            _f65(ctx, mdl, large, sweep)
    _f65_noautoscale(ctx, mdl)

    # ---------------------------------------------------------------- R04.7 concrete quarter / three-quarter circles
    _axis_circles(ctx, mdl)

    _path_arc_replacement(ctx, mdl)
    # ---------------------------------------------------------------- R04.8 arcs handed out by the library
    _returned_arcs(ctx, mdl)

    # ---------------------------------------------------------------- R04.6 approximations
    for meth, npts in (('as_cubic_curves', 4), ('as_quad_curves', 3)):
        f = mdl.func('path.Arc.' + meth)
        for curves in (1, 2, 3):
            def th(it, meth=meth, curves=curves):
                a = sym_arc(it, 'A', True, True)
                segs = it.iterate(it.call_method(a, meth, curves))
                pts = [it.call_method(a, 'point', Rat.const(Fr(k, curves))) for k in range(curves + 1)]
                ders = [it.call_method(a, 'derivative', Rat.const(Fr(k, curves)), 1) for k in range(curves + 1)]
                return a, segs, pts, ders

            def judge(v, curves=curves, npts=npts):
                a, segs, pts, ders = v
                if len(segs) != curves:
                    return False, '%d pieces for curves=%d' % (len(segs), curves)
                pairs = [('first start', segs[0].attrs['start'], a.attrs['start']), ('last end', segs[-1].attrs['end'], a.attrs['end'])]
                for k in range(1, curves):
                    pairs.append(('joint %d chained' % k, segs[k].attrs['start'], segs[k - 1].attrs['end']))
                    pairs.append(('joint %d on the arc' % k, segs[k].attrs['start'], pts[k]))
                if npts == 4:
                    for k, s in enumerate(segs):
                        # control points lie on the tangent lines at the piece's end points
                        v1 = (to_rat(s.attrs['control1']) - to_rat(s.attrs['start'])) * to_rat(ders[k]).conj()
                        pairs.append(('piece %d control1 on the start tangent' % k, v1.imag(), 0))
                        if k < curves - 1:
                            v2 = (to_rat(s.attrs['end']) - to_rat(s.attrs['control2'])) * to_rat(ders[k + 1]).conj()
                            pairs.append(('piece %d control2 on the end tangent' % k, v2.imag(), 0))
                return decide_all_equal(pairs)
            ob('R04.6').run(f, 'Arc.%s(%d): chaining, end points, joints on the arc' % (meth, curves), th, judge,
                            allowed_raises=('AssertionError',), opts=aopts)


# ------------------------------------------------------------------------------------------------
def _path_arc_replacement(ctx, mdl):
    """Path.approximate_arcs_with_cubics / _quads on a path with several arcs between other segments: every arc is replaced, in place and
    in order, by exactly the chain its own as_*_curves(n) returns, with n = ceil(|delta| / (360 error)); nothing else moves."""
    import math
    from svtstatic.builtins_model import as_int
    PathC = mdl.cls('path.Path')
    for meth, conv in (('approximate_arcs_with_cubics', 'as_cubic_curves'), ('approximate_arcs_with_quads', 'as_quad_curves')):
        if meth not in PathC.methods:
            continue
        fi = PathC.methods[meth]

        def th(it, meth=meth, conv=conv):
            l0 = it.construct('path.Line', Rat.const(-5), Rat.const(1))
            a1 = it.construct('path.Arc', Rat.const(1), Rat.const(1 + 1j), Rat.const(0), True, True, Rat.const(-1j))      # 270 degrees
            l1 = it.construct('path.Line', Rat.const(-1j), Rat.const(3j))
            a2 = it.construct('path.Arc', Rat.const(3j), Rat.const(2 + 2j), Rat.const(0), False, True, Rat.const(-2 + 5j))  # 90 degrees
            a3 = it.construct('path.Arc', Rat.const(-2 + 5j), Rat.const(2 + 2j), Rat.const(0), False, False, Rat.const(-4 + 3j))
            l2 = it.construct('path.Line', Rat.const(-4 + 3j), Rat.const(9))
            chains = {}

            def hook(it2, a, k):
                n = as_int(a[1] if len(a) > 1 else k.get('curves'))
                arc = a[0]
                ch = [it2.construct('path.Line', Rat.csym('M%d_%d' % (id(arc) % 9973, i)), Rat.csym('M%d_%d' % (id(arc) % 9973, i + 1))) for i in range(n)]
                chains[id(arc)] = (n, ch)
                return ch
            it.call_hooks['path.Arc.' + conv] = hook
            p = it.construct('path.Path', l0, a1, l1, a2, a3, l2)
            it.call_method(p, meth, Rat.const(Fr(1, 10)))
            return list(p.attrs['_segments']), [l0, a1, l1, a2, a3, l2], chains

        def judge(v):
            got, orig, chains = v
            exp = []
            for sg in orig:
                if sg.cls.name == 'Arc':
                    if id(sg) not in chains:
                        return False, 'an arc of the path is not converted'
                    n, ch = chains[id(sg)]
                    want_n = int(math.ceil(abs(float(to_rat(sg.attrs['delta']).as_fraction())) / 36.0))
                    if n != want_n:
                        return False, 'an arc of %s degrees is cut into %d pieces for error 0.1 (expected %d)' % (short(sg.attrs['delta'], 8), n, want_n)
                    exp += ch
                else:
                    exp.append(sg)
            ok = len(got) == len(exp) and all(g is e for g, e in zip(got, exp))
            return ok, '' if ok else 'the segment list afterwards has %d entries in an order other than [line, chain of arc 1, line, chain of arc 2, chain of arc 3, line] (%d expected)' % (len(got), len(exp))
        Obligation(ctx, 'R04.6').run(fi, 'Path.%s on line-arc-line-arc-arc-line: each arc replaced in place by its own chain' % meth, th, judge,
                                     allowed_raises=())


def _axis_circles(ctx, mdl):
    """circular arcs between axis points of a circle (every quantity of F.6.5 is then exact: angles are multiples of 90 degrees),
    built by the REAL constructor for all flag combinations, x-axis rotations 0/90/180/-90 (irrelevant for a circle, but part
    of the formulas) and two centres: centre, theta, delta are the spec's, point(0)/point(1) are the end points and a
    three-quarter arc passes the two axis points in between, in order."""
    ctx.rule('R04.7', 'concrete quarter and three-quarter circles through the real constructor (4 start angles x 2 sweeps x 2 sizes x 4 rotations x 2 '
                      'centres): centre, theta, delta exact; point(0), point(1) and the intermediate axis points', 4)
    fi = mdl.func(Q)
    unit = [Rat.const(1), Rat.const(1j), Rat.const(-1), Rat.const(-1j)]
    for large in (False, True):
        for sweep in (False, True):
            bad = []
            und = None
            n = 0
            for c, r in ((Rat.const(0), 1), (Rat.const(2 + 3j), 2)):
                for k0 in range(4):
                    sgn = 1 if sweep else -1
                    steps = 3 if large else 1
                    k1 = (k0 + sgn * steps) % 4
                    S_, E_ = c + r * unit[k0], c + r * unit[k1]
                    for rot in (0, 90, 180, -90):
                        n += 1

                        def th(it, S_=S_, E_=E_, r=r, rot=rot):
                            a = it.construct('path.Arc', S_, Rat.const(complex(r, r)), Rat.const(rot), large, sweep, E_)
                            pts = [it.call_method(a, 'point', Rat.const(Fr(j, steps))) for j in range(steps + 1)]
                            return a.attrs['center'], a.attrs['theta'], a.attrs['delta'], pts
                        try:
                            paths = explore(mdl, th, {'time_limit': 20})
                        except Undecidable as e:
                            und = und or str(e)
                            continue
                        for pth in paths:
                            label = 'Arc(%s, %d+%dj, %d, %s, %s, %s)' % (short(S_, 12), r, r, rot, large, sweep, short(E_, 12))
                            if pth.raised is not None:
                                bad.append('%s raises %s' % (label, pth.raised.exc_name))
                                continue
                            cen, th_, de_, pts = pth.value
                            want_pts = [c + r * unit[(k0 + sgn * j) % 4] for j in range(steps + 1)]
                            # theta is measured in the frame turned by the x-axis rotation
                            want_theta = (90 * k0 - rot) % 360
                            probs = []
                            unknown = []

                            def cmp_(what, got, want):
                                ok, d = decide_equal(got, want)
                                if ok is False:
                                    probs.append('%s = %s, expected %s' % (what, short(got, 24), short(want, 12)))
                                elif ok is None:
                                    unknown.append('%s = %s is not reduced to a number' % (what, short(got, 24)))
                            cmp_('center', cen, c)
                            tf_ = to_rat(th_).as_fraction()
                            if tf_ is None:
                                unknown.append('theta = %s is not reduced to a number' % short(th_, 24))
                            elif (tf_ - want_theta) % 360 != 0:
                                probs.append('theta %s (expected %d mod 360)' % (short(th_, 20), want_theta))
                            cmp_('delta', de_, Rat.const(sgn * 90 * steps))
                            for j, (g, w) in enumerate(zip(pts, want_pts)):
                                cmp_('point(%d/%d)' % (j, steps), g, w)
                            if probs:
                                bad.append('%s: %s' % (label, '; '.join(probs)))
                            elif unknown and not und:
                                und = '%s: %s' % (label, '; '.join(unknown[:2]))
            # the same arcs built one after the other in ONE run, hash() made adversarial (hashes may collide): an arc built later gets
            # its own parameterisation, whatever the constructor remembers of earlier ones
            specs = []
            for c, r in ((Rat.const(0), 1), (Rat.const(2 + 3j), 2)):
                for k0 in range(4):
                    sgn = 1 if sweep else -1
                    steps = 3 if large else 1
                    specs.append((c, r, k0, (k0 + sgn * steps) % 4, (0, 180, 90, -90)[k0]))

            def th_seq(it):
                out = []
                for c, r, k0, k1, rot in specs + specs[:2]:
                    a = it.construct('path.Arc', c + r * unit[k0], Rat.const(complex(r, r)), Rat.const(rot), large, sweep, c + r * unit[k1])
                    out.append((a.attrs['center'], a.attrs['theta'], a.attrs['delta'], a.attrs['radius']))
                return out
            try:
                for pth in explore(mdl, th_seq, {'ext_hooks': {'builtins.hash': lambda it, a_, k_: 7}, 'time_limit': 30}):
                    if pth.raised is not None:
                        bad.append('a sequence of constructions raises %s' % pth.raised.exc_name)
                        continue
                    for (c, r, k0, k1, rot), (cen, th_, de_, rad) in zip(specs + specs[:2], pth.value):
                        okc = decide_equal(cen, c)[0]
                        tf_ = to_rat(th_).as_fraction()
                        okt = tf_ is not None and (tf_ - (90 * k0 - rot)) % 360 == 0
                        okd = decide_equal(de_, Rat.const((1 if sweep else -1) * 90 * (3 if large else 1)))[0]
                        okr = decide_equal(rad, Rat.const(complex(r, r)))[0]
                        if okc is False or okd is False or okr is False or (tf_ is not None and not okt):
                            bad.append('built after other arcs (colliding hashes), the arc from %s to %s gets center %s, theta %s, delta %s, radius %s' % (
                                short(c + r * unit[k0], 10), short(c + r * unit[k1], 10), short(cen, 14), short(th_, 10), short(de_, 10), short(rad, 10)))
                            break
            except Undecidable as e:
                und = und or str(e)
            label = 'large_arc=%s sweep=%s: %d concrete circular arcs' % (large, sweep, n)
            if und and not bad:
                ctx.undecided('R04.7', fi.qualname, label, und, where=where(fi))
            else:
                ctx.record('R04.7', fi.qualname, label, not bad, detail='; '.join(bad[:2]), where=where(fi), sample={'arcs': n})


def _returned_arcs(ctx, mdl):
    """every Arc the library hands out (scaled, rotated, translated, reversed, cropped, split) carries the derived state of ITS OWN
    constructor fields: centre, theta, delta, radius equal those of an Arc freshly built from (start, radius, rotation, flags, end)
    of the returned object.  Concrete axis circles, so that every quantity is exact."""
    ctx.rule('R04.8', 'an Arc returned by scaled / rotated / translated / reversed / cropped / split has the centre, theta, delta and radius that its '
                      'own constructor fields define (concrete axis circles; uniform factors 2, -1, -3/2; quarter turns; sub-arcs between axis points)', 6)
    unit = [Rat.const(1), Rat.const(1j), Rat.const(-1), Rat.const(-1j)]
    third, two3 = Rat.const(Fr(1, 3)), Rat.const(Fr(2, 3))
    ops = [('scaled', lambda it, a: [it.call_method(a, 'scaled', Rat.const(f)) for f in (2, -1, Fr(-3, 2))]),
           ('scaled about a point', lambda it, a: [it.call_method(a, 'scaled', Rat.const(f), origin=Rat.const(1 + 2j)) for f in (3, -2)]),
           ('rotated', lambda it, a: [it.call_method(a, 'rotated', Rat.const(d), origin=Rat.const(o)) for d, o in ((90, 0), (180, 1 + 1j), (-90, 2 - 1j))]),
           ('translated', lambda it, a: [it.call_method(a, 'translated', Rat.const(3 - 4j))]),
           ('reversed', lambda it, a: [it.call_method(a, 'reversed')]),
           ('cropped / split', lambda it, a: [it.call_method(a, 'cropped', third, two3), it.call_method(a, 'cropped', Rat.const(0), third)] +
            list(it.iterate(it.call_method(a, 'split', two3))))]
    specs = []
    for c, r in ((Rat.const(0), 1), (Rat.const(2 + 3j), 2)):
        for k0 in (0, 1, 3):
            for sweep in (False, True):
                sgn = 1 if sweep else -1
                specs.append((c, r, k0, (k0 + sgn * 3) % 4, sweep))
    ArcC = mdl.cls('path.Arc')
    for label, op in ops:
        meth = label.split(' ')[0]
        fi = ArcC.methods.get(meth) or mdl.func(Q)
        bad = []
        und = None
        n = 0
        for c, r, k0, k1, sweep in specs:
            def th(it, c=c, r=r, k0=k0, k1=k1, sweep=sweep):
                a = it.construct('path.Arc', c + r * unit[k0], Rat.const(complex(r, r)), Rat.const(0), True, sweep, c + r * unit[k1])
                out = []
                for res in op(it, a):
                    if not (isinstance(res, Obj) and res.cls.name == 'Arc'):
                        out.append(None)
                        continue
                    f_ = res.attrs
                    fresh = it.construct('path.Arc', f_['start'], f_['radius'], f_['rotation'], f_['large_arc'], f_['sweep'], f_['end'])
                    row = [(k_, f_.get(k_), fresh.attrs.get(k_)) for k_ in ('center', 'theta', 'delta', 'radius', 'phi', 'rot_matrix')
                           if k_ in fresh.attrs]
                    # ... and answers like it: whatever else the object remembers (cached trigonometry, a copied frame) is judged by
                    # what its methods return at the two ends
                    for nm_, call_ in (('point(0)', lambda o: it.call_method(o, 'point', Rat.const(0))), ('point(1)', lambda o: it.call_method(o, 'point', Rat.const(1))),
                                       ('derivative(0)', lambda o: it.call_method(o, 'derivative', Rat.const(0))),
                                       ('derivative(1)', lambda o: it.call_method(o, 'derivative', Rat.const(1))),
                                       ('bbox()', lambda o: it.call_method(o, 'bbox'))):
                        try:
                            g_, w_ = call_(res), call_(fresh)
                        except Undecidable:
                            continue
                        if isinstance(g_, tuple) and isinstance(w_, tuple) and len(g_) == len(w_):
                            row += [('%s[%d]' % (nm_, i_), a_, b_) for i_, (a_, b_) in enumerate(zip(g_, w_))]
                        else:
                            row.append((nm_, g_, w_))
                    out.append(row)
                return out
            try:
                paths = explore(mdl, th, {'time_limit': 20})
            except Undecidable as e:
                und = und or str(e)
                if 'time limit' in str(e):
                    break               # the other circles would run into the same wall
                continue
            for pth in paths:
                if pth.raised is not None:
                    if pth.raised.exc_name not in ('AssertionError',):
                        und = und or 'raises %s' % pth.raised.exc_name
                    continue
                for i, res in enumerate(pth.value):
                    if res is None:
                        continue
                    n += 1
                    for k_, got, want in res:
                        if k_ == 'theta':
                            g_, w_ = to_rat(got).as_fraction(), to_rat(want).as_fraction()
                            if g_ is None or w_ is None:
                                ok = decide_equal(got, want)[0]
                            else:
                                ok = (g_ - w_) % 360 == 0
                        else:
                            ok = decide_equal(got, want)[0]
                        if ok is False:
                            bad.append('%s #%d of the circle (centre %s, r %d, from %d deg, %s): %s is %s, its own fields define %s' % (
                                label, i, short(c, 8), r, 90 * k0, 'sweep' if sweep else 'no sweep', k_, short(got, 16), short(want, 16)))
                        elif ok is None:
                            und = und or '%s: %s = %s not reduced' % (label, k_, short(got, 24))
        if und and not bad:
            ctx.undecided('R04.8', fi.qualname, 'Arc.%s: returned arcs carry the derived state of their own fields' % label, und, where=where(fi))
        else:
            ctx.record('R04.8', fi.qualname, 'Arc.%s: returned arcs carry the derived state of their own fields' % label, not bad,
                       detail='; '.join(bad[:2]), where=where(fi), sample={'arcs_compared': n})


def _chain(large, sweep):
    """the oracle's F.6.5 quantities, each with the atom that abstracts it"""
    S, E = Rat.csym('S'), Rat.csym('E')
    rot = Rat.sym('rot')
    rx0, ry0 = Rat.sym('rx0'), Rat.sym('ry0')
    poly.POSITIVE.update({'rx0', 'ry0'})
    phi = rot * PI / 180
    rotm = apply_fn('exp', I * phi)
    Z = Rat.csym('z1')                     # x1' + i y1'
    z_val = (S - E) / 2 / rotm
    x, y = Z.real(), Z.imag()
    RC = Rat.sym('rc')
    rc_val = x * x / (rx0 * rx0) + y * y / (ry0 * ry0)
    vals = [('z1', z_val, Z), ('rc', rc_val, RC)]
    variants = {}
    for scaled in (False, True):
        rx = rx0 * apply_fn('sqrt', RC) if scaled else rx0
        ry = ry0 * apply_fn('sqrt', RC) if scaled else ry0
        tmp = rx * rx * y * y + ry * ry * x * x
        RAD = Rat.sym('radicand_%s' % ('s' if scaled else 'u'))
        vals.append((('radicand', scaled), (rx * rx * ry * ry - tmp) / tmp, RAD))
        for radzero in (False, True):
            radical = Rat.const(0) if radzero else apply_fn('sqrt', RAD)
            sgn = -1 if large == sweep else 1
            cp = sgn * radical * (rx * y / ry - I * ry * x / rx)
            u1 = (x - cp.real()) / rx + I * (y - cp.imag()) / ry
            u2 = (-x - cp.real()) / rx + I * (-y - cp.imag()) / ry
            tag = (scaled, radzero)
            clipc = lambda w: apply_fn('clip', w.real()) + I * apply_fn('clip', w.imag())
            U1c, U2c = clipc(u1), clipc(u2)
            DOT = U1c.real() * U2c.real() + U1c.imag() * U2c.imag()
            DOTc = apply_fn('clip', DOT)
            DET = U1c.real() * U2c.imag() - U1c.imag() * U2c.real()
            variants[tag] = dict(rx=rx, ry=ry, RAD=RAD, cp=cp, U1c=U1c, U2c=U2c, DOT=DOT, DOTc=DOTc, DET=DET, U1=u1, U2=u2)
    return dict(S=S, E=E, rot=rot, rx0=rx0, ry0=ry0, rotm=rotm, Z=Z, RC=RC, vals=vals, variants=variants)


def _run_init(it, ch, large, sweep, autoscale=True):
    info = it.model.cls('path.Arc')
    init = info.method('__init__')
    o = Obj(info)
    kw = {} if autoscale else {'autoscale_radius': False}
    it.call_closure(Closure(init, init.node, None, init.module, o, info),
                    [ch['S'], ch['rx0'] + I * ch['ry0'], ch['rot'], large, sweep, ch['E']], kw)
    return o


def _f65(ctx, mdl, large, sweep):
    fi = mdl.func(Q)
    ch = _chain(large, sweep)
    opts = {'abstract_values': {'*': ch['vals']}}

    def th(it):
        o = _run_init(it, ch, large, sweep)
        tags = {}
        for q, name, tag, atom, v in it.definitions:
            tags.setdefault(tag if isinstance(tag, str) else tag[0], []).append(tag)
        scaled = path_sign(it, ch['RC'] - 1)
        # equalities this path knows (e.g. rx0 == ry0 on a circular branch): every comparison below is made modulo them
        sub = dict(getattr(it.trace, 'subst', None) or {})
        sb = (lambda x: to_rat(x).subst(sub)) if sub else (lambda x: x)
        facts = {'scaled': scaled, 'tags': tags, 'subst': sub}
        for t, var in ch['variants'].items():
            if t[0] == (scaled == frozenset('+')):
                sgn, key, _ = __import__('svtstatic.interp', fromlist=['x'])._canon_diff(var['RAD'])
                facts[('close',) + t] = it.trace.signs.get('close:' + key)
                facts[('u1im',) + t] = path_sign(it, sb(var['U1c'].imag()))
                facts[('u1re',) + t] = path_sign(it, sb(var['U1c'].real()))
                facts[('det',) + t] = path_sign(it, sb(var['DET']))
                facts[('dot',) + t] = path_sign(it, sb(var['DOT']))
        facts['signs'] = dict(it.trace.signs)
        return o, facts

    results4 = []
    results5 = []

    def judge(v):
        o, facts = v
        tags = facts['tags']
        sub = facts.get('subst') or {}

        def sb(x):
            try:
                return to_rat(x).subst(sub) if sub else x
            except Exception:
                return x

        def de(a, b):
            return decide_equal(sb(a), sb(b))
        probs4, probs5 = [], []
        if 'z1' not in tags or 'rc' not in tags:
            return None, "x1'/radius_check were not recognised as locals of _parameterize (tags seen: %s)" % sorted(tags)
        if facts['scaled'] not in (frozenset('+'), frozenset('-0')):
            results4.append(['the radius correction is not controlled by the test radius_check > 1 (this path knows sign(radius_check-1) in {%s})'
                             % ','.join(sorted(facts['scaled']))])
            results5.append([])
            return False, results4[-1][0]
        scaled = facts['scaled'] == frozenset('+')
        # radical: decided from what the path knows about the (scaled or unscaled) radicand
        cz = facts.get(('close', scaled, True))
        if ('radicand', scaled) not in tags.get('radicand', []):
            exp_variants = [(scaled, True), (scaled, False)]
            radzero = None
        elif cz == frozenset('0'):
            radzero = True
        elif cz == frozenset('+'):
            radzero = False
        else:
            radzero = None
        cands = [(scaled, radzero)] if radzero is not None else [(scaled, True), (scaled, False)]
        # radius
        var0 = ch['variants'][(scaled, False)]
        exp_radius = var0['rx'] + I * var0['ry'] if scaled else ch['rx0'] + I * ch['ry0']
        ok, d = de(o.attrs['radius'], exp_radius)
        if ok is not True:
            probs4.append('stored radius: ' + d)
        # the derived parameterisation does not re-write the constructor's own state: end points, rotation and the two
        # quantities documented as phi = radians(rotation), rot_matrix = exp(i phi)
        for attr, want in (('start', ch['S']), ('end', ch['E']), ('rotation', ch['rot']), ('phi', ch['rot'] * PI / 180), ('rot_matrix', ch['rotm'])):
            if attr in o.attrs:
                try:
                    ok, d = de(o.attrs[attr], want)
                except Exception:
                    ok, d = None, ''
                if ok is False:
                    probs4.append('after construction %s is not the value the arguments define: %s' % (attr, d))
        for attr, want in (('large_arc', large), ('sweep', sweep)):
            if attr in o.attrs and isinstance(o.attrs[attr], bool) and o.attrs[attr] is not want:
                probs4.append('after construction %s is %r for the argument %r' % (attr, o.attrs[attr], want))
        # centre: must equal the F.6.5 centre of a variant the path justifies
        matched = None
        last = ''
        for t in cands:
            ok, d = de(o.attrs['center'], ch['rotm'] * ch['variants'][t]['cp'] + (ch['S'] + ch['E']) / 2)
            if ok is True:
                matched = t
                break
            last = d
        if matched is None:
            # does it match the *other* radical choice?  then the guard is the problem
            other = [(scaled, True), (scaled, False)]
            hit = [t for t in other if de(o.attrs['center'], ch['rotm'] * ch['variants'][t]['cp'] + (ch['S'] + ch['E']) / 2)[0] is True]
            if hit and hit[0][1] is False:
                probs4.append('sqrt(radicand) is taken on a path that has not excluded radicand ~ 0 (rounding can make it negative: NaN centre)')
            elif hit:
                probs4.append('radical is 0 on a path that does not know the radicand to be (close to) zero')
            else:
                probs4.append('center: ' + last)
        elif radzero is None:
            if matched[1]:
                probs4.append('radical is 0 on a path that does not know the radicand to be (close to) zero')
            else:
                probs4.append('sqrt(radicand) is taken on a path that has not excluded radicand ~ 0 (rounding can make it negative: NaN centre)')
        if probs4:
            results4.append(probs4)
            results5.append([])
            return False, '; '.join(probs4)
        sc_used, radzero = matched
        var = ch['variants'][matched]
        # ---- theta table
        t = (sc_used, radzero)
        deg = lambda r: r * 180 / PI
        u1im, u1re = facts[('u1im',) + t], facts[('u1re',) + t]
        acos_u1 = deg(apply_fn('acos', var['U1c'].real()))
        if u1im == frozenset('+'):
            exp_theta = acos_u1
        elif u1im == frozenset('-'):
            exp_theta = -acos_u1
        elif u1im == frozenset('0'):
            exp_theta = Rat.const(0) if u1re == frozenset('+') else (Rat.const(180) if u1re <= frozenset('-0') else None)
        else:
            exp_theta = None
        if exp_theta is None:
            probs5.append('theta: the path does not decide the sign of u1.imag / u1.real')
        else:
            ok, d = de(o.attrs['theta'], exp_theta)
            if ok is not True:
                probs5.append('theta: ' + d)
        # ---- raw delta and adjustment
        det, dot = facts[('det',) + t], facts[('dot',) + t]
        acos_d = deg(apply_fn('acos', var['DOTc']))
        raw = None
        rawsign = None
        if det == frozenset('+'):
            raw, rawsign = acos_d, '+'
        elif det == frozenset('-'):
            raw, rawsign = -acos_d, '-'
        elif det == frozenset('0'):
            if dot == frozenset('+'):
                raw, rawsign = Rat.const(0), '0'
            elif dot <= frozenset('-0'):
                raw, rawsign = Rat.const(180), '+'
        if raw is None:
            probs5.append('delta: the path does not decide the sign of det(u1,u2) / u1.u2')
        else:
            feasible = (rawsign == '+' and (sweep != large or raw.is_const())) or (rawsign == '-' and sweep == large)
            if rawsign == '0':
                feasible = False     # u1 == u2 means start == end, excluded by the constructor
            # is the path's own belief about sign(acos) consistent (acos >= 0)?
            sgn_acos = _sign_of(facts['signs'], sb(acos_d))
            if not raw.is_const() and '+' not in sgn_acos:
                feasible = False     # acos(.) > 0 whenever det(u1,u2) != 0: the path's own decisions contradict that
            if feasible:
                k = 0
                if not sweep and rawsign == '+':
                    k = -1
                elif sweep and rawsign == '-':
                    k = 1
                ok, d = de(o.attrs['delta'], raw + 360 * k)
                if ok is not True:
                    probs5.append('delta for sweep=%s large_arc=%s raw%s0: expected raw%+d*360: %s' % (sweep, large, {'+': '>', '-': '<'}[rawsign], k, d))
        results4.append(probs4)
        results5.append(probs5)
        allp = probs4 + probs5
        return (not allp), '; '.join(allp)

    # run once, then split the verdict over the two rules
    try:
        paths = explore(ctx.model, th, opts)
    except Undecidable as e:
        ctx.undecided('R04.4', fi.qualname, 'large_arc=%s sweep=%s' % (large, sweep), str(e), where=where(fi))
        return
    p4, p5, und = [], [], []
    nret = 0
    for p in paths:
        if p.raised is not None:
            if p.raised.exc_name != 'AssertionError':
                p4.append('raises %s when %s' % (p.raised.exc_name, p.cond_text()[:150]))
            continue
        nret += 1
        del results4[:], results5[:]
        ok, d = judge(p.value)
        if ok is None:
            und.append(d)
        elif results4 or results5:
            if results4 and results4[0]:
                p4.append('when %s: %s' % (p.cond_text()[:160], '; '.join(results4[0])))
            if results5 and results5[0]:
                p5.append('when %s: %s' % (p.cond_text()[:160], '; '.join(results5[0])))
    construct = 'large_arc=%s sweep=%s (%d returning paths)' % (large, sweep, nret)
    v4 = False if p4 else (None if und else True)
    v5 = False if p5 else (None if und else True)
    ctx.record('R04.4', fi.qualname, construct, v4, detail=' | '.join((p4 or und)[:3])[:900], where=where(fi), sample={'paths': len(paths)})
    ctx.record('R04.5', fi.qualname, construct, v5, detail=' | '.join((p5 or und)[:3])[:900], where=where(fi), sample={'paths': len(paths)})
    ctx.record('R04.4', fi.qualname, 'large_arc=%s sweep=%s: at least 8 returning paths explored' % (large, sweep), nret >= 8,
               detail='only %d' % nret, where=where(fi), nontrivial=False)
    ctx.record('R04.5', fi.qualname, 'large_arc=%s sweep=%s: both theta signs and both delta signs reached' % (large, sweep), nret >= 8,
               detail='only %d' % nret, where=where(fi), nontrivial=False)


def _sign_of(signs, expr):
    from svtstatic.interp import _canon_diff
    if expr.is_const():
        c = expr.const_value()[0]
        return frozenset('+' if c > 0 else ('-' if c < 0 else '0'))
    sgn, key, _ = _canon_diff(expr)
    cur = signs.get(key, frozenset('-0+'))
    if sgn < 0:
        cur = frozenset({'-': '+', '+': '-', '0': '0'}[c] for c in cur)
    return cur


def _f65_noautoscale(ctx, mdl):
    """autoscale_radius=False: a too small radius must raise, never be silently kept"""
    fi = mdl.func(Q)
    ch = _chain(True, False)
    opts = {'abstract_values': {'*': ch['vals']}}

    def th(it):
        o = _run_init(it, ch, True, False, autoscale=False)
        return path_sign(it, ch['RC'] - 1), o
    try:
        paths = explore(ctx.model, th, opts)
    except Undecidable as e:
        ctx.undecided('R04.4', fi.qualname, 'autoscale_radius=False', str(e), where=where(fi))
        return
    bad = []
    raised = 0
    for p in paths:
        if p.raised is not None and p.raised.exc_name == 'ValueError':
            raised += 1
        elif p.raised is None and p.value[0] == frozenset('+'):
            bad.append('returns although radius_check > 1 and autoscale_radius is False')
        elif p.raised is None:
            ok, d = decide_equal(p.value[1].attrs['radius'], ch['rx0'] + I * ch['ry0'])
            if ok is not True:
                bad.append('radius changed although it fits: ' + d)
    if raised == 0:
        bad.append('no path raises ValueError')
    ctx.record('R04.4', fi.qualname, 'autoscale_radius=False raises iff radius_check > 1', not bad, detail='; '.join(bad[:3]), where=where(fi))
