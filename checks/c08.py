"""C08 - bbox() contains the curve and every side of it is touched by the curve.

Decided: candidate-set completeness (end points + all interior critical points of each
coordinate) for cubic, generic Bezier, Line, Arc; the closed-form cubic candidates are the
critical points (identity) and the discriminant test loses none; the polynomials handed to the
root finder are the coordinate derivatives; slot protocol (xmin,xmax,ymin,ymax) between producers
and consumers; Arc critical angles annihilate the derivative, the k range covers the documented
angle range; Path / big_bounding_box take min of mins / max of maxes.
Not decided: that numeric root finding returns the roots (F10 class, C19), rounding."""
import ast
from fractions import Fraction as Fr
from svtstatic import poly
from svtstatic.values import ExtRef
from .common import *

PROPERTY = 'C08'
LEVEL = 'other'
I = Rat.const(1j)


def mm_hooks():
    return {'builtins.min': lambda it, a, k: ('min', it.iterate(a[0]) if len(a) == 1 else list(a)),
            'builtins.max': lambda it, a, k: ('max', it.iterate(a[0]) if len(a) == 1 else list(a))}


def is_tag(v, tag):
    return isinstance(v, tuple) and len(v) == 2 and v[0] == tag


def same_set(a, b):
    """multiset equality of two lists of Rats (as normal forms)"""
    ka = sorted(to_rat(x).key() for x in a)
    kb = sorted(to_rat(x).key() for x in b)
    return ka == kb


def run(ctx):
    mdl = ctx.model
    ctx.assume('documented ranges: theta in [-180,180], delta in [-360,360] degrees; atan returns values in (-pi/2, pi/2]')
    ctx.assume('min/max are modelled as selectors over the candidate list handed to them')
    ctx.rule('R08.1', 'cubic closed form: the candidates are the roots of the coordinate derivative; delta is a positive multiple of its '
                      'discriminant; every root inside (0,1) and both end points are evaluated; degenerate leading coefficient falls back', 1)
    ctx.rule('R08.2', 'generic Bezier box: real/imag derivative polynomials go to the root finder with a filter no stricter than 0<r<1; '
                      'candidate sets contain 0 and 1', 2)
    ctx.rule('R08.3', 'slot protocol: producers return (min re, max re, min im, max im); consumers unpack in that order', 7)
    ctx.rule('R08.4', 'Arc.bbox: critical angles annihilate the coordinate derivatives, parameters solve angle(t) = atan + k*pi, '
                      'k covers -3..3, end points are candidates', 4)
    ctx.rule('R08.5', 'Path.bbox / big_bounding_box: min of mins, max of maxes per slot', 2)
    ob = lambda r: Obligation(ctx, r)

    cubic_minmax(ctx, 'R08.1')

    # ---------------------------------------------------------------- R08.2 generic box (quadratic)
    fbb = mdl.func('bezier.bezier_bounding_box')
    calls = []

    def pr(it, a, k, calls=calls):
        calls.append((a[0], dict(k)))
        return [Rat.sym('root%d' % len(calls))]

    def th_box(it):
        del calls[:]
        P = cpoints(3)
        r = it.call(it.closure_of('bezier.bezier_bounding_box'), [tuple(P)], {})
        conds = []
        for p, k in calls:
            c = k.get('condition')
            rr = Rat.sym('r_in')
            conds.append(it.truth(it.call(c, [rr], {})) if c is not None else True)
        return r, list(calls), conds, P
    pre = [(Rat.sym('r_in'), '+'), (Rat.sym('r_in') - 1, '-')]

    def judge_box(v):
        r, calls, conds, P = v
        if len(r) != 4 or not (is_tag(r[0], 'min') and is_tag(r[1], 'max') and is_tag(r[2], 'min') and is_tag(r[3], 'max')):
            return False, 'result is not (min, max, min, max)'
        B = bernstein(P, T)
        probs = []
        if len(calls) != 2:
            return False, '%d root-finder calls' % len(calls)
        for (p, k), part, nm in zip(calls, (B.real(), B.imag()), ('x', 'y')):
            if not isinstance(p, PolyT):
                probs.append('%s: root finder not given a poly1d' % nm)
                continue
            ok, d = decide_equal(p(T), part.diff('t'))
            if ok is not True:
                probs.append("%s: polynomial is not d%s/dt: %s" % (nm, nm, d))
            if k.get('realroots') is not True:
                probs.append('%s: realroots=True missing' % nm)
        if not all(conds):
            probs.append('root filter rejects a root inside (0,1)')
        for slot, part, root in ((0, B.real(), 'root1'), (1, B.real(), 'root1'), (2, B.imag(), 'root2'), (3, B.imag(), 'root2')):
            cands = [to_rat(x) for x in r[slot][1]]
            need = [part.subst({'t': Rat.const(0)}), part.subst({'t': Rat.const(1)}), part.subst({'t': Rat.sym(root)})]
            for n_, nm in zip(need, ('t=0', 't=1', 'the interior root')):
                if not any(c.equals(n_) for c in cands):
                    probs.append('slot %d lacks the candidate at %s' % (slot, nm))
        return not probs, '; '.join(probs)
    ob('R08.2').run(fbb, 'bezier_bounding_box on a quadratic: polynomials, filters, candidate sets', th_box, judge_box,
                    opts={'ext_hooks': mm_hooks(), 'call_hooks': {'polytools.polyroots': pr}, 'presign': pre})

    def th_box4(it):
        P = cpoints(4)
        seen = []

        def rm(it2, a, k):
            seen.append(list(a[0]))
            return (Rat.sym('lo%d' % len(seen)), Rat.sym('hi%d' % len(seen)))
        it.call_hooks['bezier.bezier_real_minmax'] = rm
        r = it.call(it.closure_of('bezier.bezier_bounding_box'), [tuple(P)], {})
        return r, seen, P

    def judge_box4(v):
        r, seen, P = v
        if len(seen) != 2:
            return False, 'bezier_real_minmax called %d times' % len(seen)
        pairs = [('x coords[%d]' % i, seen[0][i], P[i].real()) for i in range(4)] + [('y coords[%d]' % i, seen[1][i], P[i].imag()) for i in range(4)]
        pairs += [('xmin', r[0], Rat.sym('lo1')), ('xmax', r[1], Rat.sym('hi1')), ('ymin', r[2], Rat.sym('lo2')), ('ymax', r[3], Rat.sym('hi2'))]
        return decide_all_equal(pairs)
    ob('R08.2').run(fbb, 'bezier_bounding_box on a cubic: per-coordinate delegation and slot order', th_box4, judge_box4)

    # ---------------------------------------------------------------- R08.3 producers
    fl = mdl.func('path.Line.bbox')
    PL = cpoints(2)

    def judge_line(v):
        if len(v) != 4 or not (is_tag(v[0], 'min') and is_tag(v[1], 'max') and is_tag(v[2], 'min') and is_tag(v[3], 'max')):
            return False, 'result is not (min, max, min, max)'
        ok = same_set(v[0][1], [PL[0].real(), PL[1].real()]) and same_set(v[1][1], [PL[0].real(), PL[1].real()]) and \
            same_set(v[2][1], [PL[0].imag(), PL[1].imag()]) and same_set(v[3][1], [PL[0].imag(), PL[1].imag()])
        return ok, '' if ok else 'slots are not (x of the end points, x, y, y)'
    ob('R08.3').run(fl, 'Line.bbox slots', lambda it: it.call_method(it.construct('path.Line', *PL), 'bbox'), judge_line,
                    opts={'ext_hooks': mm_hooks()})
    for cname, n in (('QuadraticBezier', 3), ('CubicBezier', 4)):
        f = mdl.func('path.%s.bbox' % cname)

        def th_d(it, cname=cname, n=n):
            got = {}
            it.call_hooks['bezier.bezier_bounding_box'] = lambda it2, a, k: got.update(arg=a[0]) or 'BOX'
            o = it.construct('path.' + cname, *cpoints(n))
            return it.call_method(o, 'bbox'), got, o
        ob('R08.3').run(f, '%s.bbox delegates to bezier_bounding_box(self)' % cname, th_d,
                        lambda v: (v[0] == 'BOX' and v[1].get('arg') is v[2], 'does not return bezier_bounding_box(self)'))
    # consumers, decided on discriminating concrete boxes
    fbi = mdl.func('bezier.boxes_intersect')

    def th_bi(it):
        f = it.closure_of('bezier.boxes_intersect')
        b = lambda *x: tuple(Fr(v) for v in x)
        return [bool(it.truth(it.call(f, [b(0, 1, 10, 11), b(Fr(1, 2), 2, Fr(21, 2), 12)], {}))),
                bool(it.truth(it.call(f, [b(0, 1, 10, 11), b(5, 6, 10, 11)], {}))),
                bool(it.truth(it.call(f, [b(0, 1, 10, 11), b(0, 1, 20, 21)], {}))),
                bool(it.truth(it.call(f, [b(0, 10, 0, 1), b(9, 12, Fr(1, 2), 5)], {})))]
    ob('R08.3').run(fbi, 'boxes_intersect unpacks (xmin,xmax,ymin,ymax)', th_bi,
                    lambda v: (v == [True, False, False, True], 'answers %s on the discriminating boxes, expected [True, False, False, True]' % v))
    fba = mdl.func('bezier.box_area')
    X0, X1, Y0, Y1 = [Rat.sym(n_) for n_ in ('x0', 'x1', 'y0', 'y1')]
    ob('R08.3').run(fba, 'box_area(xmin,xmax,ymin,ymax) == (xmax-xmin)(ymax-ymin)',
                    lambda it: it.call(it.closure_of('bezier.box_area'), [X0, X1, Y0, Y1], {}),
                    lambda v: decide_equal(v, (X1 - X0) * (Y1 - Y0)))
    fb2p = mdl.func('path.bbox2path')

    def th_b2p(it):
        p = it.call(it.closure_of('path.bbox2path'), [X0, X1, Y0, Y1], {})
        return [(s.attrs['start'], s.attrs['end']) for s in it.iterate(p)]

    def judge_b2p(v):
        if len(v) != 4:
            return False, '%d segments' % len(v)
        corners = [X0 + I * Y0, X1 + I * Y0, X1 + I * Y1, X0 + I * Y1]
        starts = [s for s, e in v]
        if not same_set(starts, corners):
            return False, 'the four corners are not (xmin|xmax) + 1j(ymin|ymax)'
        return decide_all_equal([('joint %d' % i, v[i][1], v[(i + 1) % 4][0]) for i in range(4)])
    ob('R08.3').run(fb2p, 'bbox2path corners and closure', th_b2p, judge_b2p)
    # disvg turns the big bounding box into a viewBox "xmin ymin width height" (semantic check of its slot use)
    fdis = mdl.func('paths2svg.disvg')
    bx0, bx1, by0, by1 = [Rat.sym(n_) for n_ in ('bx0', 'bx1', 'by0', 'by1')]

    def th_dis(it):
        from svtstatic.values import PyFunc
        got = {}
        dwg = Opaque('Drawing')
        dwg.attrs['path'] = PyFunc(lambda it2, a, k: 'PATHEL', 'path')
        dwg.attrs['add'] = PyFunc(lambda it2, a, k: None, 'add')
        it.ext_hooks['svgwrite.Drawing'] = lambda it2, a, k: got.update(k) or dwg
        for nm in ('os.path.join', 'os.path.abspath', 'os.path.dirname', 'os.path.splitext', 'os.path.split'):
            it.ext_hooks[nm] = lambda it2, a, k: 'PATHSTR'
        it.ext_hooks['os.path.exists'] = lambda it2, a, k: True
        it.call_hooks['paths2svg.big_bounding_box'] = lambda it2, a, k: (bx0, bx1, by0, by1)
        it.call_hooks['path.Path.d'] = lambda it2, a, k: 'D'
        p1 = it.construct('path.Path', it.construct('path.Line', Rat.csym('a'), Rat.csym('b')))
        it.call(it.closure_of('paths2svg.disvg'), [[p1]], {'filename': 'f.svg', 'paths2Drawing': True, 'openinbrowser': False,
                                                            'stroke_widths': [Rat.const(0)], 'margin_size': Rat.sym('mg')})
        return got

    def judge_dis(v):
        vb = v.get('viewBox')
        from svtstatic.values import StrT, Hole
        if not isinstance(vb, StrT):
            return False, 'viewBox is %r' % (vb,)
        holes = [to_rat(p_.value) for p_ in vb.parts if isinstance(p_, Hole)]
        if len(holes) != 4:
            return False, 'viewBox has %d numbers' % len(holes)
        mg = Rat.sym('mg')
        dx, dy = bx1 - bx0, by1 - by0
        return decide_all_equal([('viewBox x', holes[0], bx0 - mg * dx), ('viewBox y', holes[1], by0 - mg * dy),
                                 ('viewBox width', holes[2], dx + 2 * mg * dx), ('viewBox height', holes[3], dy + 2 * mg * dy)])
    ob('R08.3').run(fdis, 'disvg: viewBox = (xmin - m dx, ymin - m dy, dx(1+2m), dy(1+2m)) from big_bounding_box', th_dis, judge_dis,
                    opts={'presign': [(bx1 - bx0, '+'), (by1 - by0, '+')]})

    # ---------------------------------------------------------------- R08.4 Arc.bbox
    _arc_bbox(ctx, mdl)

    # ---------------------------------------------------------------- R08.5 unions
    fpb = mdl.func('path.Path.bbox')

    def th_pb(it):
        segs = [it.construct('path.Line', Rat.csym('A%d' % k), Rat.csym('B%d' % k)) for k in range(2)]
        boxes = {id(s): tuple(Rat.sym('%s%d' % (n_, k)) for n_ in ('xa', 'xb', 'ya', 'yb')) for k, s in enumerate(segs)}
        it.call_hooks['path.Line.bbox'] = lambda it2, a, k: boxes[id(a[0])]
        p = it.construct('path.Path', *segs)
        return it.call_method(p, 'bbox'), it.call(it.closure_of('paths2svg.big_bounding_box'), [[p, segs[0]]], {}), boxes, segs

    def judge_union(v):
        r, big, boxes, segs = v
        probs = []
        for res, nm, members in ((r, 'Path.bbox', [boxes[id(s)] for s in segs]),):
            if len(res) != 4:
                return False, '%s does not return 4 slots' % nm
            for slot, tag in enumerate(('min', 'max', 'min', 'max')):
                if not is_tag(res[slot], tag) or not same_set(res[slot][1], [m[slot] for m in members]):
                    probs.append('%s slot %d is not %s over the segments\' slot %d' % (nm, slot, tag, slot))
        if len(big) != 4 or not all(is_tag(big[s_], t_) for s_, t_ in enumerate(('min', 'max', 'min', 'max'))):
            probs.append('big_bounding_box does not return (min, max, min, max)')
        return not probs, '; '.join(probs)
    # Path.bbox touches the segment boxes only through comparisons: decided on every sign/order pattern of two boxes
    import itertools
    vals = [Fr(-2), Fr(-1), Fr(1), Fr(2)]
    bad = []
    und = None
    n_cases = 0
    for a_, b_ in itertools.product(vals, repeat=2):
        for c_, d_ in ((Fr(-3), Fr(-1)), (Fr(1), Fr(3)), (Fr(-1), Fr(1))):
            boxA = (a_, a_ + 1, c_, c_ + 1)
            boxB = (b_, b_ + 1, d_, d_ + 1)
            n_cases += 1

            def th_c(it, boxA=boxA, boxB=boxB):
                segs = [it.construct('path.Line', Rat.csym('A%d' % k), Rat.csym('B%d' % k)) for k in range(2)]
                boxes = {id(segs[0]): boxA, id(segs[1]): boxB}
                it.call_hooks['path.Line.bbox'] = lambda it2, a, k: boxes[id(a[0])]
                p = it.construct('path.Path', *segs)
                return it.call_method(p, 'bbox')
            try:
                for pth in explore(ctx.model, th_c, {}):
                    if pth.raised is not None:
                        bad.append('raises %s' % pth.raised.exc_name)
                        continue
                    from svtstatic.values import concrete_number
                    got = [concrete_number(x) for x in pth.value]
                    exp = [min(boxA[0], boxB[0]), max(boxA[1], boxB[1]), min(boxA[2], boxB[2]), max(boxA[3], boxB[3])]
                    if got != exp:
                        bad.append('boxes %s, %s -> %s (union is %s)' % (tuple(map(str, boxA)), tuple(map(str, boxB)), [str(g) for g in got], [str(e) for e in exp]))
            except Undecidable as e:
                und = str(e)
    if und:
        ctx.undecided('R08.5', fpb.qualname, 'Path.bbox union on concrete boxes', und, where=where(fpb))
    else:
        ctx.record('R08.5', fpb.qualname, 'Path.bbox is the slot-wise union on %d sign/order patterns of two boxes' % n_cases, not bad,
                   detail='; '.join(bad[:2]), where=where(fpb), sample={'patterns': n_cases})
    ob('R08.5').run(mdl.func('paths2svg.big_bounding_box'), 'big_bounding_box is the slot-wise union', th_pb, judge_union, opts={'ext_hooks': mm_hooks()})


def _arc_bbox(ctx, mdl):
    fi = mdl.func('path.Arc.bbox')
    for label, rot in (('general rotation', None), ('rotation = 90', Rat.const(90)), ('rotation = 0', Rat.const(0))):
        atans = []

        def atan_hook(it, a, k, atans=atans):
            atans.append(to_rat(a[0]))
            return Rat.sym('ATAN%d' % len(atans))
        pts = []

        def th(it, rot=rot, atans=atans, pts=pts):
            del atans[:]
            del pts[:]
            a = sym_arc(it, 'A', True, True, rotation=rot)
            orig_point = a.cls.methods['point']

            def pt_hook(it2, args, k):
                pts.append(to_rat(args[1]))
                return Rat.csym('PT%d' % len(pts))
            it.call_hooks['path.Arc.point'] = pt_hook
            r = it.call_method(a, 'bbox')
            return r, a, list(atans), list(pts)
        phi = Rat.sym('A.rot') * PI / 180
        opts = arc_opts(mdl, {'ext_hooks': dict(mm_hooks(), **{'math.atan': atan_hook, 'numpy.arctan': atan_hook}), 'no_fork': True})
        if rot is None:
            opts['presign'] = [(apply_fn('cos', phi), '-+'), (apply_fn('sin', phi), '-+')]

        def judge(v, rot=rot):
            r, a, atans, pts = v
            probs = []
            if len(r) != 4 or not all(is_tag(r[s_], t_) for s_, t_ in enumerate(('min', 'max', 'min', 'max'))):
                return False, 'result is not (min x, max x, min y, max y)'
            if not same_set(r[0][1], r[1][1]) or not same_set(r[2][1], r[3][1]):
                probs.append('min and max are taken over different candidate lists')
            xs, ys = [to_rat(x) for x in r[0][1]], [to_rat(y) for y in r[2][1]]
            st, en = a.attrs['start'], a.attrs['end']
            for lst, part, nm in ((xs, 'real', 'x'), (ys, 'imag', 'y')):
                for e_, en_ in ((st, 'start'), (en, 'end')):
                    val = getattr(e_, part)()
                    if not any(c.equals(val) for c in lst):
                        probs.append('%s of %s is not a candidate' % (nm, en_))
            rx, ry = a.attrs['radius'].real(), a.attrs['radius'].imag()
            ph = a.attrs['rotation'] * PI / 180
            c, s = apply_fn('cos', ph), apply_fn('sin', ph)
            theta, delta = a.attrs['theta'], a.attrs['delta']
            # critical angles
            if rot is None:
                if len(atans) != 2:
                    return None, 'expected two atan() evaluations, saw %d' % len(atans)
                ax, ay = Rat.sym('ATAN1'), Rat.sym('ATAN2')
                ok, d = decide_equal(-rx * c * atans[0] - ry * s, 0)
                if ok is not True:
                    probs.append("x'(a) does not vanish where tan a = %s: %s" % (short(atans[0], 50), d))
                ok, d = decide_equal(-rx * s * atans[1] + ry * c, 0)
                if ok is not True:
                    probs.append("y'(a) does not vanish where tan a = %s: %s" % (short(atans[1], 50), d))
            else:
                # axis-aligned special cases: the constants pi/2 and 0 must be the zeros of x' and y'
                ax = PI / 2 if rot.equals(90) else Rat.const(0)
                ay = Rat.const(0) if rot.equals(90) else PI / 2
                ex = -rx * c * apply_fn('sin', ax) - ry * s * apply_fn('cos', ax)
                ey = -rx * s * apply_fn('sin', ay) + ry * c * apply_fn('cos', ay)
                ok, d = decide_all_equal([("x'(atan_x)", ex, 0), ("y'(atan_y)", ey, 0)])
                if ok is not True:
                    probs.append('special-case critical angles are wrong: ' + d)
            # parameters: for each k in -3..3 and each family there must be a candidate t with angle(t) == atan + k pi
            ks = {'x': set(), 'y': set()}
            for t in pts:
                ang = (theta + delta * t) * PI / 180
                for fam, at in (('x', ax), ('y', ay)):
                    q = (ang - at) / PI
                    f = q.as_fraction() if q.is_const() else None
                    if f is not None and f.denominator == 1:
                        ks[fam].add(int(f))
            need = set(range(-3, 4))
            for fam in ('x', 'y'):
                if not need <= ks[fam]:
                    probs.append('%s-extrema: k = %s are never examined (angle range is [-3pi, 3pi])' % (fam, sorted(need - ks[fam])))
            return not probs, '; '.join(probs)
        Obligation(ctx, 'R08.4').run(fi, 'Arc.bbox candidates, %s' % label, th, judge, allowed_raises=('AssertionError',), opts=opts)
    # the candidates are admitted exactly for parameters in the CLOSED interval [0,1]: a concrete arc (rotation 0, theta 0, delta 180)
    # whose critical parameters are the integers k (x family) and k + 1/2 (y family)
    seen = []

    def th_adm(it):
        del seen[:]
        a = sym_arc(it, 'A', True, True, rotation=Rat.const(0))
        a.attrs['theta'], a.attrs['delta'] = Rat.const(0), Rat.const(180)
        it.call_hooks['path.Arc.point'] = lambda it2, args, k: seen.append(to_rat(args[1])) or Rat.csym('PT%d' % len(seen))
        it.call_method(a, 'bbox')
        return sorted(x.as_fraction() for x in seen if x.is_const())

    def judge_adm(v):
        exp = [Fr(0), Fr(1, 2), Fr(1)]
        if v == exp:
            return True, ''
        missing = [str(x) for x in exp if x not in v]
        extra = [str(x) for x in v if x not in exp]
        return False, 'critical parameters examined: %s; %s%s' % ([str(x) for x in v],
                                                                  ('t = %s (on the boundary of [0,1]) not admitted: an extremum at an end parameter of the family is lost; ' % ', '.join(missing)) if missing else '',
                                                                  ('t = %s outside [0,1] admitted' % ', '.join(extra)) if extra else '')
    Obligation(ctx, 'R08.4').run(fi, 'critical parameters are admitted on the closed interval [0,1]', th_adm, judge_adm, allowed_raises=('AssertionError',),
                                 opts=arc_opts(mdl, {'ext_hooks': mm_hooks()}))


def cubic_minmax(ctx, rule):
    mdl = ctx.model
    ob = lambda r: Obligation(ctx, r)
    # ---------------------------------------------------------------- R08.1 cubic closed form
    frm = mdl.func('bezier.bezier_real_minmax')
    A = [Rat.sym('a%d' % i) for i in range(4)]
    Bt = bernstein(A, T)
    dB = Bt.diff('t')
    # quadratic A2 t^2 + B2 t + C2 = dB
    dpoly = dB.num
    coef = lambda k: Rat(Poly({tuple((a, e) for a, e in m if a != 't'): c for m, c in dpoly.t.items()
                               if dict(m).get('t', 0) == k}))
    disc = coef(1) * coef(1) - 4 * coef(2) * coef(0)
    roots_seen = {}

    def pr01(it, a, k, roots_seen=roots_seen):
        roots_seen['poly'] = a[0]
        return [Rat.sym('rho')]

    def th_cubic(it):
        roots_seen.clear()
        r = it.call(it.closure_of('bezier.bezier_real_minmax'), [list(A)], {})
        return r, [d for d in it.definitions], dict(roots_seen), it
    D = Rat.sym('DELTA')
    opts = {'ext_hooks': mm_hooks(), 'call_hooks': {'polytools.polyroots01': pr01, 'bezier.polyroots01': pr01},
            'abstract': {frm.qualname: {'delta'}},
            # value-directed as well: whatever the local is called, a common positive multiple of the discriminant of B' is kept atomic
            'abstract_values': {'*': [('delta', disc * k_, D) for k_ in (Fr(1, 36), Fr(1, 9), Fr(1, 4), Fr(1, 12), Fr(1), Fr(4), Fr(9), Fr(36), Fr(1, 144))]}}

    cache = {}

    def judge_cubic(v):
        (mn, mx), defs, seen, it = v
        if not (is_tag(mn, 'min') and is_tag(mx, 'max')):
            return False, 'result is not (min(candidates), max(candidates))'
        if not same_set(mn[1], mx[1]):
            return False, 'min and max are taken over different candidate sets'
        cands = [to_rat(x) for x in mn[1]]
        probs = []
        for end, nm in ((A[0], 'B(0)'), (A[3], 'B(1)')):
            if not any(c.equals(end) for c in cands):
                probs.append('%s is not a candidate' % nm)
        delta_def = [d for d in defs if d[1] == 'delta' or d[2] == 'delta']
        if 'poly' in seen:
            # generic path: the polynomial must be the derivative
            p = seen['poly']
            cs = p.d if isinstance(p, Arr) else (p.c if isinstance(p, PolyT) else list(p))
            val = Rat.const(0)
            for c in cs:
                val = val * T + to_rat(c)
            ok, d = decide_equal(val, dB)
            if ok is not True:
                probs.append('polynomial handed to polyroots01 is not B\'(t): ' + d)
            if not any(c.equals(bernstein(A, Rat.sym('rho'))) for c in cands):
                probs.append('the numeric roots are not evaluated')
            return not probs, '; '.join(probs)
        denom_sign = path_sign(it, A[0] - 3 * A[1] + 3 * A[2] - A[3])
        if denom_sign == frozenset('0'):
            # the coordinate is at most quadratic in t: its interior extremum must still be looked for
            return False, 'leading coefficient zero (degree-elevated parabola): no derivative roots are evaluated, the interior extremum is lost'
        if not delta_def:
            return None, 'local `delta` not found: closed form restructured'
        datom, dval = delta_def[0][3], delta_def[0][4]
        f = None
        if dval.is_poly() and disc.is_poly() and dval.num.t:
            m0 = min(dval.num.t)
            if m0 in disc.num.t and dval.num.t[m0][1] == 0 and disc.num.t[m0][1] == 0:
                k_ = disc.num.t[m0][0] / dval.num.t[m0][0]
                if (disc - k_ * dval).is_zero():
                    f = k_
        if f is None or f <= 0:
            probs.append('delta is not a positive multiple of the discriminant of B\' (discriminant %s, delta %s)' % (short(disc, 80), short(dval, 80)))
        dsign = path_sign(it, datom)
        if dsign <= frozenset('0+'):
            # candidates other than the end points are values at the two roots r = (tau +- sqrt(delta))/denom
            inner = [c for c in cands if not (c.equals(A[0]) or c.equals(A[3]))]
            sq = apply_fn('sqrt', datom)
            denom = A[0] - 3 * A[1] + 3 * A[2] - A[3]
            tau = A[0] - 2 * A[1] + A[2]
            exp_roots = [(tau + sq) / denom, (tau - sq) / denom]
            # the roots really are roots of B'(t) = A2 t^2 + B2 t + C2:  tau/denom == -B2/(2 A2)  and
            # delta/denom^2 == disc/(4 A2^2)   (polynomial identities, checked once)
            if 'roots' not in cache:
                A2, B2 = coef(2), coef(1)
                cache['roots'] = decide_all_equal([('centre of the roots', 2 * A2 * tau, -B2 * denom),
                                                   ('spread of the roots', disc * denom * denom, 4 * A2 * A2 * dval)])
            ok, d = cache['roots']
            if ok is not True:
                probs.append("(tau +- sqrt(delta))/denom are not the roots of B': " + d)
            for i, r in enumerate(exp_roots):
                outside = path_sign(it, r) <= frozenset('-0') or path_sign(it, r - 1) <= frozenset('0+')
                val = bernstein(A, r)
                present = any(c.equals(val) for c in inner)
                if not present and not outside:
                    probs.append('root r%d may lie in (0,1) on this path (nothing excludes it) but B(r%d) is not a candidate' % (i + 1, i + 1))
        return not probs, '; '.join(probs)
    ob(rule).run(frm, 'bezier_real_minmax on a cubic coordinate: candidate set on every path', th_cubic, judge_cubic, opts=opts)

