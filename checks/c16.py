"""C16 - observations after any mutation history equal those of a fresh object.

Typestate / effect analysis on the CFG of every method of Path and of the cache-carrying segment
classes: every mutator invalidates, every cache hit is keyed, eq/hash read consistent fields,
nobody outside the owner writes the private state.  Decided for all histories (all code paths);
numeric equality of recomputed values is trusted to determinism."""
import ast
from fractions import Fraction as Fr
from svtstatic.cfg import CFG, EXIT, ENTRY, RAISE, describe, guards_of, walk_no_nested, enclosing_stmt
from svtstatic.values import Closure
from svtstatic.model import AnchorMissing
from .common import *

PROPERTY = 'C16'
LEVEL = 'other'

LIST_MUTATORS = {'append', 'extend', 'insert', 'pop', 'remove', 'reverse', 'clear', 'sort', '__setitem__',
                 '__delitem__', '__iadd__'}
MAY_SHRINK = {'pop', 'remove', 'clear', '__delitem__', 'subscript-store', 'subscript-delete', 'rebind'}
PATH_PRIVATE = {'_segments', '_length', '_lengths', '_start', '_end', '_length_tol'}
SEG_PRIVATE = {'_length_info': ('QuadraticBezier', 'CubicBezier'), 'segment_length': ('Arc',),
               'segment_length_hash': ('Arc',)}


def self_attr(node, name=None):
    return isinstance(node, ast.Attribute) and isinstance(node.value, ast.Name) and node.value.id == 'self' \
        and (name is None or node.attr == name)


def aliases_of(func, attr):
    """local names bound by a plain `x = self.<attr>` (and never re-bound otherwise)"""
    cand, other = set(), set()
    for n in walk_no_nested(func):
        if isinstance(n, ast.Assign):
            for t in n.targets:
                if isinstance(t, ast.Name):
                    (cand if self_attr(n.value, attr) else other).add(t.id)
        elif isinstance(n, (ast.AugAssign, ast.For)) and isinstance(getattr(n, 'target', None), ast.Name):
            other.add(n.target.id)
    return cand - other


def is_store_ref(node, aliases):
    """node denotes the segment list: self._segments or an alias"""
    return self_attr(node, '_segments') or (isinstance(node, ast.Name) and node.id in aliases)


def mutation_sites(func):
    """[(stmt, kind, text)] statements of `func` that can mutate the segment store of self"""
    al = aliases_of(func, '_segments')
    sites = []
    for n in walk_no_nested(func):
        st = None
        kind = None
        if isinstance(n, ast.Subscript) and is_store_ref(n.value, al) and isinstance(n.ctx, (ast.Store, ast.Del)):
            kind = 'subscript-store' if isinstance(n.ctx, ast.Store) else 'subscript-delete'
        elif isinstance(n, ast.Call) and isinstance(n.func, ast.Attribute) and n.func.attr in LIST_MUTATORS \
                and is_store_ref(n.func.value, al):
            kind = n.func.attr
        elif isinstance(n, ast.Attribute) and isinstance(n.ctx, ast.Store) and self_attr(n, '_segments'):
            kind = 'rebind'
        elif isinstance(n, ast.AugAssign) and is_store_ref(n.target, al):
            kind = '__iadd__'
        elif isinstance(n, ast.Attribute) and isinstance(n.ctx, ast.Store) and isinstance(n.value, ast.Subscript) \
                and is_store_ref(n.value.value, al):
            kind = 'element-field-store'
        if kind:
            st = enclosing_stmt(n)
            sites.append((st, kind, norm(st).split('\n')[0][:90]))
    return sites


_SUMMARY = {}   # (class qualname) -> {method name: set of (attr, 'none'|'any') assigned on every path}


def must_assign_summaries(cls):
    """for each method of cls: which self attributes are assigned on EVERY normal path (helper extraction
    must not blind the rules): two rounds of propagation through self.m() calls"""
    key = cls.qualname
    if key in _SUMMARY:
        return _SUMMARY[key]
    summ = {}
    _SUMMARY[key] = summ
    for _round in range(3):
        for name, fi in list(cls.methods.items()):
            cfg = CFG(fi.node)
            got = set()
            cands = {}
            for n in walk_no_nested(fi.node):
                if isinstance(n, ast.Assign):
                    for t in n.targets:
                        if self_attr(t):
                            cands.setdefault((t.attr, 'none' if is_none(n.value) else 'val'), []).append(n)
                            cands.setdefault((t.attr, 'any'), []).append(n)
                st = n if isinstance(n, ast.stmt) else None
                if isinstance(n, ast.Call) and isinstance(n.func, ast.Attribute) and isinstance(n.func.value, ast.Name) \
                        and n.func.value.id == 'self' and n.func.attr in summ and n.func.attr != name:
                    for k in summ[n.func.attr]:
                        cands.setdefault(k, []).append(enclosing_stmt(n))
            for k, sts in cands.items():
                if cfg.must_pass(ENTRY, EXIT, sts):
                    got.add(k)
            summ[name] = got
    return summ


def stmts_assigning_self(func, attr, value_pred=None, cls=None):
    out = []
    kind = 'none' if value_pred is is_none else 'any'
    summ = must_assign_summaries(cls) if cls is not None else {}
    for n in walk_no_nested(func):
        if isinstance(n, ast.Assign) and any(self_attr(t, attr) for t in n.targets):
            if value_pred is None or value_pred(n.value):
                out.append(n)
        elif isinstance(n, ast.Call) and isinstance(n.func, ast.Attribute) and isinstance(n.func.value, ast.Name) \
                and n.func.value.id == 'self' and (attr, kind) in summ.get(n.func.attr, ()):
            out.append(enclosing_stmt(n))
    return out


def is_none(e):
    return isinstance(e, ast.Constant) and e.value is None


def mentions(e, pred):
    return any(pred(n) for n in ast.walk(e))


def run(ctx):
    mdl = ctx.model
    pm = mdl.module('path')
    PathC = mdl.cls('path.Path')
    ctx.assume('MutableSequence mixin methods (append, extend, pop, remove, reverse, clear, +=) reduce to the '
               "class's own insert/__setitem__/__delitem__ (collections.abc contract)")
    ctx.assume('recomputed values are deterministic functions of the segments (numeric equality not re-derived)')
    ctx.rule('R16.1', 'every statement of Path that can mutate the segment store is followed, on every CFG path to a '
                      'normal exit, by self._length = None (outside the construction phase)', 5)
    ctx.rule('R16.2', 'the same paths refresh self._start and self._end; after a mutation that can shrink the list, '
                      'constant-index reads of the store are guarded by an emptiness test', 5)
    ctx.rule('R16.3', 'every cache hit is keyed: control-dependent on key equality and, where tolerances are '
                      'parameters, on guards of the right direction; fills write value and all key fields', 6)
    ctx.rule('R16.4', 'every read of _length/_lengths in Path is dominated by a call of a method that (decided by interpretation from the '
                      'invalidated state) leaves a correct table behind; point/T2t/t2T/length on an invalidated path do not depend on what '
                      'was left in _lengths', 4)
    ctx.rule('R16.10', 'primitive mutators (__setitem__, __delitem__, insert, overridden mixins, start/end setters) run from a consistent '
                       'populated state on all index shapes and path sizes: no stale length table, cached end points == new end points', 5)
    ctx.rule('R16.5', 'a cache object shared with a copy is re-keyed to the copy\'s control points in ctor order', 2)
    ctx.rule('R16.6', 'no statement outside the owning class writes the private cache/store fields', 1)
    ctx.rule('R16.7', 'fields read by __hash__ are a subset of those compared by __eq__; __eq__ compares the '
                      'constructor-defining fields; __ne__ is its negation', 5)
    ctx.rule('R16.8', 'construction phase: _parse_path (which appends without invalidating) is only called from '
                      'Path.__init__', 1)

    # ------------------------------------------------------------------ R16.8 construction phase
    construction = {'__init__'}
    callers = []
    for f in mdl.all_functions():
        for n in ast.walk(f.node):
            if isinstance(n, ast.Call) and isinstance(n.func, ast.Attribute) and n.func.attr == '_parse_path':
                callers.append(f)
    if '_parse_path' in PathC.methods:
        only_init = all(f.cls is PathC and f.name == '__init__' for f in callers)
        ctx.record('R16.8', 'path.Path._parse_path', 'callers=' + ','.join(sorted({f.qualname for f in callers})),
                   only_init and len(callers) >= 1,
                   detail='' if only_init else 'called outside Path.__init__: the parser mutates the store without invalidation',
                   where=where(PathC.methods['_parse_path']))
        if only_init:
            construction.add('_parse_path')
    else:
        raise AnchorMissing('path.Path._parse_path')

    # ------------------------------------------------------------------ R16.10 semantic post-state of the primitive mutators
    sem = _semantic_mutators(ctx, mdl, PathC)
    for label, probs in sorted(sem.items()):
        fi_ = PathC.setters[label.split(':')[0]] if label.endswith(':setter') else PathC.methods[label]
        if None in probs:
            ctx.undecided('R16.10', fi_.qualname, 'post-state of %s' % label, 'a case left the interpretable fragment', where=where(fi_))
        else:
            ctx.record('R16.10', 'path.Path.' + label, 'post-state of %s' % label, not probs, detail=' | '.join(probs[:4]), where=where(fi_))
    verified = {label for label, probs in sem.items() if probs == []}

    # ------------------------------------------------------------------ R16.1 / R16.2
    n_sites = 0
    for fi in sorted(PathC.all_funcs(), key=lambda f: f.line):
        if fi.name in construction:
            continue
        sites = mutation_sites(fi.node)
        if not sites:
            continue
        cfg = CFG(fi.node)
        inv = stmts_assigning_self(fi.node, '_length', is_none, PathC)
        st_start = stmts_assigning_self(fi.node, '_start', None, PathC)
        st_end = stmts_assigning_self(fi.node, '_end', None, PathC)
        label = fi.qualname + (':setter' if fi.name in PathC.setters and PathC.setters[fi.name] is fi else '')
        for st, kind, text in sites:
            n_sites += 1
            construct = '%s|%s' % (kind, text)
            # invalidation may also precede the mutation provided nothing recomputes in between
            ok = cfg.must_pass(st, EXIT, inv) or (st in inv)
            if not ok and inv:
                pre = cfg.dominated_by(st, set(inv))
                if pre and not _recompute_between(cfg, inv, st):
                    ok = True
            detail = ''
            semlabel = fi.name + (':setter' if label.endswith(':setter') else '')
            if not ok and semlabel in verified:
                ok = True      # the statement-level argument is inconclusive (e.g. correlated guards in helpers); R16.10 decided the method
                detail = 'discharged by R16.10 (post-state of %s verified by interpretation)' % semlabel
            elif not ok:
                p = cfg.path(st, EXIT, avoid=inv)
                detail = 'path to exit without `self._length = None`: ' + ' -> '.join(describe(x) for x in (p or []))
            ctx.record('R16.1', label, construct, ok, detail=detail, where=where(fi, st),
                       sample={'mutation': text, 'kind': kind, 'invalidations': [describe(i) for i in inv]})
            # R16.2: end-point cache refreshed on every path (start setter may assign _start before the mutation)
            miss = []
            for nm, sts in (('_start', st_start), ('_end', st_end)):
                good = cfg.must_pass(st, EXIT, sts) or (sts and cfg.dominated_by(st, set(sts)) and _is_setter_of(fi, nm))
                if kind == 'element-field-store' and not _touches_end(st, nm):
                    good = True   # e.g. `self._segments[0].start = pt` cannot change the path's end
                if not good and semlabel in verified:
                    good = True
                if not good:
                    p = cfg.path(st, EXIT, avoid=sts)
                    miss.append('%s not refreshed on: %s' % (nm, ' -> '.join(describe(x) for x in (p or []))))
            ctx.record('R16.2', label, 'refresh|' + construct, not miss, detail=' ; '.join(miss), where=where(fi, st))
            if kind in MAY_SHRINK:
                after = cfg.reachable(st)
                bad = []
                for n2 in walk_no_nested(fi.node):
                    if isinstance(n2, ast.Subscript) and isinstance(n2.ctx, ast.Load) and self_attr(n2.value, '_segments') \
                            and isinstance(n2.slice, (ast.Constant, ast.UnaryOp)):
                        s2 = enclosing_stmt(n2)
                        if s2 in after and s2 is not st:
                            g = guards_of(s2, fi.node)
                            if not any(mentions(t, lambda x: self_attr(x, '_segments')) for t, pol in g):
                                bad.append('L%d %s' % (s2.lineno, norm(n2)))
                ctx.record('R16.2', label, 'emptiness-guard|' + construct, not bad,
                           detail=('unguarded read of the store after a mutation that can empty it: ' + ', '.join(bad)) if bad else '',
                           where=where(fi, st))
    ctx.extra['mutation_sites'] = n_sites

    # ------------------------------------------------------------------ R16.3 keyed cache hits
    kinds = _tolerance_kinds(ctx, mdl)
    for cname, keyparams in (('QuadraticBezier', ()), ('CubicBezier', ('error', 'min_depth'))):
        fi = mdl.func('path.%s.length' % cname)
        _check_length_info_cache(ctx, fi, keyparams, kinds, cname)
    _check_arc_cache(ctx, mdl.func('path.Arc.length'))
    ensurers, writers, not_builders = _ensurers(ctx, mdl, PathC)
    if not ensurers:
        if not writers:
            raise AnchorMissing('no method of Path stores a length table')
        # the table is stored somewhere, but nothing rebuilds it once it has been invalidated: every reader is stale after a mutation
        for name, why in sorted(not_builders.items()):
            if why:
                ctx.record('R16.4', 'path.Path.' + name, 'rebuilds the table of an invalidated path', False,
                           detail='called on a path whose table was invalidated (_length = None) it leaves %s: the stale fractions keep being used' % why,
                           where=where(PathC.methods[name]))
        if not any(not_builders.values()):
            raise AnchorMissing('no method of Path rebuilds the length table from the invalidated state')
    _path_cache_tolerances(ctx, mdl, PathC, ensurers, kinds)

    # ------------------------------------------------------------------ R16.9 every memo on a mutable segment is keyed
    ctx.rule('R16.9', 'segment classes: an attribute stored outside __init__ (a memo) is only read under a guard on the current control '
                      'points (bpoints()/hash(self)); the frozen table of known memos is checked by R16.3', 4)
    KNOWN_MEMOS = {'_length_info', 'segment_length', 'segment_length_hash'}
    sem_memo = {}
    for cname in ('Line', 'QuadraticBezier', 'CubicBezier', 'Arc'):
        cls = mdl.cls('path.' + cname)
        init = cls.method('__init__')
        # the construction phase: __init__ and every method it reaches through self.<method>() calls (e.g. _parameterize and
        # helpers it is split into).  What these store is derived state of the constructor, not a memo.
        ctor_phase = {'__init__'}
        work = [init]
        while work:
            f_ = work.pop()
            for c_ in walk_no_nested(f_.node):
                if isinstance(c_, ast.Call) and isinstance(c_.func, ast.Attribute) and self_attr(c_.func) and c_.func.attr in cls.methods \
                        and c_.func.attr not in ctor_phase:
                    ctor_phase.add(c_.func.attr)
                    work.append(cls.methods[c_.func.attr])
        ctor_fields = set()
        for nm_ in ctor_phase:
            ctor_fields |= {n.attr for n in ast.walk(cls.methods[nm_].node) if isinstance(n, ast.Attribute) and isinstance(n.ctx, ast.Store) and self_attr(n)}
        memos = {}
        for fi in cls.all_funcs():
            if fi.name in ctor_phase:
                continue
            for n in walk_no_nested(fi.node):
                tgt = None
                if isinstance(n, ast.Attribute) and isinstance(n.ctx, ast.Store) and self_attr(n):
                    tgt = n.attr
                elif isinstance(n, ast.Subscript) and isinstance(n.ctx, ast.Store) and self_attr(n.value):
                    tgt = n.value.attr
                if tgt and (tgt not in ctor_fields or tgt in KNOWN_MEMOS or tgt.startswith('_')) and tgt not in ('start', 'end', 'control', 'control1', 'control2'):
                    memos.setdefault(tgt, []).append((fi, n))
        unknown = sorted(set(memos) - KNOWN_MEMOS)
        bad = []
        for mname in unknown:
            for fi in cls.all_funcs():
                if fi.name == '__init__':
                    continue
                for n in walk_no_nested(fi.node):
                    if isinstance(n, ast.Attribute) and isinstance(n.ctx, ast.Load) and self_attr(n, mname):
                        st = enclosing_stmt(n)
                        sites = [st]
                        if isinstance(st, ast.Assign) and len(st.targets) == 1 and isinstance(st.targets[0], ast.Name) and st.value is n:
                            # `memo = self._x_memo`: what matters is where the alias is USED (the key test itself is not a use)
                            al_ = st.targets[0].id
                            sites = []
                            for u in walk_no_nested(fi.node):
                                if isinstance(u, ast.Name) and u.id == al_ and isinstance(u.ctx, ast.Load):
                                    su = enclosing_stmt(u)
                                    if isinstance(su, ast.If) and any(x is u for x in ast.walk(su.test)):
                                        continue
                                    sites.append(su)
                            if not sites:
                                continue
                        elif isinstance(st, ast.If) and any(x is n for x in ast.walk(st.test)):
                            continue
                        all_keyed = True
                        for st in sites:
                          g = _conj_guards(st, fi.node)
                          keyed = _memo_site_keyed(g, fi, mname, memos)
                          if not keyed:
                              all_keyed = False
                        if all_keyed:
                            continue
                        g = _conj_guards(sites[-1], fi.node)
                        keyed = any(mentions(t, lambda x: (isinstance(x, ast.Call) and norm(x) == 'self.bpoints()')) for t, pol in g)
                        if not keyed:
                            # keyed on the identity / value of what it was computed from: a guard `memo-part is|== <parameter or non-memo
                            # attribute>` (never a hash: hashes collide)
                            params_ = set(fi.params())
                            def side_ok(e):
                                if mentions(e, lambda x: isinstance(x, ast.Call) and isinstance(x.func, ast.Name) and x.func.id == 'hash'):
                                    return False
                                if mentions(e, lambda x: self_attr(x) and x.attr in memos):
                                    return False
                                return mentions(e, lambda x: (isinstance(x, ast.Name) and x.id in params_ and x.id != 'self') or
                                                (self_attr(x) and x.attr not in memos))
                            for t, pol in g:
                                if pol and isinstance(t, ast.Compare) and len(t.ops) == 1 and isinstance(t.ops[0], (ast.Is, ast.Eq)):
                                    l_, r_ = t.left, t.comparators[0]
                                    for a_, b_ in ((l_, r_), (r_, l_)):
                                        if mentions(a_, lambda x: self_attr(x, mname)) and side_ok(b_):
                                            keyed = True
                        if not keyed:
                            # the read is validated in some other way?  decide the reading method by a mutate-and-query history
                            key_ = (cname, fi.name)
                            if key_ not in sem_memo:
                                sem_memo[key_] = _history_equals_fresh(ctx, mdl, cname, fi, 'R16.9', record=False)
                            if sem_memo[key_] is True:
                                continue
                            bad.append('%s L%d reads memo %s without a guard on the current control points%s' % (
                                fi.qualname, n.lineno, mname, ' (and goes stale after a control point is reassigned)' if sem_memo[key_] is False else ''))
        ctx.record('R16.9', cls.qualname, 'unkeyed memos={%s}' % ','.join(sorted({b.split(' reads memo ')[1].split(' ')[0] for b in bad})), not bad,
                   detail='; '.join(bad[:3]), where=where(init), sample={'memo_attributes': sorted(memos)})

    # ------------------------------------------------------------------ R16.11 observers of a mutated segment
    ctx.rule('R16.11', 'Line/QuadraticBezier/CubicBezier: bpoints, poly, point, derivative, bbox and hash queried after a control point was '
                       'reassigned in place equal those of a freshly built segment (whatever memo the class keeps, however it is keyed)', 12)
    for cname in ('Line', 'QuadraticBezier', 'CubicBezier'):
        cls = mdl.cls('path.' + cname)
        if 'length' in cls.methods:
            _length_history(ctx, mdl, cname)
        _sequence_protocol_history(ctx, mdl, cname)
        for obs in ('bpoints', 'poly', 'point', 'derivative', 'bbox', '__hash__'):      # length(): R16.3 and the concrete history above
            if obs in cls.methods:
                r = _history_equals_fresh(ctx, mdl, cname, cls.methods[obs], 'R16.11')
                if r is None:
                    ctx.undecided('R16.11', 'path.%s.%s' % (cname, obs), 'query, reassign a control point, query again == fresh segment',
                                  'the history left the interpretable fragment', where=where(cls.methods[obs]))

    # ------------------------------------------------------------------ R16.12 one-step histories on Path
    ctx.rule('R16.12', 'Path: query, mutate, query again - point/T2t/t2T/length/start/end after every primitive mutation equal those of a '
                       'path freshly built from the new segment list (covers caches derived from the length table, whatever they are called)', 20)
    _path_histories(ctx, mdl, PathC)

    # ------------------------------------------------------------------ R16.4 reads after compute
    ctx.extra['table_builders'] = sorted(ensurers)
    for fi in sorted(PathC.all_funcs(), key=lambda f: f.line):
        if fi.name == '__init__' or fi.name in writers:
            continue
        # helpers that were entered while another builder was verified are covered by that verification
        if any(fi.name in entered and other != fi.name for other, entered in ensurers.items()):
            continue
        reads = [n for n in walk_no_nested(fi.node) if isinstance(n, ast.Attribute) and isinstance(n.ctx, ast.Load)
                 and self_attr(n) and n.attr in ('_length', '_lengths')]
        if not reads:
            continue
        cfg = CFG(fi.node)
        calls = {enclosing_stmt(n) for n in walk_no_nested(fi.node) if isinstance(n, ast.Call)
                 and isinstance(n.func, ast.Attribute) and n.func.attr in ensurers and
                 isinstance(n.func.value, ast.Name) and n.func.value.id == 'self'}
        for r in reads:
            st = enclosing_stmt(r)
            ok = cfg.dominated_by(st, calls) and st not in calls
            if not ok and fi.name.startswith('_') and not fi.name.startswith('__'):
                # a private helper with the precondition "the table is there": every call site inside the class must establish it
                ok = _callers_ensure(PathC, fi.name, set(ensurers), set())
            ctx.record('R16.4', fi.qualname, 'read %s @%s' % (r.attr, norm(st).split('\n')[0][:60]), ok,
                       detail='' if ok else 'read of self.%s not dominated by a call of a method that rebuilds the table (%s)' % (r.attr, ', '.join(sorted(ensurers))),
                       where=where(fi, st))
    _semantic_readers(ctx, mdl, PathC)

    # ------------------------------------------------------------------ R16.5 shared caches
    for cname in ('QuadraticBezier', 'CubicBezier'):
        fi = mdl.func('path.%s.reversed' % cname)
        _check_shared_cache(ctx, fi, mdl.cls('path.' + cname))
        _copy_inherits_no_stale_cache(ctx, mdl, cname, fi)

    # ------------------------------------------------------------------ R16.6 who-may-write
    hits = _foreign_writes(mdl.modules.values(), mdl)
    ctx.record('R16.6', 'package', 'foreign writers of private state', not hits,
               detail='; '.join('%s:%d %s' % h for h in hits), where='svgpathtools/*', nontrivial=True,
               sample={'scanned_modules': sorted(mdl.modules), 'hits': len(hits)})
    # embedded positive control: the scanner must fire on a known-bad snippet
    import types
    snippet = "class Other:\n    def f(self, p, seg):\n        p._segments.append(seg)\n        p._length = 3\n        seg._length_info['length'] = 1\n"
    fake = types.SimpleNamespace(tree=ast.parse(snippet), relpath='<control>')
    for parent in ast.walk(fake.tree):
        for ch in ast.iter_child_nodes(parent):
            ch._parent = parent
    if len(_foreign_writes([fake])) != 3:
        raise Exception('R16.6 positive control did not fire')

    # ------------------------------------------------------------------ R16.7 eq / hash
    for cname in ('Line', 'QuadraticBezier', 'CubicBezier', 'Arc', 'Path'):
        _check_eq_hash(ctx, mdl, mdl.cls('path.' + cname))
    ctx.exhaustive = True


def _is_setter_of(fi, nm):
    return fi.cls is not None and fi.name == nm.lstrip('_') and fi.cls.setters.get(fi.name) is fi


def _touches_end(st, nm):
    """does `self._segments[k].<field> = v` concern the path's start (k=0,.start) / end (k=-1,.end)?"""
    for n in ast.walk(st):
        if isinstance(n, ast.Attribute) and isinstance(n.ctx, ast.Store) and isinstance(n.value, ast.Subscript):
            fld = n.attr
            return (nm == '_start' and fld == 'start') or (nm == '_end' and fld == 'end') or fld not in ('start', 'end')
    return True


def _recompute_between(cfg, inv, st):
    """is there a statement calling a method on self between an invalidation and the mutation?"""
    for i in inv:
        for n in cfg.reachable(i):
            if n is st or isinstance(n, str):
                continue
            if st in cfg.reachable(n) or n is st:
                for c in ast.walk(n) if isinstance(n, ast.AST) else []:
                    if isinstance(c, ast.Call) and isinstance(c.func, ast.Attribute) and isinstance(c.func.value, ast.Name) \
                            and c.func.value.id == 'self':
                        return True
    return False


def _tolerance_kinds(ctx, mdl):
    """derive from segment_length how each tolerance parameter is compared:
    'tolerance' (recursion while measured > p: smaller is more accurate) or 'effort' (recursion while depth < p)"""
    fi0 = mdl.func('path.segment_length')
    kinds = {}
    # the recursion may live in segment_length itself or in a private worker it hands over to
    cands = [fi0] + [fi0.module.functions[c.func.id] for c in ast.walk(fi0.node)
                     if isinstance(c, ast.Call) and isinstance(c.func, ast.Name) and c.func.id in fi0.module.functions and c.func.id != fi0.name]
    for fi in cands:
      params = fi.params()
      for n in ast.walk(fi.node):
        if isinstance(n, ast.If):
            rec = any(isinstance(c, ast.Call) and isinstance(c.func, ast.Name) and c.func.id == fi.name for c in ast.walk(n))
            if not rec:
                continue
            for cmp_ in ast.walk(n.test):
                if isinstance(cmp_, ast.Compare) and len(cmp_.ops) == 1:
                    l, r, op = cmp_.left, cmp_.comparators[0], cmp_.ops[0]
                    if isinstance(r, ast.Name) and r.id in params and not (isinstance(l, ast.Name) and l.id == r.id):
                        if isinstance(op, (ast.Gt, ast.GtE)):
                            kinds[r.id] = 'tolerance'
                        elif isinstance(op, (ast.Lt, ast.LtE)):
                            kinds[r.id] = 'effort'
                    if isinstance(l, ast.Name) and l.id in params and l.id not in ('depth',) and not isinstance(r, ast.Name):
                        pass
    fi = fi0
    if kinds.get('error') != 'tolerance' or kinds.get('min_depth') != 'effort':
        if not kinds:
            # not derivable from the shape of the recursion: fall back on the documented meaning of the public parameters
            ctx.assume("'error' is an accuracy tolerance (smaller = more accurate), 'min_depth' a minimum effort (larger = more accurate): documented API meaning")
            return {'error': 'tolerance', 'min_depth': 'effort'}
        ctx.undecided('R16.3', fi.qualname, 'tolerance kinds', 'cannot derive how error/min_depth steer the recursion: %r' % kinds,
                      where=where(fi))
    return kinds


def _is_li(node, key=None):
    """self._length_info['key']"""
    return isinstance(node, ast.Subscript) and self_attr(node.value, '_length_info') and \
        isinstance(node.slice, ast.Constant) and (key is None or node.slice.value == key)


def _guard_direction_ok(test, pol, cached_pred, param, kind):
    """is there, in `test` (with polarity pol True), a comparison cached OP param with the right direction?"""
    if not pol:
        return None
    for c in ast.walk(test):
        if isinstance(c, ast.Compare) and len(c.ops) == 1:
            l, r, op = c.left, c.comparators[0], c.ops[0]
            if cached_pred(l) and isinstance(r, ast.Name) and r.id == param:
                want = (ast.LtE, ast.Lt, ast.Eq) if kind == 'tolerance' else (ast.GtE, ast.Gt, ast.Eq)
                return isinstance(op, want)
            if cached_pred(r) and isinstance(l, ast.Name) and l.id == param:
                want = (ast.GtE, ast.Gt, ast.Eq) if kind == 'tolerance' else (ast.LtE, ast.Lt, ast.Eq)
                return isinstance(op, want)
    return None


def _inline_locals(expr, func):
    """replace local names that are bound exactly once (plain assignment) by their defining expression, so that
    `bp = self.bpoints(); if cached == bp:` is read like `if cached == self.bpoints():`"""
    import copy
    once = {}
    counts = {}
    for n in walk_no_nested(func):
        if isinstance(n, ast.Assign) and len(n.targets) == 1 and isinstance(n.targets[0], ast.Name):
            counts[n.targets[0].id] = counts.get(n.targets[0].id, 0) + 1
            once[n.targets[0].id] = n.value
        elif isinstance(n, (ast.AugAssign, ast.For)) and isinstance(getattr(n, 'target', None), ast.Name):
            counts[n.target.id] = counts.get(n.target.id, 0) + 2
    args = {a.arg for a in func.args.args}
    once = {k: v for k, v in once.items() if counts.get(k) == 1 and k not in args}

    class T(ast.NodeTransformer):
        def visit_Name(self, node):
            if isinstance(node.ctx, ast.Load) and node.id in once:
                return copy.deepcopy(once[node.id])
            return node
    e = copy.deepcopy(expr)
    for _ in range(3):
        e = T().visit(e)
    return e


def _conj_guards(stmt, func):
    """guards of stmt, with `and` conjunctions under positive polarity split into their operands"""
    out = []
    for t, pol in [(_inline_locals(t0, func), p0) for t0, p0 in guards_of(stmt, func)]:
        if pol and isinstance(t, ast.BoolOp) and isinstance(t.op, ast.And):
            out.extend((v, True) for v in t.values)
        elif (not pol) and isinstance(t, ast.BoolOp) and isinstance(t.op, ast.Or):
            out.extend((v, False) for v in t.values)
        else:
            out.append((t, pol))
    return out


def _check_length_info_cache(ctx, fi, keyparams, kinds, cname):
    """semantic: run length() on a segment whose cache holds a STALE entry (value LC measured for control points K with tolerances
    EC/MC) and look at every label path: LC may be returned only where the path knows K == current control points and that the
    cached tolerances are at least as strict as the requested ones; a cache that was written must describe the current state"""
    mdl = ctx.model
    n = {'QuadraticBezier': 3, 'CubicBezier': 4}[cname]
    P, K = cpoints(n, 'P'), cpoints(n, 'K')
    LC, EC, MC, E, M = [Rat.sym(x) for x in ('LCACHED', 'ECACHED', 'MCACHED', 'EREQ', 'MREQ')]
    req = {'error': E, 'min_depth': M}
    cached = {'error': EC, 'min_depth': MC}
    for t0, t1 in ((0, 1), (1, 0), (0, Fr(1, 2))):
        def th(it, t0=t0, t1=t1):
            seg = it.construct('path.' + cname, *P)
            info = {'length': LC, 'bpoints': tuple(K)}
            info.update(cached)
            seg.attrs['_length_info'] = info
            r = it.call_method(seg, 'length', Rat.const(t0), Rat.const(t1), **req)
            return r, seg, it

        def judge(v, t0=t0, t1=t1):
            r, seg, it = v
            info = seg.attrs.get('_length_info')
            if not isinstance(info, dict):
                return None, '_length_info is no longer a dict'
            try:
                hit = 'LCACHED' in to_rat(r).key()       # the result depends on the stale entry
            except Exception:
                return None, 'length() does not return a number: %r' % (r,)
            probs = []
            if hit:
                if (t0, t1) == (0, Fr(1, 2)):
                    probs.append('the cached full length is returned for the partial interval [0, 1/2]')
                if not all(path_sign(it, K[i] - P[i]) == frozenset('0') for i in range(n)):
                    probs.append('the cached length is returned on a path that does not know the cached control points to equal the current ones')
                for p_ in keyparams:
                    sg = path_sign(it, cached[p_] - req[p_])
                    want = frozenset('-0') if kinds.get(p_) == 'tolerance' else frozenset('0+')
                    if not sg <= want:
                        probs.append('the cached length is returned without knowing that the cached %s is %s the requested one' % (
                            p_, 'at most' if kinds.get(p_) == 'tolerance' else 'at least'))
            # state of the cache afterwards
            ln = info.get('length')
            if not (isinstance(ln, Rat) and ln.equals(LC)):
                # the cache was (re)filled
                if (t0, t1) == (0, Fr(1, 2)):
                    probs.append('a partial length is stored in the full-length cache')
                bp = info.get('bpoints')
                if not (isinstance(bp, tuple) and len(bp) == n and all(to_rat(bp[i]).equals(P[i]) for i in range(n))):
                    probs.append('the cache is filled without keying it on the current control points')
                if not (isinstance(r, Rat) and isinstance(ln, Rat) and (r is ln or r.key() == ln.key())):
                    probs.append('the stored length is not the returned one')
                for p_ in keyparams:
                    if not (isinstance(info.get(p_), Rat) and info[p_].equals(req[p_])):
                        probs.append('the cache is filled without recording the requested %s' % p_)
            else:
                bp = info.get('bpoints')
                same_key = isinstance(bp, tuple) and len(bp) == n and all(to_rat(bp[i]).equals(K[i]) for i in range(n))
                if not same_key and not all(path_sign(it, K[i] - P[i]) == frozenset('0') for i in range(n)):
                    probs.append('the key of the cache is changed while the stale length stays in it')
            return not probs, '; '.join(probs)
        Obligation(ctx, 'R16.3').run(fi, 'length(%s, %s) on a segment with a stale cache entry' % (t0, t1), th, judge,
                                     allowed_raises=('AssertionError',),
                                     opts={'call_hooks': {'path.segment_length': lambda it, a, k: Rat.sym('FRESH')},
                                           'globals': {('*', '_quad_available'): False}, 'presign': [(LC, '+')]})


def _block_of(stmt):
    p = stmt._parent
    for f in ('body', 'orelse', 'finalbody'):
        b = getattr(p, f, None)
        if isinstance(b, list) and stmt in b:
            return b
    raise AnchorMissing('block of statement')


def _check_arc_cache(ctx, fi):
    func = fi.node
    rets = [n for n in walk_no_nested(func) if isinstance(n, ast.Return) and n.value is not None and self_attr(n.value, 'segment_length')]
    if not rets:
        ctx.record('R16.3', fi.qualname, 'no cached return', True, nontrivial=False, where=where(fi))
        return
    cfg = CFG(func)
    for r in rets:
        # find the miss test: an If comparing self.segment_length_hash with hash(self) (possibly via a local)
        tests = [n for n in walk_no_nested(func) if isinstance(n, ast.If) and
                 mentions(n.test, lambda x: self_attr(x, 'segment_length_hash'))]
        ok = False
        detail = 'no test of self.segment_length_hash dominates the cached return'
        for t in tests:
            if not cfg.dominated_by(r, {t}):
                continue
            hashlocals = {s.targets[0].id for s in walk_no_nested(func) if isinstance(s, ast.Assign) and
                          isinstance(s.targets[0], ast.Name) and norm(s.value) == 'hash(self)'}
            cmp_ok = any(isinstance(c, ast.Compare) and isinstance(c.ops[0], (ast.NotEq, ast.Eq)) and
                         {norm(c.left), norm(c.comparators[0])} & ({'hash(self)'} | hashlocals) and
                         'self.segment_length_hash' in {norm(c.left), norm(c.comparators[0])}
                         for c in ast.walk(t.test))
            neq = any(isinstance(c, ast.Compare) and isinstance(c.ops[0], ast.NotEq) for c in ast.walk(t.test))
            miss_body = t.body if neq else t.orelse
            wr_hash = any(isinstance(s, ast.Assign) and any(self_attr(x, 'segment_length_hash') for x in s.targets)
                          and (norm(s.value) == 'hash(self)' or norm(s.value) in hashlocals) for b in miss_body for s in ast.walk(b))
            # on the miss branch every path assigns self.segment_length
            wr_len = [s for b in miss_body for s in ast.walk(b) if isinstance(s, ast.Assign) and any(self_attr(x, 'segment_length') for x in s.targets)]
            all_paths = bool(miss_body) and (miss_body[0] in wr_len or cfg.must_pass(miss_body[0], r, set(wr_len)))
            if cmp_ok and wr_hash and wr_len and all_paths:
                ok = True
                detail = ''
            else:
                detail = 'miss branch must re-key (hash) and refill (segment_length) on every path: cmp=%s rekey=%s refill=%s allpaths=%s' % (cmp_ok, wr_hash, bool(wr_len), all_paths)
        ctx.record('R16.3', fi.qualname, 'hit@return self.segment_length', ok, detail=detail, where=where(fi, r))


def _hit_edge_block(t, neq):
    # statements of the hit branch (if any): passing through them means the key matched
    return (t.orelse if neq else t.body) or []


def _check_path_cache(ctx, fi, kinds):
    func = fi.node
    early = [n for n in walk_no_nested(func) if isinstance(n, ast.Return) and n.value is None]
    fills = stmts_assigning_self(func, '_length', lambda v: not is_none(v))
    params = [p for p in fi.params() if p in kinds]
    for r in early:
        g = _conj_guards(r, func)
        problems = []
        if not any(pol and norm(t) == 'self._length is not None' for t, pol in g):
            problems.append('early return not guarded by `self._length is not None`')
        tol_stores = _tuple_store(func, '_length_tol')
        for p in params:
            res = None
            for t, pol in g:
                d = _guard_direction_ok(t, pol, lambda x, p=p: _is_tol_elem(x, tol_stores, p), p, kinds[p])
                if d is not None:
                    res = d
            if res is None:
                problems.append('cache hit does not depend on the %s the lengths were computed with' % p)
            elif res is False:
                problems.append('guard on %s has the wrong direction for a %s parameter' % (p, kinds[p]))
        ctx.record('R16.3', fi.qualname, 'hit@early return', not problems, detail='; '.join(problems), where=where(fi, r),
                   sample={'guards': [('' if pol else 'not ') + norm(t) for t, pol in g]})
    if not early:
        ctx.record('R16.3', fi.qualname, 'no early return', True, nontrivial=False, where=where(fi))
    if fills:
        # the fill must record the tolerances it used when the hit depends on them
        tol_stores = _tuple_store(func, '_length_tol')
        ok = (not params) or (tol_stores is not None and [norm(e) for e in tol_stores] == params) or not early
        ctx.record('R16.3', fi.qualname, 'fill@self._length', ok,
                   detail='' if ok else 'fill does not record (%s) alongside the lengths' % ', '.join(params), where=where(fi, fills[0]))


def _tuple_store(func, attr):
    for n in walk_no_nested(func):
        if isinstance(n, ast.Assign) and any(self_attr(t, attr) for t in n.targets) and isinstance(n.value, ast.Tuple):
            return n.value.elts
    return None


def _is_tol_elem(x, tol_stores, p):
    """self._length_tol[i] where element i of the stored tuple is parameter p"""
    if isinstance(x, ast.Subscript) and self_attr(x.value, '_length_tol') and isinstance(x.slice, ast.Constant) and tol_stores:
        i = x.slice.value
        return isinstance(i, int) and 0 <= i < len(tol_stores) and norm(tol_stores[i]) == p
    return False


def _check_shared_cache(ctx, fi, cls):
    func = fi.node
    shares = [n for n in walk_no_nested(func) if isinstance(n, ast.Assign) and self_attr(n.value, '_length_info')
              and any(isinstance(t, ast.Attribute) and t.attr == '_length_info' for t in n.targets)]
    if not shares:
        ctx.record('R16.5', fi.qualname, 'no sharing', True, nontrivial=False, where=where(fi))
        return
    init = cls.method('__init__')
    ctor_params = init.params()[1:]
    for sh in shares:
        tgt = [t for t in sh.targets if isinstance(t, ast.Attribute)][0]
        var = norm(tgt.value)
        # ctor call that created var
        ctor_args = None
        for n in walk_no_nested(func):
            if isinstance(n, ast.Assign) and norm(n.targets[0]) == var and isinstance(n.value, ast.Call) \
                    and call_name(n.value) == cls.name:
                ctor_args = [norm(a) for a in n.value.args]
        rekey = None
        cfg = CFG(func)
        for n in walk_no_nested(func):
            if isinstance(n, ast.Assign) and isinstance(n.targets[0], ast.Subscript) and norm(n.targets[0].value) == var + '._length_info' \
                    and isinstance(n.targets[0].slice, ast.Constant) and n.targets[0].slice.value == 'bpoints':
                if cfg.must_pass(sh, EXIT, {n}):
                    rekey = n
        ok = rekey is not None and ctor_args is not None and isinstance(rekey.value, ast.Tuple) and \
            [norm(e) for e in rekey.value.elts] == ctor_args
        ctx.record('R16.5', fi.qualname, 'share@%s' % norm(sh), ok,
                   detail='' if ok else 'shared cache must be re-keyed to the copy\'s ctor arguments %s on every path (found %s)' % (
                       ctor_args, norm(rekey.value) if rekey is not None else None), where=where(fi, sh))


def _foreign_writes(modules, mdl=None):
    hits = []
    # the owner's family: the class itself and its in-package base classes (state handled by a common base is still the owner's)
    fam = {}
    if mdl is not None:
        for cn in {'Path'} | {c for v in SEG_PRIVATE.values() for c in v}:
            try:
                fam[cn] = {cn} | {b.split('.')[-1] for b in mdl.cls('path.' + cn).bases}
            except Exception:
                fam[cn] = {cn}
    in_family = lambda owner, names: owner is not None and any(owner in fam.get(n, {n}) for n in names)
    modules = list(modules)
    # a private module-level helper that is called ONLY from methods of the owner family is part of the owner (the cache handling
    # of two classes factored into one function); one call from anywhere else makes it a foreign writer
    callers = {}
    for m in modules:
        for cls_node, node in _walk_with_class(m.tree):
            if isinstance(node, ast.Call) and isinstance(node.func, ast.Name):
                callers.setdefault(node.func.id, []).append(cls_node.name if cls_node is not None else None)
    top_funcs = {}
    for m in modules:
        for st in m.tree.body:
            if isinstance(st, ast.FunctionDef):
                for n_ in ast.walk(st):
                    top_funcs[id(n_)] = st.name

    def owner_helper(node, names):
        fn = top_funcs.get(id(node))
        cs = callers.get(fn) if fn else None
        return bool(cs) and all(in_family(c, names) for c in cs)
    for m in modules:
        for cls_node, node in _walk_with_class(m.tree):
            attr = None
            if isinstance(node, ast.Attribute) and isinstance(node.ctx, (ast.Store, ast.Del)):
                attr = node
            elif isinstance(node, ast.Subscript) and isinstance(node.ctx, (ast.Store, ast.Del)) and isinstance(node.value, ast.Attribute):
                attr = node.value
            elif isinstance(node, ast.Call) and isinstance(node.func, ast.Attribute) and node.func.attr in LIST_MUTATORS \
                    and isinstance(node.func.value, ast.Attribute):
                attr = node.func.value
            elif isinstance(node, ast.AugAssign) and isinstance(node.target, ast.Attribute):
                attr = node.target
            if attr is None:
                continue
            name = attr.attr
            owner = cls_node.name if cls_node is not None else None
            if owner is None and ((name in PATH_PRIVATE and owner_helper(node, ('Path',))) or (name in SEG_PRIVATE and owner_helper(node, SEG_PRIVATE[name]))):
                continue
            if name in PATH_PRIVATE and not in_family(owner, ('Path',)):
                hits.append((m.relpath, node.lineno, '%s written outside Path: %s' % (name, norm(node)[:60])))
            elif name in SEG_PRIVATE and not in_family(owner, SEG_PRIVATE[name]):
                hits.append((m.relpath, node.lineno, '%s written outside %s: %s' % (name, '/'.join(SEG_PRIVATE[name]), norm(node)[:60])))
            elif name in PATH_PRIVATE and in_family(owner, ('Path',)) and not (isinstance(attr.value, ast.Name) and attr.value.id == 'self'):
                # inside Path, the private state of ANOTHER path object is written: a transplanted cache is not keyed to
                # that object's segments (order, orientation)
                hits.append((m.relpath, node.lineno, '%s of another Path object written: %s' % (name, norm(node)[:60])))
            elif name in SEG_PRIVATE and not (isinstance(attr.value, ast.Name) and attr.value.id == 'self'):
                # inside the owner, writes must go through self or through a fresh copy being re-keyed (R16.5)
                pass
    return hits


def _walk_with_class(tree):
    def rec(node, cls):
        for ch in ast.iter_child_nodes(node):
            c2 = ch if isinstance(ch, ast.ClassDef) else cls
            yield c2 if isinstance(ch, ast.ClassDef) else cls, ch
            for x in rec(ch, c2):
                yield x
    return rec(tree, None)


def _self_fields(func_node, recv='self'):
    out = set()
    for n in ast.walk(func_node):
        if isinstance(n, ast.Attribute) and isinstance(n.value, ast.Name) and n.value.id == recv:
            out.add(n.attr)
    return out


def _eq_hash_semantic(ctx, mdl, cls):
    from svtstatic.values import PyRaise
    """eq / ne / hash of a segment class decided by probing: two objects that differ in exactly one constructor field compare
    unequal (and != agrees), identical ones compare equal and hash alike, and the hash does not move when anything that __eq__
    does not compare is changed.  -> dict of verdicts keyed like the syntactic rule, or None when the probe leaves the fragment"""
    import hashlib
    init = cls.method('__init__')
    params = init.params()[1:]
    defining = []
    for n in ast.walk(init.node):
        if isinstance(n, ast.Assign) and self_attr(n.targets[0]):
            used = {x.id for x in ast.walk(n.value) if isinstance(x, ast.Name)}
            if used & set(params) and n.targets[0].attr not in defining:
                defining.append(n.targets[0].attr)
    exempt = {'autoscale_radius'}

    def struct(v):
        if isinstance(v, (tuple, list)):
            return '(' + ','.join(struct(x) for x in v) + ')'
        if isinstance(v, bool) or v is None:
            return repr(v)
        if isinstance(v, Obj):
            return 'obj%d' % id(v)
        try:
            return to_rat(v).key()
        except Exception:
            return repr(v)

    def hash_hook(it, a, k):
        return Rat.sym('h' + hashlib.sha1(struct(a[0]).encode()).hexdigest()[:12])

    if cls.name == 'Path':
        defining = ['_segments']

    def th(it):
        if cls.name == 'Arc':
            a = sym_arc(it, 'A', False, True)
        elif cls.name == 'Path':
            a = it.construct('path.Path', it.construct('path.Line', Rat.csym('A0'), Rat.csym('B0')), it.construct('path.Line', Rat.csym('A1'), Rat.csym('B1')))
        else:
            a = it.construct('path.' + cls.name, *cpoints(len(params)))

        def clone(changes):
            b = Obj(a.cls)
            b.attrs = dict(a.attrs)
            b.attrs.update(changes)
            return b

        def alt(f):
            v = a.attrs[f]
            if isinstance(v, bool):
                return not v
            if isinstance(v, list):        # a path's segment list: the same list with its last segment replaced by a different one
                last = v[-1]
                other = it.construct('path.Line', to_rat(last.attrs['start']) + Rat.csym('ALT_' + f), last.attrs['end'])
                return list(v[:-1]) + [other]
            return Rat.csym('ALT_' + f) + to_rat(v)
        eq = lambda x, y: bool(it.truth(it.compare_vals('eq', x, y)))
        ne = lambda x, y: bool(it.truth(it.compare_vals('ne', x, y)))
        out = {'same_eq': eq(a, clone({})), 'same_ne': ne(a, clone({})), 'other_type': eq(a, 5), 'defining': list(defining)}
        if cls.name == 'Path':
            # degenerate instances: two separately built paths without segments, and two one-segment paths (loops over
            # segment pairs run zero times / once)
            for mk in (lambda: it.construct('path.Path'),
                       lambda: it.construct('path.Path', it.construct('path.Line', Rat.csym('A0'), Rat.csym('B0')))):
                e1, e2 = mk(), mk()
                out['same_eq'] = out['same_eq'] and eq(e1, e2)
                out['same_ne'] = out['same_ne'] or ne(e1, e2)
        out['differs'] = {f: (eq(a, clone({f: alt(f)})), ne(a, clone({f: alt(f)}))) for f in defining if f in a.attrs}
        hv = lambda o: it.call_method(o, '__hash__')
        h0 = hv(a)
        out['hash_same'] = _struct_equal(h0, hv(clone({})))
        out['hash_moves'] = {}
        state = dict(a.attrs)
        for g in getattr(cls, 'class_attrs', {}) or {}:        # state that lives on the class until an instance sets it (e.g. a flag)
            if g not in state and not g.startswith('__') and g not in cls.methods:
                try:
                    v_ = it.getattr(a, g)
                except (Undecidable, PyRaise):
                    continue
                if isinstance(v_, bool) or v_ is None or isinstance(v_, (int, Rat)):
                    state[g] = v_
        for g, v in state.items():
            if g in defining or g.startswith('__'):
                continue
            if isinstance(v, dict):
                nv = dict(v, __probe__=1)
            elif isinstance(v, bool):
                nv = not v
            elif v is None:
                nv = Rat.csym('ALTX_' + g.strip('_'))
            elif isinstance(v, (list, tuple)):
                continue
            else:
                try:
                    nv = to_rat(v) + Rat.csym('ALTX_' + g.strip('_'))
                except Exception:
                    continue
            out['hash_moves'][g] = not _struct_equal(h0, hv(clone({g: nv})))
        out['hash_uses'] = {f: not _struct_equal(h0, hv(clone({f: alt(f)}))) for f in defining if f in a.attrs}
        return out
    opts = arc_opts(mdl) if cls.name == 'Arc' else {}
    opts = dict(opts)
    eh = dict(opts.get('ext_hooks', {}))
    eh['builtins.hash'] = hash_hook
    opts['ext_hooks'] = eh
    pres = list(opts.get('presign', []))
    for f in defining:
        pres.append((Rat.csym('ALT_' + f), '-+'))
    opts['presign'] = pres
    opts['time_limit'] = 30
    try:
        paths = [p for p in explore(mdl, th, opts) if p.raised is None]
    except Undecidable:
        return None
    if not paths:
        return None
    res = {'eq_ignores': set(), 'ne_disagrees': False, 'same_unequal': False, 'hash_same': True, 'hash_extra': set(), 'hash_uses': set(),
           'defining': defining, 'other_type_equal': False}
    for pth in paths:
        v = pth.value
        if not v['same_eq'] or v['same_ne']:
            res['same_unequal'] = True
        if v['other_type']:
            res['other_type_equal'] = True
        for f, (e_, n_) in v['differs'].items():
            if e_ and f not in exempt:
                res['eq_ignores'].add(f)
            if e_ == n_:
                res['ne_disagrees'] = True
        if not v['hash_same']:
            res['hash_same'] = False
        res['hash_extra'] |= {g for g, moved in v['hash_moves'].items() if moved}
        res['hash_uses'] |= {f for f, moved in v['hash_uses'].items() if moved}
    return res


def _check_eq_hash(ctx, mdl, cls):
    q = cls.qualname
    h, e, ne = cls.methods.get('__hash__'), cls.methods.get('__eq__'), cls.methods.get('__ne__')
    if h is None or e is None:
        ctx.record('R16.7', q, 'missing __eq__/__hash__', False, detail='class defines __eq__=%s __hash__=%s' % (bool(e), bool(h)), where=where(cls.methods.get('__init__')))
        return
    sem = _eq_hash_semantic(ctx, mdl, cls)
    if cls.name == 'Path' and sem is not None:
        # same instance labels as the syntactic rule below (the known finding on _closed is keyed by them)
        ctx.record('R16.7', q, '__hash__ depends only on fields', sem['hash_same'],
                   detail='' if sem['hash_same'] else 'two paths with identical segments hash differently', where=where(h))
        extra = sorted(sem['hash_extra'])
        ctx.record('R16.7', q, 'hash_fields-eq_fields={%s}' % ','.join(extra), not extra,
                   detail='' if not extra else '__hash__ moves with %s which __eq__ does not compare: equal objects can hash differently' % extra,
                   where=where(h), sample={'hash_moves_with': extra})
        if ne is not None:
            ctx.record('R16.7', q, '__ne__ negates __eq__', not sem['ne_disagrees'] and not sem['eq_ignores'] and not sem['same_unequal'],
                       detail='' if not (sem['ne_disagrees'] or sem['eq_ignores'] or sem['same_unequal']) else
                       '== / != on paths: differing segments compare equal, identical ones unequal, or == and != agree', where=where(ne))
        return
    if cls.name != 'Path':
        if sem is not None:
            # decided by probing (whatever helpers the methods are written with); same instance labels as the syntactic rule
            ctx.record('R16.7', q, '__hash__ depends only on fields', sem['hash_same'],
                       detail='' if sem['hash_same'] else 'two objects with identical fields hash differently', where=where(h))
            extra = sorted(sem['hash_extra'])
            ctx.record('R16.7', q, 'hash_fields-eq_fields={%s}' % ','.join(extra), not extra,
                       detail='' if not extra else '__hash__ moves with %s which __eq__ does not compare: equal objects can hash differently' % extra,
                       where=where(h), sample={'hash_fields': sorted(sem['hash_uses']), 'eq_fields': sorted(set(sem['defining']) - sem['eq_ignores'])})
            missing = sorted(sem['eq_ignores'])
            ctx.record('R16.7', q, 'defining_fields-eq_fields={%s}' % ','.join(missing), not missing,
                       detail='' if not missing else '__eq__ ignores constructor-defining field(s) %s' % missing, where=where(e),
                       sample={'defining': sem['defining']})
            if cls.name == 'Arc':
                missing_h = sorted(set(sem['defining']) - sem['hash_uses'] - {'autoscale_radius'})
                ctx.record('R16.7', q, 'defining_fields-hash_fields={%s}' % ','.join(missing_h), not missing_h,
                           detail='' if not missing_h else 'hash(self) keys the length cache but ignores %s' % missing_h, where=where(h))
            ok_fw = not sem['same_unequal'] and not sem['other_type_equal']
            ctx.record('R16.7', q, 'eq compares field-wise', ok_fw,
                       detail='' if ok_fw else 'objects with identical fields compare unequal, or a segment equals a number', where=where(e))
            if ne is not None:
                ctx.record('R16.7', q, '__ne__ negates __eq__', not sem['ne_disagrees'],
                           detail='' if not sem['ne_disagrees'] else '== and != give the same answer for some pair', where=where(ne))
            return
    methods = set(cls.methods) | set(cls.getters)
    hf = _self_fields(h.node) - methods
    ef = _self_fields(e.node) - methods
    # len(self) in Path.__eq__ reads the store through __len__
    if any(isinstance(n, ast.Call) and call_name(n) == 'len' and n.args and isinstance(n.args[0], ast.Name) and n.args[0].id == 'self'
           for n in ast.walk(e.node)) and '__len__' in cls.methods:
        ef |= _self_fields(cls.methods['__len__'].node)
    bare = [norm(n._parent) for n in ast.walk(h.node) if isinstance(n, ast.Name) and n.id == 'self' and isinstance(n.ctx, ast.Load)
            and not isinstance(getattr(n, '_parent', None), ast.Attribute)]
    ctx.record('R16.7', q, '__hash__ depends only on fields', not bare,
               detail='' if not bare else '__hash__ uses the object itself (%s): equal objects hash differently' % ', '.join(bare[:3]), where=where(h))
    extra = sorted(hf - ef)
    ctx.record('R16.7', q, 'hash_fields-eq_fields={%s}' % ','.join(extra), not extra,
               detail='' if not extra else '__hash__ reads %s which __eq__ ignores: equal objects can hash differently' % extra,
               where=where(h), sample={'hash_fields': sorted(hf), 'eq_fields': sorted(ef)})
    # eq covers the defining fields
    if cls.name != 'Path':
        init = cls.method('__init__')
        defining = []
        params = init.params()[1:]
        for n in ast.walk(init.node):
            if isinstance(n, ast.Assign) and self_attr(n.targets[0]):
                used = {x.id for x in ast.walk(n.value) if isinstance(x, ast.Name)}
                if used & set(params) and n.targets[0].attr not in defining:
                    defining.append(n.targets[0].attr)
        exempt = {'autoscale_radius'}   # construction policy, not geometry (frozen exception, see DESIGN.md R16.7)
        missing = sorted(set(defining) - ef - exempt)
        ctx.record('R16.7', q, 'defining_fields-eq_fields={%s}' % ','.join(missing), not missing,
                   detail='' if not missing else '__eq__ ignores constructor-defining field(s) %s' % missing, where=where(e),
                   sample={'defining': defining})
        missing_h = sorted(set(defining) - hf - exempt)
        if cls.name == 'Arc':
            # hash(self) keys Arc's length cache: it must cover every defining field the geometry reads
            ctx.record('R16.7', q, 'defining_fields-hash_fields={%s}' % ','.join(missing_h), not missing_h,
                       detail='' if not missing_h else 'hash(self) keys the length cache but ignores %s' % missing_h, where=where(h))
        # both sides compared: each field compared as self.f == other.f
        pairs_ok = all(any(isinstance(c, ast.Compare) and isinstance(c.ops[0], ast.Eq) and
                           {norm(c.left), norm(c.comparators[0])} == {'self.' + f, 'other.' + f}
                           for c in ast.walk(e.node)) for f in (ef & set(defining)))
        ctx.record('R16.7', q, 'eq compares field-wise', pairs_ok,
                   detail='' if pairs_ok else 'a field is not compared as self.f == other.f', where=where(e))
    if ne is not None:
        rets = [n for n in ast.walk(ne.node) if isinstance(n, ast.Return) and n.value is not None and norm(n.value) != 'NotImplemented']
        ok = bool(rets) and all(norm(r.value) in ('not self == other', 'not (self == other)', 'not self.__eq__(other)') for r in rets)
        ctx.record('R16.7', q, '__ne__ negates __eq__', ok, detail='' if ok else '__ne__ returns %s' % [norm(r.value) for r in rets], where=where(ne))


# ------------------------------------------------------------------------------------------------
# semantic rules for Path's caches (robust against helper extraction / renaming: nothing below depends on the NAME of the
# method that fills the table or on the shape of the statements that refresh the end points)
def _sym_path(it, n, length='stale', ends='true'):
    segs = [it.construct('path.Line', Rat.csym('A%d' % k), Rat.csym('B%d' % k)) for k in range(n)]
    p = it.construct('path.Path', *segs)
    if length == 'stale':          # a table that WAS right before the mutation under test
        p.attrs['_length'] = Rat.sym('LSTALE')
        p.attrs['_lengths'] = [Rat.sym('GSTALE%d' % k) for k in range(n)]
        p.attrs['_length_tol'] = (Rat.const(0), Rat.const(1000))
    elif length == 'invalid':      # invalidated: _length is None, the rest is whatever was left behind
        p.attrs['_length'] = None
        p.attrs['_lengths'] = [Rat.sym('GSTALE%d' % k) for k in range(n)]
        p.attrs['_length_tol'] = (Rat.const(0), Rat.const(1000))
    p.attrs['_start'] = segs[0].attrs['start'] if segs else None
    p.attrs['_end'] = segs[-1].attrs['end'] if segs else None
    return p, segs


def _mentions_symbol(v, needle, depth=0):
    if depth > 6:
        return False
    if isinstance(v, Rat):
        return needle in v.key()
    if isinstance(v, (list, tuple)):
        return any(_mentions_symbol(x, needle, depth + 1) for x in v)
    if isinstance(v, dict):
        return any(_mentions_symbol(x, needle, depth + 1) for x in v.values())
    return False


def _post_state_problems(p):
    segs = p.attrs['_segments']
    probs = []
    ln = p.attrs.get('_length')
    if ln is not None and (_mentions_symbol(ln, 'LSTALE') or _mentions_symbol(p.attrs.get('_lengths'), 'GSTALE')):
        probs.append('the length table of the old segment list survives (_length = %s)' % short(ln, 30))
    for nm, exp in (('_start', segs[0].attrs['start'] if segs else None), ('_end', segs[-1].attrs['end'] if segs else None)):
        v = p.attrs.get(nm)
        if v is None:
            continue       # the getters re-read the store when the cached end point is None
        if exp is None:
            probs.append('%s keeps %s on an emptied path' % (nm, short(v, 30)))
        elif not to_rat(v).equals(to_rat(exp)):
            probs.append('%s is %s, but the path now %s at %s' % (nm, short(v, 30), 'starts' if nm == '_start' else 'ends', short(exp, 30)))
    return probs


def _semantic_mutators(ctx, mdl, PathC):
    """every primitive mutator, from a consistent populated state, for index shapes 0 / middle / last / negative / out of range /
    slices and for paths of 3, 1 and 0 segments: afterwards the length table is gone (or rebuilt) and the cached end points are
    those of the new segment list (None on an empty path).  -> {method label: [problems]} (missing: not decided)"""
    own = getattr(PathC, 'own_methods', PathC.methods)
    cases = []
    shapes = [(3, 0), (3, 1), (3, 2), (3, -1), (3, -3), (1, 0), (1, -1)]
    if ctx.tier == 'thorough':
        shapes += [(2, 0), (2, 1), (2, -1), (2, -2), (4, 0), (4, 1), (4, 2), (4, 3), (4, -1), (4, -2), (4, -4), (3, -2)]
    for n, idx in shapes:
        cases.append(('__setitem__', n, (idx, 'NEW')))
        cases.append(('__delitem__', n, (idx,)))
    cases += [('__setitem__', 3, (slice(0, 1), ['NEW'])), ('__setitem__', 3, (slice(2, 3), ['NEW'])), ('__setitem__', 3, (slice(None), ['NEW'])),
              ('__delitem__', 3, (slice(None),)), ('__delitem__', 3, (slice(0, 1),)), ('__delitem__', 3, (slice(2, None),))]
    for n, idx in ((3, 0), (3, 1), (3, 3), (3, -1), (3, -5), (3, 10), (0, 0), (0, 5), (1, 0), (1, 1)):
        cases.append(('insert', n, (idx, 'NEW')))
    for nm, n, args in (('append', 3, ('NEW',)), ('append', 0, ('NEW',)), ('extend', 3, (['NEW'],)), ('extend', 0, (['NEW'],)), ('pop', 3, ()), ('pop', 3, (0,)),
                        ('pop', 3, (-3,)), ('pop', 3, (-1,)), ('pop', 3, (2,)), ('pop', 3, (1,)), ('pop', 1, ()), ('pop', 1, (-1,)), ('reverse', 3, ()), ('clear', 3, ()), ('remove', 3, ('SEG0',)), ('remove', 1, ('SEG0',)), ('__iadd__', 3, (['NEW'],))):
        if nm in own:          # the class overrides a MutableSequence mixin
            cases.append((nm, n, args))
    for prop in ('start', 'end'):
        if prop in PathC.setters:
            cases += [(prop + ':setter', 3, ('PT',)), (prop + ':setter', 1, ('PT',))]
    out = {}
    for meth, n, args in cases:
        def th(it, meth=meth, n=n, args=args):
            p, segs = _sym_path(it, n)
            new = it.construct('path.Line', Rat.csym('NA'), Rat.csym('NB'))
            conv = {'NEW': new, 'PT': Rat.csym('PT')}
            a = []
            for x in args:
                if x == ['NEW']:
                    a.append([new])
                elif x == 'SEG0':
                    a.append(segs[0])
                elif isinstance(x, str):
                    a.append(conv[x])
                else:
                    a.append(x)
            if meth.endswith(':setter'):
                f = PathC.setters[meth.split(':')[0]]
                it.call_closure(Closure(f, f.node, None, f.module, p, PathC), a, {})
                extra = []
                seg = p.attrs['_segments'][0 if meth.startswith('start') else -1]
                if not to_rat(seg.attrs['start' if meth.startswith('start') else 'end']).equals(Rat.csym('PT')):
                    extra.append('the end segment does not take the new point')
                return _post_state_problems(p) + extra
            it.call_method(p, meth, *a)
            return _post_state_problems(p)
        label = meth
        try:
            paths = explore(mdl, th, {})
        except Undecidable as e:
            out.setdefault(label, []).append(None)
            continue
        for pth in paths:
            if pth.raised is not None:
                continue          # e.g. IndexError for an index out of range: nothing was mutated observably? checked by the structural rule
            if pth.value:
                out.setdefault(label, []).append('%s%r on %d segment(s): %s' % (meth, tuple(args), n, '; '.join(pth.value)))
        out.setdefault(label, [])
    return out


def _ensurers(ctx, mdl, PathC):
    """methods of Path callable without arguments that, from the invalidated state, leave a correct length table behind
    -> ({name: set of Path methods entered}, writers)"""
    writers = set()
    selfcalls = {}
    for name, fi in PathC.methods.items():
        selfcalls[name] = {n.func.attr for n in walk_no_nested(fi.node) if isinstance(n, ast.Call) and isinstance(n.func, ast.Attribute)
                           and isinstance(n.func.value, ast.Name) and n.func.value.id == 'self'}
        for n in walk_no_nested(fi.node):
            if isinstance(n, ast.Assign) and any(self_attr(t, '_length') for t in n.targets) and not is_none(n.value):
                writers.add(name)
    reach = set(writers)
    changed = True
    while changed:
        changed = False
        for name, cs in selfcalls.items():
            if name not in reach and cs & reach:
                reach.add(name)
                changed = True
    found = {}
    failed = {}
    for name in sorted(reach):
        fi = PathC.methods[name]
        a = fi.node.args
        if name == '__init__' or len(a.args) - 1 > len(a.defaults) or a.vararg is not None:
            continue

        def th(it, name=name):
            p, segs = _sym_path(it, 3, length='invalid')
            from svtstatic import poly as _p
            _p.POSITIVE.update({'LEN0', 'LEN1', 'LEN2'})
            it.call_hooks['path.Line.length'] = lambda it2, aa, kk: Rat.sym('LEN%d' % [i for i, x in enumerate(segs) if x is aa[0]][0])
            it.call_method(p, name)
            return p, set(it.called)
        try:
            paths = explore(mdl, th, {})
        except (Undecidable, PyRaise, AnchorMissing):
            continue
        ok = bool(paths)
        why = ''
        entered = set()
        tot = Rat.sym('LEN0') + Rat.sym('LEN1') + Rat.sym('LEN2')
        for pth in paths:
            if pth.raised is not None:
                ok = False
                break
            p, called = pth.value
            entered |= {q.split('.')[-1] for q in called if q.startswith('path.Path.')}
            ln, fr = p.attrs.get('_length'), p.attrs.get('_lengths')
            try:
                good = ln is not None and to_rat(ln).equals(tot) and isinstance(fr, list) and len(fr) == 3 and \
                    all(to_rat(fr[k]).equals(Rat.sym('LEN%d' % k) / tot) for k in range(3))
            except Exception:
                good = False
            if not good:
                ok = False
                why = '_length = %s, _lengths = %s' % (short(ln, 30) if ln is not None else None,
                                                     [short(x, 20) for x in fr] if isinstance(fr, list) else fr)
                break
        if ok:
            found[name] = entered
        else:
            failed[name] = why
    return found, writers, failed


def _path_cache_tolerances(ctx, mdl, PathC, ensurers, kinds):
    """an ensurer that takes tolerances must not accept a table computed with weaker ones"""
    LC, EC, MC, E, M = [Rat.sym(x) for x in ('LCACHED', 'ECACHED', 'MCACHED', 'EREQ', 'MREQ')]
    req = {'error': E, 'min_depth': M}
    cached = {'error': EC, 'min_depth': MC}
    done = 0
    for name in sorted(ensurers):
        fi = PathC.methods[name]
        params = [p for p in fi.params() if p in kinds]
        if not params:
            continue
        done += 1
        seen = []

        def th(it, name=name, params=params, seen=seen):
            del seen[:]
            p, segs = _sym_path(it, 3, length=None)
            p.attrs['_length'] = LC
            p.attrs['_lengths'] = [Rat.sym('FCACHED%d' % k) for k in range(3)]
            p.attrs['_length_tol'] = (EC, MC)

            def lh(it2, aa, kk):
                seen.append(dict(kk))
                return Rat.sym('LEN%d' % [i for i, x in enumerate(segs) if x is aa[0]][0])
            it.call_hooks['path.Line.length'] = lh
            it.call_method(p, name, **{q: req[q] for q in params})
            return p, list(seen), it

        def judge(v, params=params):
            p, seen, it = v
            probs = []
            ln = p.attrs.get('_length')
            kept = ln is not None and _mentions_symbol(ln, 'LCACHED')
            if kept:
                for q in params:
                    sg = path_sign(it, cached[q] - req[q])
                    want = frozenset('-0') if kinds.get(q) == 'tolerance' else frozenset('0+')
                    if not sg <= want:
                        probs.append('the cached table is accepted without knowing that its %s is %s the requested one' % (
                            q, 'at most' if kinds.get(q) == 'tolerance' else 'at least'))
            else:
                for kw in seen:
                    for q in params:
                        if not (q in kw and to_rat(kw[q]).equals(req[q])):
                            probs.append('segment lengths are re-measured without the requested %s' % q)
                tol = p.attrs.get('_length_tol')
                if not (isinstance(tol, tuple) and len(tol) == 2 and to_rat(tol[0]).equals(E) and to_rat(tol[1]).equals(M)) and set(params) == {'error', 'min_depth'}:
                    probs.append('the rebuilt table does not record the tolerances it was measured with (_length_tol = %r)' % (tol,))
            return not probs, '; '.join(sorted(set(probs)))
        Obligation(ctx, 'R16.3').run(fi, 'Path table computed with (ECACHED, MCACHED), requested (EREQ, MREQ)', th, judge)
    if not done:
        ctx.record('R16.3', 'path.Path', 'no method that fills the length table takes tolerances', True, nontrivial=False, where='svgpathtools/path.py')


def _semantic_readers(ctx, mdl, PathC):
    """readers of the length table, from the invalidated state with garbage left in _lengths: the result must not depend on the garbage"""
    Tt, T0, T1 = Rat.sym('T'), Rat.sym('TT0'), Rat.sym('TT1')
    readers = [('point', (Tt,)), ('T2t', (Tt,)), ('t2T', (1, Rat.sym('tloc'))), ('length', (T0, T1))]
    for name, args in readers:
        if name not in PathC.methods:
            continue
        fi = PathC.methods[name]

        def th(it, name=name, args=args):
            p, segs = _sym_path(it, 3, length='invalid')
            from svtstatic import poly as _p
            _p.POSITIVE.update({'LEN0', 'LEN1', 'LEN2'})
            it.call_hooks['path.Line.length'] = lambda it2, aa, kk: Rat.sym('LEN%d' % [i for i, x in enumerate(segs) if x is aa[0]][0]) * \
                (to_rat(kk.get('t1', aa[2] if len(aa) > 2 else 1)) - to_rat(kk.get('t0', aa[1] if len(aa) > 1 else 0)))
            it.call_hooks['path.Line.point'] = lambda it2, aa, kk: ('pt', [i for i, x in enumerate(segs) if x is aa[0]][0], aa[1])
            return it.call_method(p, name, *args)

        def judge(v):
            ok = not _mentions_symbol(v, 'GSTALE')
            return ok, '' if ok else 'the result depends on the stale fractions left in _lengths after an invalidation'
        Obligation(ctx, 'R16.4').run(fi, '%s() on an invalidated path with garbage in _lengths' % name, th, judge,
                                     allowed_raises=('AssertionError', 'ValueError', 'RuntimeError', 'Exception'),   # "cannot happen" exits of the scans (infeasible label paths)
                                     opts={'presign': [(Tt, '+'), (Tt - 1, '-'), (T0, '+'), (T1 - 1, '-'), (T1 - T0, '+'), (T0 - 1, '-'), (T1, '+'),
                                                       (Rat.sym('tloc'), '+'), (Rat.sym('tloc') - 1, '-')]})


# ------------------------------------------------------------------------------------------------
# segments are mutable: an observation made after an in-place change of a control point must be the one a fresh segment gives
def _memo_site_keyed(g, fi, mname, memos):
    if any(mentions(t, lambda x: (isinstance(x, ast.Call) and norm(x) == 'self.bpoints()')) for t, pol in g):
        return True
    params_ = set(fi.params())

    def side_ok(e):
        if mentions(e, lambda x: isinstance(x, ast.Call) and isinstance(x.func, ast.Name) and x.func.id == 'hash'):
            return False
        if mentions(e, lambda x: self_attr(x) and x.attr in memos):
            return False
        return mentions(e, lambda x: (isinstance(x, ast.Name) and x.id in params_ and x.id != 'self') or (self_attr(x) and x.attr not in memos))
    for t, pol in g:
        if pol and isinstance(t, ast.Compare) and len(t.ops) == 1 and isinstance(t.ops[0], (ast.Is, ast.Eq)):
            l_, r_ = t.left, t.comparators[0]
            for a_, b_ in ((l_, r_), (r_, l_)):
                if mentions(a_, lambda x: self_attr(x, mname)) and side_ok(b_):
                    return True
    return False


def _callers_ensure(PathC, helper, ensurers, seen):
    """is every call `self.<helper>(...)` in the class dominated by a call of a table builder (directly, or because the calling
    method is itself a private helper all of whose callers do)?"""
    if helper in seen:
        return True
    seen = seen | {helper}
    sites = 0
    for fi in PathC.all_funcs():
        stmts = [enclosing_stmt(n) for n in walk_no_nested(fi.node) if isinstance(n, ast.Call) and isinstance(n.func, ast.Attribute)
                 and n.func.attr == helper and isinstance(n.func.value, ast.Name) and n.func.value.id == 'self']
        if not stmts:
            continue
        cfg = CFG(fi.node)
        calls = {enclosing_stmt(n) for n in walk_no_nested(fi.node) if isinstance(n, ast.Call) and isinstance(n.func, ast.Attribute)
                 and n.func.attr in ensurers and isinstance(n.func.value, ast.Name) and n.func.value.id == 'self'}
        for st in stmts:
            sites += 1
            if cfg.dominated_by(st, calls) and st not in calls:
                continue
            if fi.name.startswith('_') and not fi.name.startswith('__') and _callers_ensure(PathC, fi.name, ensurers, seen):
                continue
            return False
    return sites > 0


def _struct_equal(a, b, depth=0):
    if depth > 8:
        return False
    if isinstance(a, Rat) or isinstance(b, Rat) or isinstance(a, (int, float, Fr)) and isinstance(b, (int, float, Fr)):
        try:
            return to_rat(a).equals(to_rat(b))
        except Exception:
            return False
    if isinstance(a, PolyT) and isinstance(b, PolyT):
        return len(a.c) == len(b.c) and all(x.equals(y) for x, y in zip(a.c, b.c))
    if isinstance(a, Arr) and isinstance(b, Arr):
        return _struct_equal(a.d, b.d, depth + 1)
    if isinstance(a, (list, tuple)) and isinstance(b, (list, tuple)):
        return len(a) == len(b) and all(_struct_equal(x, y, depth + 1) for x, y in zip(a, b))
    if isinstance(a, dict) and isinstance(b, dict):
        return set(a) == set(b) and all(_struct_equal(a[k], b[k], depth + 1) for k in a)
    return a == b


def _history_equals_fresh(ctx, mdl, cname, fi, rule, record=True):
    """query, reassign one control point in place, query again: equal to the same query on a freshly built segment?
    -> True | False | None (cannot be run: the method needs more than one argument, or left the fragment)"""
    from .c08 import mm_hooks
    cls = mdl.cls('path.' + cname)
    fields = cls.method('__init__').params()[1:]
    if cname == 'Arc' or not fields:
        return None
    a = fi.node.args
    required = len(a.args) - 1 - len(a.defaults)
    if required > 1 or a.vararg is not None:
        return None
    args = [Rat.sym('tq')] if required == 1 else []
    n = len(fields)
    P = cpoints(n, 'P')
    NEW = Rat.csym('NEWPT')
    verdict = True
    details = []
    for k, field in enumerate(fields):
        def th(it, k=k, field=field):
            seg = it.construct('path.' + cname, *P)
            call = lambda o: it.call(Closure(fi, fi.node, None, fi.module, o, cls), list(args), {})
            call(seg)
            it.setattr(seg, field, NEW)
            after = call(seg)
            fresh = it.construct('path.' + cname, *[NEW if j == k else P[j] for j in range(n)])
            return after, call(fresh)
        def bbox_hook(it, a_, k_):
            # the generic box routine is summarised by symbols that are a function of the control points it is given
            import hashlib
            pts = it.iterate(it.call_method(a_[0], 'bpoints')) if isinstance(a_[0], Obj) else it.iterate(a_[0])
            h = hashlib.sha1('|'.join(to_rat(x).key() for x in pts).encode()).hexdigest()[:10]
            return tuple(Rat.sym('BB%d_%s' % (i, h)) for i in range(4))

        def roots_hook(it, a_, k_):
            # the roots are a function of the polynomial they are taken of (so that roots of a stale polynomial are recognisable)
            from svtstatic import poly as _pl
            cs = a_[0].c if isinstance(a_[0], PolyT) else it.iterate(a_[0])
            val = Rat.const(0)
            for c in cs:
                val = val * Rat.sym('XROOT') + to_rat(c)
            return [Rat(_pl.Poly.atom(_pl.fn_atom('rootof', val)))]
        xh = mm_hooks()
        if fi.name != '__hash__':
            # hashes may collide (hash(-1.0) == hash(-2.0)): a memo must not rely on them to tell two states apart
            xh['builtins.hash'] = lambda it, a_, k_: 7
        try:
            paths = explore(mdl, th, {'ext_hooks': xh, 'globals': {('*', '_quad_available'): False},
                                      'call_hooks': {'path.segment_length': lambda it, a_, k_: Rat.sym('SEGLEN') + to_rat(it.call_method(a_[0], 'point', Rat.const(Fr(1, 3)))).real(),
                                                     'polytools.polyroots01': roots_hook, 'polytools.polyroots': roots_hook,
                                                     'bezier.bezier_bounding_box': bbox_hook},
                                      'presign': [(Rat.sym('tq'), '+'), (Rat.sym('tq') - 1, '-')] + [(NEW - P[j], '-+') for j in range(n)]})
        except Undecidable:
            return None
        for pth in paths:
            if pth.raised is not None:
                continue
            after, fresh = pth.value
            if not _struct_equal(after, fresh):
                verdict = False
                details.append('after `seg.%s = z` %s() still answers for the old control points' % (field, fi.name))
                break
    if record:
        ctx.record(rule, 'path.%s.%s' % (cname, fi.name), 'query, reassign a control point, query again == fresh segment', verdict,
                   detail='; '.join(details[:2]), where=where(fi))
    return verdict


def _length_history(ctx, mdl, cname):
    """measure, reassign one control point in place, measure again == a freshly built segment; concrete control points in general
    position, hash() adversarial (a cache keyed on a hash cannot tell two states apart), the cache filled by the code itself -
    whatever it is called and however it is keyed."""
    cls = mdl.cls('path.' + cname)
    fi = cls.methods['length']
    fields = cls.method('__init__').params()[1:]
    n = len(fields)
    P = [Rat.const(z) for z in (0, 1 + 2j, 3 - 1j, 5 + 1j)][:n - 1] + [Rat.const(7 + 3j)]
    NEW = Rat.const(-2 + 9j)
    bad = []
    und = None
    for k, field in enumerate(fields):
        for args in ((), (0, 1), (1, 0)):
            def th(it, k=k, field=field, args=args):
                seg = it.construct('path.' + cname, *P)
                it.call_method(seg, 'length', *args)
                it.setattr(seg, field, NEW)
                fresh = it.construct('path.' + cname, *[NEW if j == k else P[j] for j in range(n)])
                return it.call_method(seg, 'length', *args), it.call_method(fresh, 'length', *args)
            seglen = lambda it, a_, k_: Rat.sym('SEGLEN') + to_rat(it.call_method(a_[0], 'point', Rat.const(Fr(1, 3)))).real() + \
                to_rat(a_[1] if len(a_) > 1 else k_.get('t0', 0)) * 7 + to_rat(a_[2] if len(a_) > 2 else k_.get('t1', 1)) * 11
            try:
                paths = explore(mdl, th, {'globals': {('*', '_quad_available'): False}, 'call_hooks': {'path.segment_length': seglen},
                                          'ext_hooks': {'builtins.hash': lambda it, a_, k_: 7}})
            except Undecidable as e:
                und = str(e)
                continue
            for pth in paths:
                if pth.raised is None and not _struct_equal(*pth.value):
                    bad.append('length%r; seg.%s = z; length%r still answers for the old control points' % (tuple(args), field, tuple(args)))
                    break
    label = 'measure, reassign a control point, measure again == fresh segment (hash adversarial)'
    if und and not bad:
        ctx.undecided('R16.11', fi.qualname, label, und, where=where(fi))
    else:
        ctx.record('R16.11', fi.qualname, label, not bad, detail='; '.join(bad[:3]), where=where(fi))


def _sequence_protocol_history(ctx, mdl, cname):
    """a segment used as a sequence of control points (seg[i], len(seg), iteration - the way the generic Bezier helpers read it):
    after the segment has been queried in every way that may fill a cache and one control point was reassigned, the sequence is
    that of a freshly built segment.  Concrete control points, hash() adversarial."""
    cls = mdl.cls('path.' + cname)
    if '__getitem__' not in cls.methods:
        return
    fi = cls.methods['__getitem__']
    fields = cls.method('__init__').params()[1:]
    n = len(fields)
    P = [Rat.const(z) for z in (0, 1 + 2j, 3 - 1j, 5 + 1j)][:n - 1] + [Rat.const(7 + 3j)]
    NEW = Rat.const(-2 + 9j)
    warm = [m for m in ('length', 'bpoints', 'poly', 'bbox', '__len__') if m in cls.methods]
    bad = []
    und = None
    for k, field in enumerate(fields):
        def th(it, k=k, field=field):
            seg = it.construct('path.' + cname, *P)
            for m in warm:
                it.call_method(seg, m)
            [it.call_method(seg, '__getitem__', i) for i in range(n)]
            it.setattr(seg, field, NEW)
            fresh = it.construct('path.' + cname, *[NEW if j == k else P[j] for j in range(n)])
            view = lambda o: ([it.call_method(o, '__getitem__', i) for i in range(n)],
                              it.call_method(o, '__len__') if '__len__' in cls.methods else None, list(it.iterate(o)))
            return view(seg), view(fresh)
        seglen = lambda it, a_, k_: Rat.sym('SEGLEN') + to_rat(it.call_method(a_[0], 'point', Rat.const(Fr(1, 3)))).real()
        try:
            from .c08 import mm_hooks
            xh = mm_hooks()
            xh['builtins.hash'] = lambda it, a_, k_: 7
            paths = explore(mdl, th, {'globals': {('*', '_quad_available'): False}, 'call_hooks': {'path.segment_length': seglen}, 'ext_hooks': xh})
        except Undecidable as e:
            und = str(e)
            continue
        for pth in paths:
            if pth.raised is None and not _struct_equal(*pth.value):
                bad.append('after `seg.%s = z` the segment read as a sequence (seg[i], len, iteration) still shows the old control points' % field)
                break
    label = 'queried, a control point reassigned: seg[i] / len / iteration == fresh segment'
    if und and not bad:
        ctx.undecided('R16.11', fi.qualname, label, und, where=where(fi))
    else:
        ctx.record('R16.11', fi.qualname, label, not bad, detail='; '.join(bad[:2]), where=where(fi))


def _copy_inherits_no_stale_cache(ctx, mdl, cname, fi):
    """measure, reassign one control point in place, take the derived copy (reversed()), measure the copy: the answer is the one a copy
    of a freshly built segment gives.  A copy that is handed its parent's length cache must be handed a VALID one."""
    cls = mdl.cls('path.' + cname)
    fields = cls.method('__init__').params()[1:]
    n = len(fields)
    # concrete control points in general position (the closed-form quadratic length is then a constant expression, no case forks)
    P = [Rat.const(z) for z in (0, 1 + 2j, 3 - 1j, 5 + 1j)][:n - 1] + [Rat.const(7 + 3j)]
    NEW = Rat.const(-2 + 9j)
    bad = []
    und = None
    for k, field in enumerate(fields):
        for first in ((), (0, 1), (1, 0)):
            def th(it, k=k, field=field, first=first):
                seg = it.construct('path.' + cname, *P)
                it.call_method(seg, 'length', *first)
                it.setattr(seg, field, NEW)
                r = it.call_method(seg, fi.name)
                fresh = it.construct('path.' + cname, *[NEW if j == k else P[j] for j in range(n)])
                rf = it.call_method(fresh, fi.name)
                return it.call_method(r, 'length'), it.call_method(rf, 'length'), it.call_method(r, 'length', 1, 0), it.call_method(rf, 'length', 1, 0)
            seglen = lambda it, a_, k_: Rat.sym('SEGLEN') + to_rat(it.call_method(a_[0], 'point', Rat.const(Fr(1, 3)))).real() + \
                to_rat(a_[1] if len(a_) > 1 else k_.get('t0', 0)) * 7 + to_rat(a_[2] if len(a_) > 2 else k_.get('t1', 1)) * 11
            try:
                paths = explore(mdl, th, {'globals': {('*', '_quad_available'): False}, 'call_hooks': {'path.segment_length': seglen},
                                          'ext_hooks': {'builtins.hash': lambda it, a_, k_: 7}})
            except Undecidable as e:
                und = str(e)
                continue
            for pth in paths:
                if pth.raised is not None:
                    continue
                a1, f1, a2, f2 = pth.value
                if not (_struct_equal(a1, f1) and _struct_equal(a2, f2)):
                    bad.append('length%r; seg.%s = z; seg.%s().length() answers for the old control points' % (tuple(first), field, fi.name))
                    break
    # ... nor a length measured loosely passed off as a tight one: measure with a loose error, take the copy, ask the copy tightly
    def th_tol(it):
        seg = it.construct('path.' + cname, *P)
        it.call_method(seg, 'length', error=Rat.const(Fr(1, 2)), min_depth=Rat.const(2))
        r = it.call_method(seg, fi.name)
        fresh = it.construct('path.' + cname, *P)
        rf = it.call_method(fresh, fi.name)
        kw = {'error': Rat.const(Fr(1, 1000)), 'min_depth': Rat.const(3)}
        return it.call_method(r, 'length', **kw), it.call_method(rf, 'length', **kw)
    seglen_tol = lambda it, a_, k_: Rat.sym('SEGLEN') + to_rat(it.call_method(a_[0], 'point', Rat.const(Fr(1, 3)))).real() + \
        to_rat(a_[5] if len(a_) > 5 else k_.get('error', 0)) * 13 + to_rat(a_[6] if len(a_) > 6 else k_.get('min_depth', 0)) * 17
    try:
        for pth in explore(mdl, th_tol, {'globals': {('*', '_quad_available'): False}, 'call_hooks': {'path.segment_length': seglen_tol},
                                        'ext_hooks': {'builtins.hash': lambda it, a_, k_: 7}}):
            if pth.raised is None and not _struct_equal(*pth.value):
                bad.append('length(error=1/2, min_depth=2); %s().length(error=1/1000, min_depth=3) returns the loosely measured length' % fi.name)
                break
    except Undecidable as e:
        und = und or str(e)
    label = 'measure, reassign a control point, %s(), measure the copy == copy of a fresh segment' % fi.name
    if und and not bad:
        ctx.undecided('R16.5', fi.qualname, label, und, where=where(fi))
    else:
        ctx.record('R16.5', fi.qualname, label, not bad, detail='; '.join(bad[:3]), where=where(fi))


def _path_histories(ctx, mdl, PathC):
    Tq = Rat.sym('Tq')
    observers = [('point', (Tq,)), ('T2t', (Tq,)), ('t2T', (1, Rat.sym('tloc'))), ('length', ()), ('start:getter', ()), ('end:getter', ())]
    mutations = [('__setitem__', (1, 'NEW')), ('__setitem__', (-1, 'NEW')), ('__delitem__', (0,)), ('insert', (0, 'NEW')), ('insert', (3, 'NEW')),
                 ('start:setter', ('PT',)), ('end:setter', ('PT',))]
    if ctx.tier != 'thorough':
        mutations = mutations[:1] + mutations[2:4] + mutations[5:]
    # MutableSequence mixins the class overrides itself are mutators of their own (they need not go through insert / __setitem__)
    own = getattr(PathC, 'own_methods', PathC.methods)
    for nm_, args_ in (('extend', (['NEW'],)), ('append', ('NEW',)), ('__iadd__', (['NEW'],)), ('pop', ()), ('reverse', ()), ('remove', ('SEG0',)), ('clear', ())):
        if nm_ in own:
            mutations.append((nm_, args_))
    lens = {}

    def seg_len(it, a, k):
        s_ = a[0]
        key = id(s_)
        if key not in lens:
            nm = 'SL%d' % len(lens)
            from svtstatic import poly as _p
            _p.POSITIVE.add(nm)
            lens[key] = (Rat.sym(nm), s_)
        base = lens[key][0]
        # a segment whose end point was moved in place has another length
        tag = to_rat(s_.attrs['start']).real() * 0 + base
        if _mentions_symbol(s_.attrs['start'], 'PT') or _mentions_symbol(s_.attrs['end'], 'PT'):
            from svtstatic import poly as _p
            _p.POSITIVE.add(base.key().split('*')[-1] + 'm')
            tag = Rat.sym(base.key().split('*')[-1] + 'm')
        t0 = to_rat(k.get('t0', a[1] if len(a) > 1 else 0))
        t1 = to_rat(k.get('t1', a[2] if len(a) > 2 else 1))
        return tag * (t1 - t0)

    for oname, oargs in observers:
        for mname, margs in mutations:
            def th(it, oname=oname, oargs=oargs, mname=mname, margs=margs):
                lens.clear()
                segs = [it.construct('path.Line', Rat.csym('A%d' % k), Rat.csym('B%d' % k)) for k in range(3)]
                p = it.construct('path.Path', *segs)
                new = it.construct('path.Line', Rat.csym('NA'), Rat.csym('NB'))
                it.call_hooks['path.Line.length'] = seg_len
                it.call_hooks['path.Line.point'] = lambda it2, a, k: ('pt', id(a[0]), a[1])

                def observe(q):
                    if oname.endswith(':getter'):
                        g = PathC.getters[oname.split(':')[0]]
                        return it.call(Closure(g, g.node, None, g.module, q, PathC), [], {})
                    return it.call_method(q, oname, *oargs)

                observe(p)
                a = [new if x == 'NEW' else ([new] if x == ['NEW'] else (segs[0] if x == 'SEG0' else (Rat.csym('PT') if x == 'PT' else x))) for x in margs]
                if mname.endswith(':setter'):
                    f = PathC.setters[mname.split(':')[0]]
                    it.call_closure(Closure(f, f.node, None, f.module, p, PathC), a, {})
                else:
                    it.call_method(p, mname, *a)
                after = observe(p)
                fresh = it.construct('path.Path', *list(p.attrs['_segments']))
                return after, observe(fresh)

            def judge(v):
                after, fresh = v
                ok = _struct_equal(after, fresh)
                return ok, '' if ok else 'answers %s, a fresh path with the same segments answers %s' % (short(repr(after), 60), short(repr(fresh), 60))
            fi = PathC.setters[mname.split(':')[0]] if mname.endswith(':setter') else PathC.methods[mname]
            Obligation(ctx, 'R16.12').run(fi, '%s() / %s%r / %s()' % (oname.split(':')[0], mname, tuple(margs), oname.split(':')[0]), th, judge,
                                          allowed_raises=('AssertionError', 'ValueError', 'RuntimeError', 'Exception', 'IndexError'), need_return=False,
                                          opts={'presign': [(Tq, '+'), (Tq - 1, '-'), (Rat.sym('tloc'), '+'), (Rat.sym('tloc') - 1, '-')]})

    # whole-path answers that an implementation may memoise (closedness, continuity, bounding box): concrete closed triangle,
    # every mutation changes the answer, so a memo that survives the mutation answers for the old path
    from fractions import Fraction as Fr
    shape_obs = [o for o in ('isclosed', 'iscontinuous', 'bbox') if o in PathC.methods]
    pts = [Rat.const(0), Rat.const(complex(1, 1)), Rat.const(2)]
    for oname in shape_obs:
        for mname, margs in mutations:
            def th2(it, oname=oname, mname=mname, margs=margs):
                segs = [it.construct('path.Line', pts[k], pts[(k + 1) % 3]) for k in range(3)]
                p = it.construct('path.Path', *segs)
                new = it.construct('path.Line', Rat.const(complex(5, 5)), Rat.const(complex(7, 6)))
                from svtstatic.values import PyRaise

                def ask(q):
                    try:
                        return it.call_method(q, oname)
                    except PyRaise as e:        # e.g. isclosed() asserts continuity: the refusal is the answer compared
                        return ('raises', e.exc_name)
                first = ask(p)
                a = [new if x == 'NEW' else ([new] if x == ['NEW'] else (segs[0] if x == 'SEG0' else (Rat.const(complex(9, -9)) if x == 'PT' else x))) for x in margs]
                if mname.endswith(':setter'):
                    f = PathC.setters[mname.split(':')[0]]
                    it.call_closure(Closure(f, f.node, None, f.module, p, PathC), a, {})
                else:
                    it.call_method(p, mname, *a)
                after = ask(p)
                fresh = it.construct('path.Path', *list(p.attrs['_segments']))
                return after, ask(fresh)

            def judge2(v):
                after, fresh = v
                ok = _struct_equal(after, fresh)
                return ok, '' if ok else 'answers %s, a fresh path with the same segments answers %s' % (short(repr(after), 60), short(repr(fresh), 60))
            fi = PathC.setters[mname.split(':')[0]] if mname.endswith(':setter') else PathC.methods[mname]
            Obligation(ctx, 'R16.12').run(fi, '%s() / %s%r / %s()' % (oname, mname, tuple(margs), oname), th2, judge2,
                                          allowed_raises=('AssertionError', 'ValueError', 'RuntimeError', 'Exception', 'IndexError'), need_return=False)
