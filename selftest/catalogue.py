"""Catalogue of single-site edits used by selftest/run.py.
(property, kind, file, old text, new text, why).  kind: 'break' (check must fire) | 'benign' (must stay silent)."""
E = []


def brk(prop, f, old, new, why):
    E.append((prop, 'break', f, old, new, why))


def ben(prop, f, old, new, why):
    E.append((prop, 'benign', f, old, new, why))


P = 'path.py'
B = 'bezier.py'

# ---------------------------------------------------------------- C03
brk('C03', P, "3*(self.start + self.control2) - 6*self.control1 + t*(", "3*(self.start + self.control2) - 6*self.control2 + t*(", 'CubicBezier.point wrong control point in Horner form')
brk('C03', P, "return 2*(p[2] - 2*p[1] + p[0])", "return 2*(p[2] - 2*p[1] - p[0])", 'QuadraticBezier.derivative n=2 sign')
brk('C03', P, "return 6*(p[3] - 3*(p[2] - p[1]) - p[0])", "return 6*(p[3] - 3*(p[2] + p[1]) - p[0])", 'CubicBezier.derivative n=3 sign')
brk('C03', P, "        coeffs = ([p[1] - p[0], p[0]])", "        coeffs = ([p[0] - p[1], p[0]])", 'Line.poly reversed difference')
brk('C03', B, "        bpoints = (c[2], c[1]/2 + c[2], c[0] + c[1] + c[2])", "        bpoints = (c[2], c[1]/3 + c[2], c[0] + c[1] + c[2])", 'polynomial2bezier quadratic coefficient')
brk('C03', P, "    elif order == 2:\n        return QuadraticBezier(*bpoints)", "    elif order == 2:\n        return QuadraticBezier(*bpoints[::-1])", 'bpoints2bezier reverses a quadratic')
ben('C03', P, "        distance = self.end - self.start\n        return self.start + distance*t", "        delta_ = self.end - self.start\n        return delta_*t + self.start", 'rename a local and commute a sum')
ben('C03', P, "        tc = 1 - t\n        return tc*tc*self.start + 2*tc*t*self.control + t*t*self.end", "        return (1 - t)**2*self.start + 2*(1 - t)*t*self.control + t**2*self.end", 're-associate QuadraticBezier.point')

# ---------------------------------------------------------------- C04
brk('C04', P, "            self.delta -= 360", "            self.delta -= 180", 'delta adjustment by 180 instead of 360')
brk('C04', P, "        if self.large_arc == self.sweep:\n            cp = -radical", "        if self.large_arc != self.sweep:\n            cp = -radical", 'centre sign rule inverted')
brk('C04', P, "                rx *= sqrt(radius_check)\n                ry *= sqrt(radius_check)", "                rx *= radius_check\n                ry *= radius_check", 'radii scaled by radius_check instead of its root')
brk('C04', P, "        if radius_check > 1:\n            if self.autoscale_radius:", "        if radius_check > 2:\n            if self.autoscale_radius:", 'radius correction threshold')
brk('C04', P, "        elif u1.imag < 0:\n            self.theta = -degrees(acos(u1.real))", "        elif u1.imag < 0:\n            self.theta = degrees(acos(u1.real))", 'theta sign for lower half plane')
brk('C04', P, "        u2 = (-x1p - cp.real)/rx + 1j*(-y1p - cp.imag)/ry  # transformed end", "        u2 = (-x1p - cp.real)/rx + 1j*(-y1p + cp.imag)/ry  # transformed end", 'u2 formula sign')
brk('C04', P, "        self.center = exp(1j*self.phi)*cp + (self.start + self.end)/2", "        self.center = exp(-1j*self.phi)*cp + (self.start + self.end)/2", 'centre rotated the wrong way')
brk('C04', P, "        y = rx*sinphi*cos(angle) + ry*cosphi*sin(angle) + self.center.imag", "        y = rx*sinphi*cos(angle) - ry*cosphi*sin(angle) + self.center.imag", 'Arc.point y formula sign')
brk('C04', P, "            if i == curves - 1:\n                p_end = self.end\n\n            ePrimen2x", "            if i == curves:\n                p_end = self.end\n\n            ePrimen2x", 'cubic approximation not snapped to end')
brk('C04', P, "        self.radius = abs(radius.real) + 1j*abs(radius.imag)", "        self.radius = radius", 'radius not normalised')
ben('C04', P, "        zp1 = (1/self.rot_matrix)*(self.start - self.end)/2\n        x1p, y1p = zp1.real, zp1.imag", "        zprime = (self.start - self.end)/(2*self.rot_matrix)\n        x1p, y1p = zprime.real, zprime.imag", 'rename zp1 and regroup the quotient')
ben('C04', P, "        tmp = rx_sqd*y1p_sqd + ry_sqd*x1p_sqd\n        radicand = (rx_sqd*ry_sqd - tmp) / tmp", "        radicand = rx_sqd*ry_sqd / (rx_sqd*y1p_sqd + ry_sqd*x1p_sqd) - 1", 'inline tmp and simplify the radicand')
brk('C16', P, "        return hash((tuple(self._segments), self._closed))", "        return hash((tuple(self._segments), self._closed, self._length))", 'Path hash depends on a cache field')

# ---------------------------------------------------------------- C09
brk('C09', P, "        return Line(self.end, self.start)", "        return Line(self.start, self.end)", 'Line.reversed returns a copy')
brk('C09', P, "        new_cub = CubicBezier(self.end, self.control2, self.control1,\n                              self.start)", "        new_cub = CubicBezier(self.end, self.control1, self.control2,\n                              self.start)", 'CubicBezier.reversed keeps control order')
brk('C09', B, "                new_points[i] = (1 - t_)*bpoints_[i] + t_*bpoints_[i + 1]", "                new_points[i] = t_*bpoints_[i] + (1 - t_)*bpoints_[i + 1]", 'de Casteljau weights swapped')
brk('C09', P, "        return self.cropped(0, t), self.cropped(t, 1)", "        return self.cropped(0, t), self.cropped(0, t)", 'Arc.split second piece')
brk('C09', P, "        return Arc(self.end, self.radius, self.rotation, self.large_arc,\n                   not self.sweep, self.start)", "        return Arc(self.end, self.radius, self.rotation, self.large_arc,\n                   self.sweep, self.start)", 'Arc.reversed keeps sweep')
brk('C09', P, "        newpath = [seg.reversed() for seg in self]\n        newpath.reverse()", "        newpath = [seg.reversed() for seg in self]", 'Path.reversed does not reverse the order')
brk('C09', P, "                    for i in range(0, i1):\n                        new_path.append(self[i])", "                    for i in range(1, i1):\n                        new_path.append(self[i])", 'Path.cropped wrap-around skips the first segment')
brk('C09', P, "    if t0 == 0:\n        cropped_seg = seg.split(t1)[0]", "    if t0 == 0:\n        cropped_seg = seg.split(t1)[1]", 'crop_bezier takes the wrong half')
ben('C09', P, "        pt = self.point(t)\n        return Line(self.start, pt), Line(pt, self.end)", "        mid_pt = self.point(t)\n        first, second = Line(self.start, mid_pt), Line(mid_pt, self.end)\n        return first, second", 'rename locals in Line.split')

# ---------------------------------------------------------------- C10
brk('C10', P, "        return bpoints2bezier([bpt + z0 for bpt in curve.bpoints()])", "        return bpoints2bezier([bpt + z0 for bpt in curve.bpoints()[:-1]] + [curve.end])", 'translate forgets the end point')
brk('C10', P, "        new_rotation = curve.rotation + degs", "        new_rotation = curve.rotation - degs", 'rotate() of an Arc subtracts the angle')
brk('C10', P, "        return sx*z.real + isy*z.imag          ", "        return sx*z.real + isy*z.real          ", 'scale mixes up real and imag')
brk('C10', P, "        return np.array([[p.real], [p.imag], [1.0]])", "        return np.array([[p.real], [p.imag], [0.0]])", 'transform drops the translation part (vector instead of point)')
brk('C10', P, "                       radius=sx*curve.radius,", "                       radius=curve.radius,", 'uniform scale of an Arc keeps the radius')
brk('C10', P, "        if sy is None or sy == sx:\n            return Arc(", "        if True:\n            return Arc(", 'non-uniform scale of an Arc silently accepted')
brk('C10', P, "            transformed_segs[i].end = transformed_segs[(i + 1) % len(path)].start", "            transformed_segs[i].end = transformed_segs[i].end", 'welding is a no-op')
brk('C10', P, "        transformation = lambda seg: scale(seg, sx, sy, origin)", "        transformation = lambda seg: scale(seg, sx, sy)", 'Path scale drops the origin')
ben('C10', P, "    def rotate_point(z):\n        return exp(1j*radians(degs))*(z - origin) + origin", "    def rotate_point(z):\n        w = exp(1j*radians(degs))\n        return w*z - w*origin + origin", 'expand the rotation formula')

# ---------------------------------------------------------------- C16
brk('C16', P, "        self._segments.insert(index, value)\n        self._length = None", "        self._segments.insert(index, value)", 'insert without invalidation')
brk('C16', P, "        del self._segments[index]\n        self._length = None", "        del self._segments[index]", '__delitem__ without invalidation')
brk('C16', P, "            if self._length_info['bpoints'] == self.bpoints() \\\n                    and self._length_info['error'] <= error \\", "            if self._length_info['error'] <= error \\", 'CubicBezier cache hit not keyed on control points')
brk('C16', P, "            self._length_info['bpoints'] = self.bpoints()\n            self._length_info['error'] = error", "            self._length_info['error'] = error", 'CubicBezier cache fill forgets the key')
brk('C16', P, "        return hash((self.start, self.control, self.end))", "        return hash((self.start, self.control, self.end, id(self)))", 'hash depends on identity')
brk('C16', P, "        return self.start == other.start and self.end == other.end \\\n            and self.control == other.control", "        return self.start == other.start and self.end == other.end", 'QuadraticBezier.__eq__ ignores control')
brk('C16', P, "            new_quad._length_info['bpoints'] = (\n                self.end, self.control, self.start)", "            new_quad._length_info['bpoints'] = (\n                self.start, self.control, self.end)", 'shared cache keyed to the original orientation')
brk('C16', P, "    def __len__(self):\n        return len(self._segments)", "    def __len__(self):\n        return len(self._segments)\n\n    def append(self, value):\n        self._segments.append(value)", 'append override without invalidation')
brk('C16', 'smoothing.py', "    return Path(*new_path)", "    res = Path(*new_path)\n    res._length = 0\n    return res", 'foreign writer of Path._length')
ben('C16', P, "        self._segments.insert(index, value)\n        self._length = None", "        self._length = None\n        self._segments.insert(index, value)", 'invalidate before mutating')

# ---------------------------------------------------------------- C19
brk('C19', B, "    return fac(n)//fac(k)//fac(n-k)", "    return fac(n)//fac(k)//fac(n-k+1)", 'n_choose_k off by one')
brk('C19', B, "    return [n_choose_k(n, k) * t1**(n-k) * t**k for k in range(n+1)]", "    return [n_choose_k(n, k) * t1**k * t**(n-k) for k in range(n+1)]", 'bernstein exponents swapped')
brk('C19', B, "            (-1)**(i+j) * p[i] / (fac(i) * fac(j-i)) for i in range(j+1))", "            (-1)**(i+j) * p[i] / (fac(i) * fac(j-i)) for i in range(j))", 'generic bezier2polynomial drops a term')
brk('C19', B, "                 (p[1] + 2*p[2] + p[3])/4, (p[2] + p[3])/2, p[3]])", "                 (p[1] + 2*p[2] + p[3])/4, (p[2] + p[3])/4, p[3]])", 'halve_bezier closed form')
brk('C19', 'polytools.py', "        roots = [r.real for r in roots if isclose(r.imag, 0)]", "        roots = [r.real for r in roots if isclose(r.real, 0)]", 'real filter tests the real part')
brk('C19', 'polytools.py', "    return polyroots(p, realroots=True, condition=lambda tval: 0 <= tval <= 1)", "    return polyroots(p, realroots=True, condition=lambda tval: 0 < tval < 1)", 'polyroots01 uses the open interval')
brk('C19', 'polytools.py', "        return rational_limit(f.deriv(), g.deriv(), t0)", "        return rational_limit(f.deriv(), g, t0)", "L'Hopital differentiates only the numerator")
ben('C19', 'polytools.py', "    for (idx1, r1), (idx2, r2) in combinations(enumerate(roots), 2):\n        if isclose(r1, r2):\n            duplicates.append(idx2)", "    for (i, ra), (j, rb) in combinations(enumerate(roots), 2):\n        if isclose(ra, rb):\n            duplicates.append(j)", 'rename loop variables')

ENTRIES = E

# ---------------------------------------------------------------- C14
E.extend([
 ('C14', 'break', P, "                integrand = x*dy", "                integrand = -x*dy", 'area integrand sign'),
 ('C14', 'break', P, "                dy = imag(seg.poly()).deriv()", "                dy = real(seg.poly()).deriv()", 'area integrates x dx'),
 ('C14', 'break', P, "    if len(intersections) % 2:\n        return True", "    if len(intersections) % 2 == 0:\n        return True", 'enclosure parity inverted'),
 ('C14', 'break', P, "        opt = complex(xmin-1, ymin-1)", "        opt = complex(xmin+1, ymin+1)", 'containment probe end may be inside the bbox'),
 ('C14', 'break', P, "            if isinstance(seg, Arc):\n                bezier_path_approximation += seg2lines(seg)", "            if isinstance(seg, Line):\n                bezier_path_approximation += seg2lines(seg)", 'arcs integrated raw'),
 ('C14', 'benign', P, "                integrand = x*dy\n", "                integrand = -imag(seg.poly())*real(seg.poly()).deriv()\n", 'use the -y dx Green form instead of x dy'),
])
