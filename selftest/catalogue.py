"""Catalogue of single-site edits used by selftest/run.py.
(property, kind, file, old text, new text, why).  kind: 'break' (check must fire) | 'benign' (must stay silent)."""
E = []


def brk(prop, f, old, new, why):
    E.append((prop, 'break', f, old, new, why))


def ben(prop, f, old, new, why):
    E.append((prop, 'benign', f, old, new, why))


P = 'path.py'
B = 'bezier.py'

# ---------------------------------------------------------------- C03
brk('C03', P, "3*(self.start + self.control2) - 6*self.control1 + t*(", "3*(self.start + self.control2) - 6*self.control2 + t*(", 'CubicBezier.point wrong control point in Horner form')
brk('C03', P, "return 2*(p[2] - 2*p[1] + p[0])", "return 2*(p[2] - 2*p[1] - p[0])", 'QuadraticBezier.derivative n=2 sign')
brk('C03', P, "return 6*(p[3] - 3*(p[2] - p[1]) - p[0])", "return 6*(p[3] - 3*(p[2] + p[1]) - p[0])", 'CubicBezier.derivative n=3 sign')
brk('C03', P, "        coeffs = ([p[1] - p[0], p[0]])", "        coeffs = ([p[0] - p[1], p[0]])", 'Line.poly reversed difference')
brk('C03', B, "        bpoints = (c[2], c[1]/2 + c[2], c[0] + c[1] + c[2])", "        bpoints = (c[2], c[1]/3 + c[2], c[0] + c[1] + c[2])", 'polynomial2bezier quadratic coefficient')
brk('C03', P, "    elif order == 2:\n        return QuadraticBezier(*bpoints)", "    elif order == 2:\n        return QuadraticBezier(*bpoints[::-1])", 'bpoints2bezier reverses a quadratic')
ben('C03', P, "        distance = self.end - self.start\n        return self.start + distance*t", "        delta_ = self.end - self.start\n        return delta_*t + self.start", 'rename a local and commute a sum')
ben('C03', P, "        tc = 1 - t\n        return tc*tc*self.start + 2*tc*t*self.control + t*t*self.end", "        return (1 - t)**2*self.start + 2*(1 - t)*t*self.control + t**2*self.end", 're-associate QuadraticBezier.point')

# ---------------------------------------------------------------- C04
brk('C04', P, "            self.delta -= 360", "            self.delta -= 180", 'delta adjustment by 180 instead of 360')
brk('C04', P, "        if self.large_arc == self.sweep:\n            cp = -radical", "        if self.large_arc != self.sweep:\n            cp = -radical", 'centre sign rule inverted')
brk('C04', P, "                rx *= sqrt(radius_check)\n                ry *= sqrt(radius_check)", "                rx *= radius_check\n                ry *= radius_check", 'radii scaled by radius_check instead of its root')
brk('C04', P, "        if radius_check > 1:\n            if self.autoscale_radius:", "        if radius_check > 2:\n            if self.autoscale_radius:", 'radius correction threshold')
brk('C04', P, "        elif u1.imag < 0:\n            self.theta = -degrees(acos(u1.real))", "        elif u1.imag < 0:\n            self.theta = degrees(acos(u1.real))", 'theta sign for lower half plane')
brk('C04', P, "        u2 = (-x1p - cp.real)/rx + 1j*(-y1p - cp.imag)/ry  # transformed end", "        u2 = (-x1p - cp.real)/rx + 1j*(-y1p + cp.imag)/ry  # transformed end", 'u2 formula sign')
brk('C04', P, "        self.center = exp(1j*self.phi)*cp + (self.start + self.end)/2", "        self.center = exp(-1j*self.phi)*cp + (self.start + self.end)/2", 'centre rotated the wrong way')
brk('C04', P, "        y = rx*sinphi*cos(angle) + ry*cosphi*sin(angle) + self.center.imag", "        y = rx*sinphi*cos(angle) - ry*cosphi*sin(angle) + self.center.imag", 'Arc.point y formula sign')
brk('C04', P, "            if i == curves - 1:\n                p_end = self.end\n\n            ePrimen2x", "            if i == curves:\n                p_end = self.end\n\n            ePrimen2x", 'cubic approximation not snapped to end')
brk('C04', P, "        self.radius = abs(radius.real) + 1j*abs(radius.imag)", "        self.radius = radius", 'radius not normalised')
ben('C04', P, "        zp1 = (1/self.rot_matrix)*(self.start - self.end)/2\n        x1p, y1p = zp1.real, zp1.imag", "        zprime = (self.start - self.end)/(2*self.rot_matrix)\n        x1p, y1p = zprime.real, zprime.imag", 'rename zp1 and regroup the quotient')
ben('C04', P, "        tmp = rx_sqd*y1p_sqd + ry_sqd*x1p_sqd\n        radicand = (rx_sqd*ry_sqd - tmp) / tmp", "        radicand = rx_sqd*ry_sqd / (rx_sqd*y1p_sqd + ry_sqd*x1p_sqd) - 1", 'inline tmp and simplify the radicand')
brk('C16', P, "        return hash((tuple(self._segments), self._closed))", "        return hash((tuple(self._segments), self._closed, self._length))", 'Path hash depends on a cache field')

# ---------------------------------------------------------------- C09
brk('C09', P, "        return Line(self.end, self.start)", "        return Line(self.start, self.end)", 'Line.reversed returns a copy')
brk('C09', P, "        new_cub = CubicBezier(self.end, self.control2, self.control1,\n                              self.start)", "        new_cub = CubicBezier(self.end, self.control1, self.control2,\n                              self.start)", 'CubicBezier.reversed keeps control order')
brk('C09', B, "                new_points[i] = (1 - t_)*bpoints_[i] + t_*bpoints_[i + 1]", "                new_points[i] = t_*bpoints_[i] + (1 - t_)*bpoints_[i + 1]", 'de Casteljau weights swapped')
brk('C09', P, "        return self.cropped(0, t), self.cropped(t, 1)", "        return self.cropped(0, t), self.cropped(0, t)", 'Arc.split second piece')
brk('C09', P, "        return Arc(self.end, self.radius, self.rotation, self.large_arc,\n                   not self.sweep, self.start)", "        return Arc(self.end, self.radius, self.rotation, self.large_arc,\n                   self.sweep, self.start)", 'Arc.reversed keeps sweep')
brk('C09', P, "        newpath = [seg.reversed() for seg in self]\n        newpath.reverse()", "        newpath = [seg.reversed() for seg in self]", 'Path.reversed does not reverse the order')
brk('C09', P, "                    for i in range(0, i1):\n                        new_path.append(self[i])", "                    for i in range(1, i1):\n                        new_path.append(self[i])", 'Path.cropped wrap-around skips the first segment')
brk('C09', P, "    if t0 == 0:\n        cropped_seg = seg.split(t1)[0]", "    if t0 == 0:\n        cropped_seg = seg.split(t1)[1]", 'crop_bezier takes the wrong half')
ben('C09', P, "        pt = self.point(t)\n        return Line(self.start, pt), Line(pt, self.end)", "        mid_pt = self.point(t)\n        first, second = Line(self.start, mid_pt), Line(mid_pt, self.end)\n        return first, second", 'rename locals in Line.split')

# ---------------------------------------------------------------- C10
brk('C10', P, "        return bpoints2bezier([bpt + z0 for bpt in curve.bpoints()])", "        return bpoints2bezier([bpt + z0 for bpt in curve.bpoints()[:-1]] + [curve.end])", 'translate forgets the end point')
brk('C10', P, "        new_rotation = curve.rotation + degs", "        new_rotation = curve.rotation - degs", 'rotate() of an Arc subtracts the angle')
brk('C10', P, "        return sx*z.real + isy*z.imag          ", "        return sx*z.real + isy*z.real          ", 'scale mixes up real and imag')
brk('C10', P, "        return np.array([[p.real], [p.imag], [1.0]])", "        return np.array([[p.real], [p.imag], [0.0]])", 'transform drops the translation part (vector instead of point)')
brk('C10', P, "                       radius=sx*curve.radius,", "                       radius=curve.radius,", 'uniform scale of an Arc keeps the radius')
brk('C10', P, "        if sy is None or sy == sx:\n            return Arc(", "        if True:\n            return Arc(", 'non-uniform scale of an Arc silently accepted')
brk('C10', P, "            transformed_segs[i].end = transformed_segs[(i + 1) % len(path)].start", "            transformed_segs[i].end = transformed_segs[i].end", 'welding is a no-op')
brk('C10', P, "        transformation = lambda seg: scale(seg, sx, sy, origin)", "        transformation = lambda seg: scale(seg, sx, sy)", 'Path scale drops the origin')
ben('C10', P, "    def rotate_point(z):\n        return exp(1j*radians(degs))*(z - origin) + origin", "    def rotate_point(z):\n        w = exp(1j*radians(degs))\n        return w*z - w*origin + origin", 'expand the rotation formula')

# ---------------------------------------------------------------- C16
brk('C16', P, "        self._segments.insert(index, value)\n        self._length = None", "        self._segments.insert(index, value)", 'insert without invalidation')
brk('C16', P, "        del self._segments[index]\n        self._length = None", "        del self._segments[index]", '__delitem__ without invalidation')
brk('C16', P, "            if self._length_info['bpoints'] == self.bpoints() \\\n                    and self._length_info['error'] <= error \\", "            if self._length_info['error'] <= error \\", 'CubicBezier cache hit not keyed on control points')
brk('C16', P, "            self._length_info['bpoints'] = self.bpoints()\n            self._length_info['error'] = error", "            self._length_info['error'] = error", 'CubicBezier cache fill forgets the key')
brk('C16', P, "        return hash((self.start, self.control, self.end))", "        return hash((self.start, self.control, self.end, id(self)))", 'hash depends on identity')
brk('C16', P, "        return self.start == other.start and self.end == other.end \\\n            and self.control == other.control", "        return self.start == other.start and self.end == other.end", 'QuadraticBezier.__eq__ ignores control')
ben('C16', P, "            new_quad._length_info['bpoints'] = (\n                self.end, self.control, self.start)", "            new_quad._length_info['bpoints'] = (\n                self.start, self.control, self.end)", 'copied cache keyed to the original orientation: since fix F25 the copy owns its dict, a wrong key only makes it miss (recompute), never answer wrongly')
brk('C16', P, "        if self._length_info['length'] and \\\n                self._length_info['bpoints'] == self.bpoints():\n            new_cub._length_info = dict(self._length_info)", "        if self._length_info['length']:\n            new_cub._length_info = dict(self._length_info)", 'reversed() hands over a cache without checking that it is valid (F25 re-introduced)')
brk('C16', P, "    def __len__(self):\n        return len(self._segments)", "    def __len__(self):\n        return len(self._segments)\n\n    def append(self, value):\n        self._segments.append(value)", 'append override without invalidation')
brk('C16', 'smoothing.py', "    return Path(*new_path)", "    res = Path(*new_path)\n    res._length = 0\n    return res", 'foreign writer of Path._length')
ben('C16', P, "        self._segments.insert(index, value)\n        self._length = None", "        self._length = None\n        self._segments.insert(index, value)", 'invalidate before mutating')

# ---------------------------------------------------------------- C19
brk('C19', B, "    return fac(n)//fac(k)//fac(n-k)", "    return fac(n)//fac(k)//fac(n-k+1)", 'n_choose_k off by one')
brk('C19', B, "    return [n_choose_k(n, k) * t1**(n-k) * t**k for k in range(n+1)]", "    return [n_choose_k(n, k) * t1**k * t**(n-k) for k in range(n+1)]", 'bernstein exponents swapped')
brk('C19', B, "            (-1)**(i+j) * p[i] / (fac(i) * fac(j-i)) for i in range(j+1))", "            (-1)**(i+j) * p[i] / (fac(i) * fac(j-i)) for i in range(j))", 'generic bezier2polynomial drops a term')
brk('C19', B, "                 (p[1] + 2*p[2] + p[3])/4, (p[2] + p[3])/2, p[3]])", "                 (p[1] + 2*p[2] + p[3])/4, (p[2] + p[3])/4, p[3]])", 'halve_bezier closed form')
brk('C19', 'polytools.py', "        roots = [r.real for r in roots if isclose(r.imag, 0)]", "        roots = [r.real for r in roots if isclose(r.real, 0)]", 'real filter tests the real part')
brk('C19', 'polytools.py', "    return polyroots(p, realroots=True, condition=lambda tval: 0 <= tval <= 1)", "    return polyroots(p, realroots=True, condition=lambda tval: 0 < tval < 1)", 'polyroots01 uses the open interval')
brk('C19', 'polytools.py', "        return rational_limit(f.deriv(), g.deriv(), t0)", "        return rational_limit(f.deriv(), g, t0)", "L'Hopital differentiates only the numerator")
ben('C19', 'polytools.py', "    for (idx1, r1), (idx2, r2) in combinations(enumerate(roots), 2):\n        if isclose(r1, r2):\n            duplicates.append(idx2)", "    for (i, ra), (j, rb) in combinations(enumerate(roots), 2):\n        if isclose(ra, rb):\n            duplicates.append(j)", 'rename loop variables')

ENTRIES = E

# ---------------------------------------------------------------- C14
E.extend([
 ('C14', 'break', P, "                integrand = x*dy", "                integrand = -x*dy", 'area integrand sign'),
 ('C14', 'break', P, "                dy = imag(seg.poly()).deriv()", "                dy = real(seg.poly()).deriv()", 'area integrates x dx'),
 ('C14', 'break', P, "    if len(intersections) % 2:\n        return True", "    if len(intersections) % 2 == 0:\n        return True", 'enclosure parity inverted'),
 ('C14', 'break', P, "        opt = complex(xmin-1, ymin-1)", "        opt = complex(xmin+1, ymin+1)", 'containment probe end may be inside the bbox'),
 ('C14', 'break', P, "            if isinstance(seg, Arc):\n                bezier_path_approximation += seg2lines(seg)", "            if isinstance(seg, Line):\n                bezier_path_approximation += seg2lines(seg)", 'arcs integrated raw'),
 ('C14', 'benign', P, "                integrand = x*dy\n", "                integrand = -imag(seg.poly())*real(seg.poly()).deriv()\n", 'use the -y dx Green form instead of x dy'),
])

# ---------------------------------------------------------------- C01
E.extend([
 ('C01', 'break', P, "                    _seg_end = segment.end - seg_start\n                else:\n                    _seg_end = segment.end\n                args = (segment.radius.real,", "                    _seg_end = segment.end\n                else:\n                    _seg_end = segment.end\n                args = (segment.radius.real,", 'relative arc end point not offset'),
 ('C01', 'break', P, "                parts.append('L {},{}'.format(_seg_end.real, _seg_end.imag))", "                parts.append('L {:.6g},{:.6g}'.format(_seg_end.real, _seg_end.imag))", 'precision-limiting format spec'),
 ('C01', 'break', P, "                    args = (_seg_control2.real, _seg_control2.imag,\n                            _seg_end.real, _seg_end.imag)\n                    parts.append('S {},{} {},{}'.format(*args))", "                    args = (_seg_control2.imag, _seg_control2.real,\n                            _seg_end.real, _seg_end.imag)\n                    parts.append('S {},{} {},{}'.format(*args))", 'S operands real/imag swapped'),
 ('C01', 'break', P, "            current_pos = segment.end\n            previous_segment = segment", "            previous_segment = segment", 'pen position not carried'),
 ('C01', 'break', P, "                    parts.append('T {},{}'.format(*args))", "                    parts.append('Q {},{}'.format(*args))", 'wrong letter for the smooth quadratic'),
 ('C01', 'break', P, "            if self_closed and isinstance(self[-1], Line):\n                segments = self[:-1]", "            if self_closed:\n                segments = self[:-1]", 'Z replaces a closing curve (F01 reverted)'),
 ('C01', 'break', P, "                args = (segment.radius.real, segment.radius.imag,\n                        segment.rotation,int(segment.large_arc),\n                        int(segment.sweep),_seg_end.real, _seg_end.imag)", "                args = (segment.radius.real, segment.radius.imag,\n                        segment.rotation,int(segment.sweep),\n                        int(segment.large_arc),_seg_end.real, _seg_end.imag)", 'arc flags swapped'),
 ('C01', 'benign', P, "                if rel:\n                    _seg_end = segment.end - seg_start\n                else:\n                    _seg_end = segment.end\n                parts.append('L {},{}'.format(_seg_end.real, _seg_end.imag))", "                line_end = (segment.end - seg_start) if rel else segment.end\n                parts.append('L {},{}'.format(line_end.real, line_end.imag))", 'conditional expression and renamed local'),
])

# ---------------------------------------------------------------- C02
E.extend([
 ('C02', 'break', P, "                pos = float(x) + current_pos.imag * 1j\n                if not absolute:\n                    pos += current_pos.real", "                pos = float(x) + current_pos.imag * 1j\n                if not absolute:\n                    pos += current_pos.imag", 'relative H adds the wrong coordinate'),
 ('C02', 'break', P, "                    control1 = current_pos + current_pos - segments[-1].control2", "                    control1 = current_pos + current_pos - segments[-1].control1", 'S reflects the wrong control point'),
 ('C02', 'break', P, "                if last_command is None or last_command not in 'QT':", "                if last_command is None or last_command not in 'Q':", 'T after T loses the reflection'),
 ('C02', 'break', P, "                # when M is called, reset start_pos\n                # This behavior of Z is defined in svg spec:\n                # http://www.w3.org/TR/SVG/paths.html#PathDataClosePathCommand\n                start_pos = current_pos\n", "", 'moveto does not reset the subpath start'),
 ('C02', 'break', P, "                self._closed = True\n                current_pos = start_pos", "                self._closed = True", 'closepath does not return the pen'),
 ('C02', 'break', P, "                segments.append(CubicBezier(current_pos, control1, control2, end))\n                current_pos = end\n\n            elif command == 'S':", "                segments.append(CubicBezier(current_pos, control2, control1, end))\n                current_pos = end\n\n            elif command == 'S':", 'C constructor argument order'),
 ('C02', 'break', P, "                if radius.real == 0 or radius.imag == 0:", "                if radius.real == 0 and radius.imag == 0:", 'zero-radius arc rule needs both radii zero'),
 ('C02', 'break', P, "                if last_command is None or last_command not in 'CS':", "                if last_command not in 'CS':", 'S after Z raises TypeError (F02 reverted)'),
 ('C02', 'break', P, 'FLOAT_RE = re.compile(r"[-+]?[0-9]*\\.?[0-9]+(?:[eE][-+]?[0-9]+)?")', 'FLOAT_RE = re.compile(r"[-+]?[0-9]*\\.?[0-9]+(?:[e][-+]?[0-9]+)?")', 'upper-case exponent no longer lexed'),
 ('C02', 'break', P, "            elif command in ('A', 'a'):\n                pos = 0", "            elif command in ('A',):\n                pos = 0", 'arc-aware tokenising only for upper-case A'),
 ('C02', 'benign', P, "                pos = float(x) + float(y) * 1j\n                if not absolute:\n                    pos += current_pos\n                segments.append(Line(current_pos, pos))\n                current_pos = pos\n\n            elif command == 'H':", "                target = complex(float(x), float(y))\n                if not absolute:\n                    target = target + current_pos\n                segments.append(Line(current_pos, target))\n                current_pos = target\n\n            elif command == 'H':", 'rename pos and build the complex differently'),
])

# ---------------------------------------------------------------- C05
E.extend([
 ('C05', 'break', P, "                t = (T - T0)/seg_length", "                t = (T - T0)/T1", 'T2t divides by the cumulative fraction'),
 ('C05', 'break', P, "        segment_start = sum(self._lengths[:seg_idx])", "        segment_start = sum(self._lengths[:seg_idx + 1])", 't2T slice off by one'),
 ('C05', 'break', P, "        if T == 1:\n            return len(self)-1, 1", "        if T == 1:\n            return len(self), 1", 'T2t(1) index off by one'),
 ('C05', 'break', P, "            self._lengths = [each / self._length for each in lengths]", "            self._lengths = [each / len(lengths) for each in lengths]", 'fractions not normalised by the total'),
 ('C05', 'break', P, "                subpaths.append(Path(*self[subpath_start: i+1]))\n                subpath_start = i+1", "                subpaths.append(Path(*self[subpath_start: i+1]))\n                subpath_start = i", 'continuous_subpaths duplicates a segment'),
 ('C05', 'break', P, "        return all(self[i].end == self[i+1].start for i in range(len(self) - 1))", "        return all(self[i].end == self[i+1].start for i in range(len(self) - 2))", 'iscontinuous ignores the last joint'),
 ('C05', 'benign', P, "            T1 = T0 + seg_length  # the T-value the current segment ends on\n            if T1 >= T:", "            T1 = seg_length + T0\n            if T <= T1:", 'mirror the comparison'),
])

# ---------------------------------------------------------------- C06
E.extend([
 ('C06', 'break', P, "            s = quad(lambda tau: abs(self.derivative(tau)), t0, t1,\n                            epsabs=error, limit=1000)[0]", "            s = quad(lambda tau: abs(self.derivative(tau)), 0, t1,\n                            epsabs=error, limit=1000)[0]", 'cubic quadrature ignores t0'),
 ('C06', 'break', P, "    mid = (start + end)/2\n    mid_point = curve.point(mid)", "    mid = (start + end)/2\n    mid_point = curve.point(start)", 'chord recursion evaluates the wrong point'),
 ('C06', 'break', P, "        return (segment_length(curve, start, mid, start_point, mid_point,\n                               error, min_depth, depth) +", "        return (segment_length(curve, start, mid, start_point, end_point,\n                               error, min_depth, depth) +", 'first half handed the wrong end point'),
 ('C06', 'break', P, "            return (self[idx0].length(t0=t0) +\n                    sum(self[idx].length() for idx in range(idx0 + 1, idx1)) +", "            return (self[idx0].length(t0=t0) +\n                    sum(self[idx].length() for idx in range(idx0 + 1, idx1 + 1)) +", 'last segment counted twice'),
 ('C06', 'break', P, "            beta = c1 / (2 * c2)", "            beta = c1 / c2", 'closed form: wrong completion of the square'),
 ('C06', 'break', P, "                    return abs(a) * (t1 ** 2 + t0 ** 2) - abs(b) * (t1 + t0) + \\\n                           abs(b) ** 2 / (2 * abs(a))", "                    return abs(a) * (t1 ** 2 + t0 ** 2) - abs(b) * (t1 + t0) + \\\n                           abs(b) ** 2 / (4 * abs(a))", 'fold-back integral constant'),
 ('C06', 'break', P, "        return abs(self.end - self.start)*(t1-t0)", "        return abs(self.end - self.start)*t1", 'Line.length ignores t0'),
 ('C06', 'benign', P, "    length2 = first_half + second_half\n    if (length2 - length > error) or (depth < min_depth):", "    two_chords = first_half + second_half\n    length2 = two_chords\n    if (depth < min_depth) or (length2 - length > error):", 'reorder the recursion test'),
])

# ---------------------------------------------------------------- C07
E.extend([
 ('C07', 'break', P, "    if not 0 <= s <= curve_length:\n        raise ValueError(\"s is not in interval [0, curve.length()].\")", "    if not 0 <= s:\n        raise ValueError(\"s is not in interval [0, curve.length()].\")", 'no error for s > L'),
 ('C07', 'break', P, "    if s == curve_length:\n        return 1", "    if s == curve_length:\n        return 0", 'ilength(L) returns 0'),
 ('C07', 'break', P, "            iteration += 1\n            t = (t_lower + t_upper)/2", "            t = (t_lower + t_upper)/2", 'loop counter never incremented'),
 ('C07', 'break', P, "                t = inv_arclength(curve[k], s - lsum, s_tol=s_tol,", "                t = inv_arclength(curve[k], s, s_tol=s_tol,", 'consumed length not subtracted'),
 ('C07', 'break', P, "        return inv_arclength(self, s, s_tol=s_tol, maxits=maxits, error=error,\n                             min_depth=min_depth)\n\n    def joins_smoothly_with(self, previous, wrt_parameterization=False,\n                            error=0):\n        \"\"\"Checks if this segment joins smoothly with previous segment.  By\n        default, this only checks that this segment starts moving (at t=0) in\n        the same direction (and from the same positive) as previous stopped\n        moving (at t=1).  To check if the tangent magnitudes also match, set\n        wrt_parameterization=True.\"\"\"\n        if wrt_parameterization:\n            return self.start == previous.end and abs(\n                self.derivative(0) - previous.derivative(1)) <= error\n        else:\n            return self.start == previous.end and abs(\n                self.unit_tangent(0) - previous.unit_tangent(1)) <= error\n\n    def derivative(self, t, n=1):\n        \"\"\"returns the nth derivative of the segment at t.\"\"\"", "        return inv_arclength(self, s, s_tol=s_tol, maxits=maxits,\n                             min_depth=min_depth)\n\n    def joins_smoothly_with(self, previous, wrt_parameterization=False,\n                            error=0):\n        \"\"\"Checks if this segment joins smoothly with previous segment.  By\n        default, this only checks that this segment starts moving (at t=0) in\n        the same direction (and from the same positive) as previous stopped\n        moving (at t=1).  To check if the tangent magnitudes also match, set\n        wrt_parameterization=True.\"\"\"\n        if wrt_parameterization:\n            return self.start == previous.end and abs(\n                self.derivative(0) - previous.derivative(1)) <= error\n        else:\n            return self.start == previous.end and abs(\n                self.unit_tangent(0) - previous.unit_tangent(1)) <= error\n\n    def derivative(self, t, n=1):\n        \"\"\"returns the nth derivative of the segment at t.\"\"\"", 'Arc.ilength drops the error argument'),
 ('C07', 'break', P, "            elif t == t_lower or t == t_upper:", "            elif t_lower == t_upper:", 'stall test only for a collapsed bracket (F05 class)'),
 ('C07', 'benign', P, "            if abs(s_t - s) < s_tol:\n                return t\n            elif t == t_lower or t == t_upper:", "            if abs(s_t - s) < s_tol:\n                return t\n            elif t in (t_lower, t_upper):", 'tuple membership instead of two comparisons'),
])

# ---------------------------------------------------------------- C08
E.extend([
 ('C08', 'break', B, "            delta = a[1]**2 - (a[0] + a[1])*a[2] + a[2]**2 + (a[0] - a[1])*a[3]", "            delta = a[1]**2 - (a[0] + a[1])*a[2] + a[2]**2 + (a[0] + a[1])*a[3]", 'wrong discriminant'),
 ('C08', 'break', B, "                tau = a[0] - 2*a[1] + a[2]", "                tau = a[0] - 2*a[1] - a[2]", 'wrong centre of the roots'),
 ('C08', 'break', B, "    local_extremizers = [0, 1]\n    if len(p) == 4:  # cubic case", "    local_extremizers = [0]\n    if len(p) == 4:  # cubic case", 'end point t=1 dropped from the candidates'),
 ('C08', 'break', B, "            return min(local_extrema), max(local_extrema)\n\n    # find reverse", "            return max(local_extrema), min(local_extrema)\n\n    # find reverse", 'min/max slots swapped'),
 ('C08', 'break', B, "    x_extremizers = [0, 1] + polyroots(dx, realroots=True,\n                                    condition=lambda r: 0 < r < 1)", "    x_extremizers = [0, 1] + polyroots(dy, realroots=True,\n                                    condition=lambda r: 0 < r < 1)", 'x extrema taken from dy'),
 ('C08', 'break', P, "            atan_x = atan(-(ry/rx)*tan(self.phi))", "            atan_x = atan((ry/rx)*tan(self.phi))", 'sign of the x critical angle'),
 ('C08', 'break', P, "        for k in range(-4, 5):", "        for k in range(-1, 2):", 'k range too small'),
 ('C08', 'break', P, "        xtrema = [self.start.real, self.end.real]", "        xtrema = [self.start.real]", 'arc end point not a candidate'),
 ('C08', 'break', P, "        xmin = min(self.start.real, self.end.real)\n        xmax = max(self.start.real, self.end.real)", "        xmin = min(self.start.real, self.end.real)\n        xmax = max(self.start.imag, self.end.imag)", 'Line.bbox mixes coordinates'),
 ('C08', 'break', P, "        xmin = min(xmins)\n        xmax = max(xmaxs)\n        ymin = min(ymins)\n        ymax = max(ymaxs)\n        return xmin, xmax, ymin, ymax\n\n    def cropped", "        xmin = min(xmins)\n        xmax = max(xmaxs)\n        ymin = max(ymins)\n        ymax = max(ymaxs)\n        return xmin, xmax, ymin, ymax\n\n    def cropped", 'Path.bbox takes max of ymins'),
 ('C08', 'benign', B, "                r1 = (tau + sqdelta)/denom\n                r2 = (tau - sqdelta)/denom\n                if 0 < r1 < 1:\n                    local_extremizers.append(r1)\n                if 0 < r2 < 1:\n                    local_extremizers.append(r2)", "                for root in ((tau + sqdelta)/denom, (tau - sqdelta)/denom):\n                    if 0 < root < 1:\n                        local_extremizers.append(root)", 'loop over the two roots'),
])

# ---------------------------------------------------------------- C11 / C12
E.extend([
 ('C11', 'break', P, "        elif isinstance(other_seg, CubicBezier):\n            t2t1s = bezier_by_line_intersections(other_seg, self)\n            return [(t1, t2) for t2, t1 in t2t1s]", "        elif isinstance(other_seg, CubicBezier):\n            t2t1s = bezier_by_line_intersections(other_seg, self)\n            return t2t1s", 'Line x Cubic result not swapped back'),
 ('C11', 'break', P, "            return [(t1, t2) for t2, t1 in other_seg.intersect(self)]", "            return other_seg.intersect(self)", 'Cubic x Arc result not swapped back'),
 ('C11', 'break', P, "            t1 = (c[0]*(b[0] - d[1]) -\n                  c[1]*(b[0] - d[0]) -\n                  a[0]*(d[0] - d[1]))/denom", "            t1 = (c[0]*(b[0] - d[1]) -\n                  c[1]*(b[0] - d[0]) +\n                  a[0]*(d[0] - d[1]))/denom", 'Line-Line closed form sign'),
 ('C11', 'break', P, "            if 0 <= t1 <= 1 and 0 <= t2 <= 1:\n                return [(t1, t2)]", "            if 0 <= t1 <= 1:\n                return [(t1, t2)]", 'second parameter not range-tested'),
 ('C11', 'break', P, "                    T2 = path2.t2T(seg2, t2)", "                    T2 = path1.t2T(seg2, t2)", 'T2 mapped through the wrong path'),
 ('C11', 'break', P, "        return x/self.radius.real + 1j*y/self.radius.imag", "        return x/self.radius.real + 1j*y/self.radius.real", 'u1transform scales y by rx'),
 ('C11', 'break', P, "                x1 = (-(a * a * m * c) + x_sqrt) / denominator ", "                x1 = (-(a * a * m * c) - x_sqrt) / denominator ", 'Arc-Line closed form: both x roots take the same sign'),
 ('C11', 'break', P, "                    val = b * sqrt(discriminant)", "                    val = a * sqrt(discriminant)", 'vertical line: y candidates scaled by the x radius'),
 ('C12', 'break', P, "            k = domain_lower_limit // 360", "            k = 0", 'phase shift ignores the domain'),
 ('C12', 'break', B, "        if 0 <= xval <= line_length:", "        if 0 < xval < line_length:", 'abscissa filter open'),
 ('C12', 'break', P, "            degs = _deg(psi, domain_lower_limit=self.theta + self.delta)", "            degs = _deg(psi, domain_lower_limit=self.theta)", 'clockwise arcs use the wrong interval (F09 reverted)'),
 ('C12', 'break', 'polytools.py', "    for (idx1, r1), (idx2, r2) in combinations(enumerate(roots), 2):\n        if isclose(r1, r2):\n            duplicates.append(idx2)", "    for idx, (r1, r2) in enumerate(combinations(roots, 2)):\n        if isclose(r1, r2):\n            duplicates.append(idx)", 'pair index used as root index (F10 reverted)'),
])

# ---------------------------------------------------------------- C13
E.extend([
 ('C13', 'break', P, "    extremizers = [0, 1] + polyroots01(r_squared.deriv())", "    extremizers = [0, 1] + polyroots01(r_squared)", 'roots of the distance instead of its derivative'),
 ('C13', 'break', P, "    extremizers = [0, 1] + polyroots01(r_squared.deriv())", "    extremizers = [0] + polyroots01(r_squared.deriv())", 'end point t=1 not a candidate'),
 ('C13', 'break', P, "        seg_global_max = max(extrema, key=itemgetter(0))", "        seg_global_max = max(extrema, key=itemgetter(1))", 'maximum taken by parameter'),
 ('C13', 'break', P, "            if d0 < d1:\n                return (dt, t), (d1, 1)\n            return (dt, t), (d0, 0)", "            if d0 < d1:\n                return (dt, t), (d0, 0)\n            return (dt, t), (d1, 1)", 'Line.radialrange returns the nearer end as maximum'),
 ('C13', 'break', P, "        numerator, denominator = dx * (x - x0) + dy * (y - y0), dx * dx + dy * dy", "        numerator, denominator = dx * (x - x0) - dy * (y - y0), dx * dx + dy * dy", 'projection formula sign'),
 ('C13', 'break', P, "                if seg_global_max[0] > global_max[0]:\n                    global_max = seg_global_max + (seg_idx,)", "                if seg_global_max[0] > global_min[0]:\n                    global_max = seg_global_max + (seg_idx,)", 'max fold compares with the running minimum'),
 ('C13', 'break', P, "    return path.radialrange(pt)[1]", "    return path.radialrange(pt)[0]", 'farthest_point_in_path returns the closest'),
])

# ---------------------------------------------------------------- C15
E.extend([
 ('C15', 'break', P, "        return -1j * self.unit_tangent(t)", "        return 1j * self.unit_tangent(t)", 'CubicBezier.normal rotated the wrong way'),
 ('C15', 'break', P, "        kappa = abs(dx*ddy - dy*ddx)/sqrt(dx*dx + dy*dy)**3", "        kappa = abs(dx*ddy + dy*ddx)/sqrt(dx*dx + dy*dy)**3", 'curvature numerator sign'),
 ('C15', 'break', P, "        return abs(dx*ddy - dy*ddx)/(dx*dx + dy*dy)**1.5", "        return abs(dx*ddy - dy*ddx)/(dx*dx + dy*dy)**2", 'Path.curvature exponent'),
 ('C15', 'break', P, "        return seg.derivative(t, n=n)/seg.length()**n", "        return seg.derivative(t, n=n)/seg.length()", 'Path.derivative rescaling'),
 ('C15', 'break', P, "        unit_tangent = dseg/abs(dseg)\n    except", "        unit_tangent = dseg/abs(dseg)**2\n    except", 'tangent not normalised'),
 ('C15', 'break', P, "        g2 = (dx*dx + dy*dy)**3", "        g2 = (dx*dx + dy*dy)**2", 'singular curvature denominator'),
])

# ---------------------------------------------------------------- C17 / C18
PA = 'parser.py'
E.extend([
 ('C17', 'break', PA, "        transform[0:2, 0:3] = np.array([values[0:6:2], values[1:6:2]])", "        transform[0:2, 0:3] = np.array([values[0:3], values[3:6]])", 'matrix(...) read row-major'),
 ('C17', 'break', PA, "        y_scale = values[1] if (len(values) > 1) else x_scale", "        y_scale = values[1] if (len(values) > 1) else 1", 'scale(s) leaves y unscaled'),
 ('C17', 'break', PA, "        transform = tf_offset.dot(tf_rotate).dot(tf_offset_neg)", "        transform = tf_offset_neg.dot(tf_rotate).dot(tf_offset)", 'rotate about a centre: offsets in the wrong order'),
 ('C17', 'break', PA, "        transform[0, 1] = np.tan(values[0] * np.pi / 180.0)", "        transform[1, 0] = np.tan(values[0] * np.pi / 180.0)", 'skewX writes the skewY entry'),
 ('C17', 'break', PA, "        total_transform = total_transform.dot(_parse_transform_substr(substr))", "        total_transform = _parse_transform_substr(substr).dot(total_transform)", 'transform list composed right to left'),
 ('C17', 'break', 'document.py', "        return StackElement(element, last_tf.dot(\n            parse_transform(element.get('transform'))))", "        return StackElement(element, parse_transform(element.get('transform')).dot(\n            last_tf))", 'Document composes child.dot(parent)'),
 ('C17', 'break', 'svg_to_paths.py', "        d += \"L {} {} \".format(x+w, y+h-ry)  # above p2", "        d += \"L {} {} \".format(x+w, y+h-rx)  # above p2", 'rounded rect uses rx for a vertical offset'),
 ('C17', 'break', 'svg_to_paths.py', "    d += 'a' + str(rx) + ',' + str(ry) + ' 0 1,0 ' + str(-2 * rx) + ',0'", "    d += 'a' + str(rx) + ',' + str(ry) + ' 0 1,1 ' + str(-2 * rx) + ',0'", 'second half ellipse retraces the first'),
 ('C17', 'break', 'svg_to_paths.py', "    x1, y1 = x + w, y\n    x2, y2 = x + w, y + h", "    x1, y1 = x + w, y\n    x2, y2 = x + h, y + w", 'plain rect corner'),
 ('C17', 'break', 'svg_io_sax.py', "                elif 'circle' == name:\n                    values[\"d\"] = ellipse2pathd(values)", "                elif 'circle' == name:\n                    values[\"d\"] = rect2pathd(values)", 'SaxDocument converts circles with the rect converter'),
 ('C17', 'benign', PA, "        x_scale = values[0]\n        y_scale = values[1] if (len(values) > 1) else x_scale\n        transform[0, 0] = x_scale\n        transform[1, 1] = y_scale", "        sx = values[0]\n        sy = sx if len(values) == 1 else values[1]\n        transform[0, 0], transform[1, 1] = sx, sy", 'rename and restructure the scale arm'),
 ('C18', 'break', 'svg_io_sax.py', "                matrix_string += string(matrix[1][0])\n                matrix_string += \" \"\n                matrix_string += string(matrix[0][1])", "                matrix_string += string(matrix[0][1])\n                matrix_string += \" \"\n                matrix_string += string(matrix[1][0])", 'generate_dom writes the matrix row-major'),
 ('C18', 'break', 'svg_io_sax.py', "                name = elem.tag[28:]", "                name = elem.tag[27:]", 'namespace strip length'),
 ('C18', 'break', 'document.py', "        attribs['d'] = path_svg\n", "        attribs.setdefault('d', path_svg)\n", 'stale d wins in add_path'),
 ('C18', 'break', 'document.py', "        return SubElement(group, '{{{0}}}path'.format(\n            SVG_NAMESPACE['svg']), attribs)", "        return SubElement(group, 'path', attribs)", 'add_path creates an un-namespaced element (F21 reverted)'),
 ('C18', 'break', 'paths2svg.py', "                            good_attribs.update({key: val})", "                            pass", 'per-path attributes dropped'),
 ('C18', 'break', 'svg_to_paths.py', "    paths = [dom2dict(el) for el in doc.getElementsByTagName('path')]", "    paths = [dom2dict(el) for el in reversed(doc.getElementsByTagName('path'))]", 'svg2paths reverses document order'),
])

# ---------------------------------------------------------------- C20
SM = 'smoothing.py'
E.extend([
 ('C20', 'break', SM, "        b = (2 - tightness)*a\n        elbow = CubicBezier(q - a*v, q - (a - b/3)*v, q + (a - b/3)*w, q + a*w)", "        b = (2 - tightness)*a\n        elbow = CubicBezier(q - a*v, q - (a + b/3)*v, q + (a - b/3)*w, q + a*w)", 'line-line elbow control point on the wrong side'),
 ('C20', 'break', SM, "        elbow = CubicBezier(q - a*v, q + (b/3 - a)*v, q - b/3*w, q)", "        elbow = CubicBezier(q - a*v, q + (b/3 - a)*v, q + b/3*w, q)", 'line-curve elbow arrives against the curve direction'),
 ('C20', 'break', SM, "    max_a = maxjointsize / 2", "    max_a = maxjointsize * 2", 'joint size bound'),
 ('C20', 'break', SM, "        seg1_trimmed = Line(elbow.end, seg1.end)", "        seg1_trimmed = Line(elbow.end, seg1.start)", 'outer end point lost'),
 ('C20', 'break', SM, "                if idx == len(path) - 1:\n                    new_path[0] = new_seg1", "                if idx == len(path) - 1:\n                    new_path.append(new_seg1)", 'closing joint appends instead of replacing the first piece'),
 ('C20', 'break', SM, "    if len(path) == 1:\n        return path", "    if len(path) == 1:\n        return Path(*path)", 'single segment path copied'),
 ('C20', 'break', SM, "        elbow = elbow0 + [seg0_line_trimmed] + elbowq + [seg1_line_trimmed] + elbow1", "        elbow = elbow0 + elbowq + [seg1_line_trimmed] + elbow1", 'curve-curve elbow drops a connecting line'),
 ('C20', 'benign', SM, "        b = (2 - tightness)*a\n        elbow = CubicBezier(q - a*v, q - (a - b/3)*v, q + (a - b/3)*w, q + a*w)", "        b = (2 - tightness)*a\n        inner = a - b/3\n        elbow = CubicBezier(q - a*v, q - inner*v, q + inner*w, q + a*w)", 'name the inner offset'),
])

E.append(('C13', 'benign', P, "        seg_global_min = min(extrema, key=itemgetter(0))\n        seg_global_max = max(extrema, key=itemgetter(0))", "        seg_global_min = min(extrema, key=lambda e: e[0])\n        seg_global_max = max(extrema, key=lambda e: e[0])", 'lambda key instead of itemgetter'))

E.append(('C16', 'benign', P, "        if t0 == 0 and t1 == 1:\n            if self._length_info['bpoints'] == self.bpoints() \\\n                    and self._length_info['error'] <= error \\", "        if t0 == 0 and t1 == 1:\n            current_key = self.bpoints()\n            if self._length_info['bpoints'] == current_key \\\n                    and self._length_info['error'] <= error \\", 'cache key held in a local'))
E.append(('C16', 'break', P, "            if self._length_info['bpoints'] == self.bpoints() \\\n                    and self._length_info['error'] <= error \\\n                    and self._length_info['min_depth'] >= min_depth:", "            if self._length_info['bpoints'] == self.bpoints() \\\n                    and self._length_info['error'] <= error \\\n                    and self._length_info['min_depth'] <= min_depth:", 'cubic min_depth guard direction'))

# ---------------------------------------------------------------- C11 R11.7 (subdivision solver)
brk('C11', B, "                if box_area(*bbox1) < tol_deC and box_area(*bbox2) < tol_deC:", "                if box_area(*bbox1) < tol_deC or box_area(*bbox2) < tol_deC:", 'one small box suffices to report a crossing')
brk('C11', B, "                                  BPair(c11, c22, t11, t22),", "                                  BPair(c11, c22, t11, t21),", 'child pair carries the parameter of the other half')
brk('C11', B, "                    (t21, t22) = (pair.t2 - delta, pair.t2 + delta)", "                    (t21, t22) = (pair.t2 + delta, pair.t2 - delta)", 'halves of the second curve labelled in reverse')
brk('C11', B, "        delta = 0.5**(k + 2)", "        delta = 0.5**(k + 1)", 'parameter step twice too large')
brk('C11', B, "                        intersection_list.append((pair.t1, pair.t2))", "                        intersection_list.append((pair.t2, pair.t1))", 'reported pair swapped')
ben('C11', B, "                if box_area(*bbox1) < tol_deC and box_area(*bbox2) < tol_deC:", "                small1 = box_area(*bbox1) < tol_deC\n                if small1 and tol_deC > box_area(*bbox2):", 'name one of the tests and flip the other comparison')
ben('C11', B, "                    (t11, t12) = (pair.t1 - delta, pair.t1 + delta)", "                    t11 = pair.t1 - delta\n                    t12 = t11 + 2*delta", 'derive the second mid parameter from the first')

# ---------------------------------------------------------------- C12 (semantic R12.2 / R12.3 / R12.5)
brk('C12', P, "            if degs < domain_lower_limit:\n                degs += 360", "            if degs > domain_lower_limit:\n                degs += 360", 'wrap test inverted')
brk('C12', P, "            k = domain_lower_limit // 360", "            k = domain_lower_limit // 180", 'limit floor-divided by 180')
brk('C12', P, "            degs = degrees(rads % (2*pi))", "            degs = degrees(rads % pi)", 'phase reduced modulo pi')
brk('C12', P, "        return (degs - self.theta)/self.delta", "        return (degs - self.theta)/abs(self.delta)", 't formula loses the sign of delta')
brk('C12', B, "    for bez_t in set(roots_y):", "    for bez_t in roots_y:", 'a repeated root is reported twice')
brk('C12', B, "            line_t = xval/line_length\n            intersection_list.append((bez_t, line_t))", "            line_t = xval/line_length\n            intersection_list.append((line_t, bez_t))", 'pair order swapped in the line solver')
brk('C12', P, "                    if abs(pts[ind1] - pts[ind2]) < tol:\n                        # then there's a redundancy. Remove it.\n                        indices2remove.append(ind2)", "                    if abs(pts[ind1] - pts[ind2]) < tol:\n                        # then there's a redundancy. Remove it.\n                        indices2remove.append(ind1)", 'the earlier crossing of a close pair is dropped')
brk('C12', P, "                    if abs(pts[ind1] - pts[ind2]) < tol:\n                        # then", "                    if abs(pts[ind1] - pts[ind2]) < tol*(1 + abs(pts[ind1])):\n                        # then", 'relative redundancy tolerance')
ben('C12', P, "            k = domain_lower_limit // 360\n            degs += k * 360", "            degs += 360 * (domain_lower_limit // 360)", 'inline k')
ben('C12', B, "        if 0 <= xval <= line_length:", "        if xval >= 0 and line_length >= xval:", 'expanded chained comparison')

# ---------------------------------------------------------------- C05 R05.3 zero total (semantic)
brk('C05', P, "        if self._length == 0:\n            self._lengths = lengths  # all lengths are 0.\n        else:\n            self._lengths = [each / self._length for each in lengths]", "        self._lengths = [each / self._length for each in lengths]", 'zero-total guard removed')
ben('C05', P, "        if self._length == 0:\n            self._lengths = lengths  # all lengths are 0.\n        else:\n            self._lengths = [each / self._length for each in lengths]", "        total = self._length\n        self._lengths = [each / total for each in lengths] if total else lengths", 'guard by truthiness of a local')

brk('C05', P, "        assert self.iscontinuous()\n        return self.start == self.end", "        assert self.iscontinuous()\n        return self.start == self[0].start", 'isclosed compares start with itself')
brk('C05', P, "    def isclosedac(self):\n        assert len(self) != 0\n        return self.start == self.end", "    def isclosedac(self):\n        assert len(self) != 0\n        return self.start != self.end", 'isclosedac inverted')
ben('C05', P, "        assert self.iscontinuous()\n        return self.start == self.end", "        assert self.iscontinuous()\n        return self._segments[-1].end == self._segments[0].start", 'isclosed through the store')

# ---------------------------------------------------------------- C16 semantic Path-cache rules
brk('C16', P, "            return 0, 0\n        self._calc_lengths()", "            return 0, 0", 'T2t reads the table without making sure it is there')
brk('C16', P, "                and self._length_tol[0] <= error \\", "                and self._length_tol[0] >= error \\", 'Path table accepted when computed with a LARGER error')
brk('C16', P, "        self._length_tol = (error, min_depth)\n", "", 'rebuilt table does not record its tolerances')
brk('C16', P, "        lengths = [each.length(error=error, min_depth=min_depth) for each in\n                   self._segments]", "        lengths = [each.length() for each in\n                   self._segments]", 'segment lengths re-measured with default tolerances')
ben('C16', P, "        self._length = sum(lengths)\n        self._length_tol = (error, min_depth)", "        self._length_tol = (error, min_depth)\n        self._length = sum(lengths)", 'swap two independent stores')

# ---------------------------------------------------------------- C08 R08.4 admission (semantic)
brk('C08', P, "            if 0 <= tx <= 1:\n                xtrema.append(self.point(tx).real)", "            if 0 < tx < 1:\n                xtrema.append(self.point(tx).real)", 'x-extrema admitted on the open interval only')
brk('C08', P, "            if 0 <= ty <= 1:\n                ytrema.append(self.point(ty).imag)", "            if -1 <= ty <= 1:\n                ytrema.append(self.point(ty).imag)", 'y-extrema admitted for negative parameters')
ben('C08', P, "            if 0 <= tx <= 1:\n                xtrema.append(self.point(tx).real)", "            if tx >= 0 and not tx > 1:\n                xtrema.append(self.point(tx).real)", 'expanded admission test')

# ---------------------------------------------------------------- C09 R09.5 closed-form relocation
brk('C09', P, "        t1_adj = trimmed_seg.radialrange(pt1)[0][1]", "        t1_adj = (t1 - t0)/t1", 'closed-form relocation with the wrong denominator')
ben('C09', P, "        t1_adj = trimmed_seg.radialrange(pt1)[0][1]", "        t1_adj = (t1 - t0)/(1 - t0)", 'closed-form relocation (correct)')

# ---------------------------------------------------------------- C02 R02.9 entry points
brk('C02', 'parser.py', "    return Path(pathdef, current_pos=current_pos, tree_element=tree_element)", "    return Path(pathdef.strip().replace('m', 'M', 1) if pathdef.lstrip().startswith('m') else pathdef, current_pos=current_pos, tree_element=tree_element)", 'leading m rewritten to M before parsing')
brk('C02', P, "                self._parse_path(segments[0], current_pos)", "                self._parse_path(segments[0], 0j)", 'start position ignored')
brk('C02', 'parser.py', "    return Path(pathdef, current_pos=current_pos, tree_element=tree_element)", "    return Path(pathdef, tree_element=tree_element)", 'parse_path drops current_pos')
ben('C02', 'parser.py', "    return Path(pathdef, current_pos=current_pos, tree_element=tree_element)", "    result = Path(pathdef, current_pos, tree_element=tree_element)\n    return result", 'positional current_pos')

# ---------------------------------------------------------------- C11 R11.8 positions compared absolutely
brk('C11', P, "        if np.isclose(point, self.start, rtol=0, atol=1e-6):\n            return 0.0", "        if np.isclose(point, self.start, atol=1e-6):\n            return 0.0", 'Line.point_to_t start shortcut with the default relative tolerance')
brk('C11', P, "        elif np.isclose(point, self.end, rtol=0.0, atol=1e-6):\n            return 1.0\n\n        if self.rotation", "        elif np.isclose(point, self.end, rtol=1e-9, atol=1e-6):\n            return 1.0\n\n        if self.rotation", 'Arc.point_to_t end shortcut with a relative tolerance')
ben('C11', P, "        if np.isclose(point, self.start, rtol=0, atol=1e-6):\n            return 0.0", "        if np.isclose(point - self.start, 0, atol=1e-6):\n            return 0.0", 'compare the difference with zero')

# ---------------------------------------------------------------- C12 R12.6 (multi-parent scenarios)
brk('C12', B, "                        if pair.bez1 == otherPair.bez1 or \\\n                                pair.bez2 == otherPair.bez2 or \\\n                                pair.bez1 == otherPair.bez2 or \\\n                                pair.bez2 == otherPair.bez1:", "                        if pair.t1 == otherPair.t1 or pair.t2 == otherPair.t2 or pair.t1 == otherPair.t2 or pair.t2 == otherPair.t1:", 'redundancy decided by mid parameters across curves')
brk('C12', B, "                    if point not in approx_point_set:\n                        approx_point_set.append(point)", "                    if not approx_point_set:\n                        approx_point_set.append(point)", 'only the first crossing is ever reported')

# ---------------------------------------------------------------- C10 wrappers forward falsy arguments
brk('C10', P, "        return scale(self, sx=sx, sy=sy, origin=origin)\n\n\nclass QuadraticBezier", "        return scale(self, sx=sx, sy=sy or sx, origin=origin)\n\n\nclass QuadraticBezier", 'Line.scaled replaces sy = 0 by sx')

# ---------------------------------------------------------------- round 5: memoised whole-path answers, history independence, routes
brk('C16', P, "    def isclosed(self):\n        \"\"\"This function determines if a connected path is closed.\"\"\"\n        assert len(self) != 0\n        assert self.iscontinuous()\n        return self.start == self.end", "    def isclosed(self):\n        \"\"\"This function determines if a connected path is closed.\"\"\"\n        assert len(self) != 0\n        if getattr(self, '_closed_memo', None) is None:\n            assert self.iscontinuous()\n            self._closed_memo = (self.start == self.end,)\n        return self._closed_memo[0]", 'isclosed memoised and never invalidated')
brk('C16', P, "        bbs = [seg.bbox() for seg in self._segments]\n        xmins, xmaxs, ymins, ymaxs = list(zip(*bbs))\n        xmin = min(xmins)\n        xmax = max(xmaxs)\n        ymin = min(ymins)\n        ymax = max(ymaxs)\n        return xmin, xmax, ymin, ymax", "        if getattr(self, '_bbox_memo', None) is None:\n            bbs = [seg.bbox() for seg in self._segments]\n            xmins, xmaxs, ymins, ymaxs = list(zip(*bbs))\n            self._bbox_memo = (min(xmins), max(xmaxs), min(ymins), max(ymaxs))\n        return self._bbox_memo", 'Path.bbox memoised and never invalidated')
ben('C16', P, "        bbs = [seg.bbox() for seg in self._segments]\n        xmins, xmaxs, ymins, ymaxs = list(zip(*bbs))\n        xmin = min(xmins)\n        xmax = max(xmaxs)\n        ymin = min(ymins)\n        ymax = max(ymaxs)\n        return xmin, xmax, ymin, ymax", "        boxes = [seg.bbox() for seg in self._segments]\n        return (min(b[0] for b in boxes), max(b[1] for b in boxes), min(b[2] for b in boxes), max(b[3] for b in boxes))", 'Path.bbox with generator expressions')
brk('C19', B, "    t1 = 1-t\n    return [n_choose_k(n, k) * t1**(n-k) * t**k for k in range(n+1)]", "    t1 = 1-t\n    row = _ROWS.setdefault(max(_ROWS), [1])\n    while len(row) <= n:\n        row.append(1)\n        for k in range(len(row) - 2, 0, -1):\n            row[k] += row[k - 1]\n    return [row[k] * t1**(n-k) * t**k for k in range(n+1)]\n\n\n_ROWS = {0: [1]}", 'bernstein reads one shared, growing row of Pascal triangle: lower degrees asked later get the wrong row')
brk('C19', 'polytools.py', "    return polyroots(p, realroots=True, condition=lambda tval: 0 <= tval <= 1)", "    p = list(p.coeffs) if isinstance(p, np.poly1d) else list(p)\n    while len(p) > 1 and isclose(p[0], 0):\n        p = p[1:]\n    return polyroots(p, realroots=True, condition=lambda tval: 0 <= tval <= 1)", 'polyroots01 drops small leading coefficients')
ben('C19', 'polytools.py', "    return polyroots(p, realroots=True, condition=lambda tval: 0 <= tval <= 1)", "    inside = lambda tval: 0 <= tval <= 1\n    return polyroots(p, condition=inside, realroots=True)", 'polyroots01 names its condition')
brk('C13', P, "    return path.radialrange(pt)[0]", "    best = None\n    for k, seg in enumerate(path):\n        d, t = seg.radialrange(pt)[0]\n        if best is None or d < best[0] - 1:\n            best = (d, t, k)\n    return best", 'closest point loop keeps an earlier segment unless the new one is closer by more than 1')
ben('C13', P, "    return path.radialrange(pt)[0]", "    best = None\n    for k, seg in enumerate(path):\n        d, t = seg.radialrange(pt)[0]\n        if best is None or d < best[0]:\n            best = (d, t, k)\n    return best", 'closest point by an own loop over the segments')
brk('C17', 'document.py', "        return flattened_paths_from_group(group, self.tree.getroot(), recursive,\n                                          group_filter, path_filter, path_conversions)", "        return flattened_paths_from_group(group, group, recursive,\n                                          group_filter, path_filter, path_conversions)", 'paths_from_group expresses paths in the frame of the group, not of the document')
brk('C18', 'document.py', "    while stack:\n        top = stack.pop()\n\n        # For each element type that we know how to convert into path\n        # data, parse the element after confirming that the path_filter\n        # accepts it.\n        for key, converter in path_conversions.items():\n            for path_elem in filter(path_filter, top.group.iterfind(\n                    'svg:'+key, SVG_NAMESPACE)):\n                path_tf = top.transform.dot(\n                    parse_transform(path_elem.get('transform')))\n                path = transform(parse_path(converter(path_elem)), path_tf)", "    seen = {}\n    while stack:\n        top = stack.pop()\n\n        for key, converter in path_conversions.items():\n            for path_elem in filter(path_filter, top.group.iterfind(\n                    'svg:'+key, SVG_NAMESPACE)):\n                path_tf = top.transform.dot(\n                    parse_transform(path_elem.get('transform')))\n                d = converter(path_elem)\n                if d not in seen:\n                    seen[d] = parse_path(d)\n                path = transform(seen[d], path_tf)", 'parsed geometry shared between elements with equal data')
brk('C04', P, "        self.center = exp(1j*self.phi)*cp + (self.start + self.end)/2", "        self.center = exp(1j*self.phi)*cp + (self.start + self.end)/2\n        if rx == ry:\n            self.phi = 0.0", 'circles lose their rotation angle inside _parameterize')
brk('C15', P, "    dseg = seg.derivative(t)\n\n    # Note: dseg might be numpy value", "    if t == 0 and np.isclose(seg.bpoints()[1], seg.bpoints()[0]):\n        return (seg.bpoints()[2] - seg.bpoints()[0])/abs(seg.bpoints()[2] - seg.bpoints()[0])\n    dseg = seg.derivative(t)\n\n    # Note: dseg might be numpy value", 'start tangent skips a control point that is merely near the start')
brk('C03', P, "        return self.poly()(ts)\n\n    def length(self, t0=0, t1=1, error=None, min_depth=None):\n        if t0 == 1 and t1 == 0:\n            if self._length_info['bpoints'] == self.bpoints():", "        ts = np.asarray(ts)\n        return np.where(ts >= 1, self.end, self.poly()(ts))\n\n    def length(self, t0=0, t1=1, error=None, min_depth=None):\n        if t0 == 1 and t1 == 0:\n            if self._length_info['bpoints'] == self.bpoints():", 'QuadraticBezier.points clamps parameters beyond 1 to the end point')
brk('C07', P, "        return inv_arclength(self, s, s_tol=s_tol, maxits=maxits, error=error,\n                             min_depth=min_depth)\n\n    def bpoints(self):\n        \"\"\"returns the Bezier control points of the segment.\"\"\"\n        return self.start, self.control, self.end", "        if (self.control - self.start).real*(self.end - self.start).imag == (self.control - self.start).imag*(self.end - self.start).real and self.end != self.start:\n            full = self.length(error=error, min_depth=min_depth)\n            if not 0 <= s <= full:\n                raise ValueError('s is not in interval [0, curve.length()].')\n            return s/full\n        return inv_arclength(self, s, s_tol=s_tol, maxits=maxits, error=error,\n                             min_depth=min_depth)\n\n    def bpoints(self):\n        \"\"\"returns the Bezier control points of the segment.\"\"\"\n        return self.start, self.control, self.end", 'straight quadratic treated as uniformly parameterised')

# ---------------------------------------------------------------- rounds 6 / 7
brk('C05', P, "    return Path(*[seg for path in list_of_paths for seg in path])", "    segs = [seg for path in list_of_paths for seg in path]\n    for a, b in zip(segs, segs[1:]):\n        if a.end != b.start and np.isclose(a.end, b.start):\n            b.start = a.end\n    return Path(*segs)", 'concatpaths heals joints that are merely close')
ben('C05', P, "    return Path(*[seg for path in list_of_paths for seg in path])", "    segs = []\n    for path in list_of_paths:\n        segs.extend(path)\n    return Path(*segs)", 'concatpaths with an explicit loop')
brk('C17', 'svg_io_sax.py', "        flat = []\n        for values in self.tree:\n            pathd = values['d']\n            matrix = values['matrix']\n            parsed_path = parse_path(pathd)\n            if matrix is not None:\n                parsed_path = transform(parsed_path, matrix)\n            flat.append(parsed_path)\n        return flat", "        flat = []\n        done = {}\n        for values in self.tree:\n            pathd = values['d']\n            matrix = values['matrix']\n            key = (pathd, values.get('transform'))\n            if key not in done:\n                parsed_path = parse_path(pathd)\n                if matrix is not None:\n                    parsed_path = transform(parsed_path, matrix)\n                done[key] = parsed_path\n            flat.append(done[key])\n        return flat", 'flatten_all_paths reuses a flattened path for equal (d, transform text)')
brk('C18', 'document.py', "            if prettify:\n                output_svg.write(self.pretty(**kwargs))\n            else:\n                output_svg.write(repr(self))", "            if prettify:\n                output_svg.write(self.pretty(**kwargs).replace('svg:', ''))\n            else:\n                output_svg.write(repr(self).replace('svg:', ''))", 'Document.save strips the svg: prefix by a text replace')
ben('C18', 'document.py', "            if prettify:\n                output_svg.write(self.pretty(**kwargs))\n            else:\n                output_svg.write(repr(self))", "            text = self.pretty(**kwargs) if prettify else repr(self)\n            output_svg.write(text)", 'Document.save through a local')
brk('C09', P, "        new_cub = CubicBezier(self.end, self.control2, self.control1,\n                              self.start)", "        new_cub = CubicBezier(self.end, self.control2, self.control1,\n                              self.start) if not self._length_info['length'] else CubicBezier(self.end, self.control1, self.control2, self.start)", 'a measured cubic is reversed with its inner control points in the old order')
brk('C11', B, "def boxes_intersect(box1, box2):", "def boxes_intersect(box1, box2):\n    if box1[2] == box1[3] and box2[0] == box2[1]:\n        return box1[0] <= box2[0] <= box1[1] and box2[2] <= box1[2] <= box2[3]", 'flat boxes that cross count as overlapping (area-based termination then reports mid parameters at once)')
brk('C04', P, "        for s in range(len(self)-1, -1, -1):\n            segment = self[s]\n            if not isinstance(segment, Arc):\n                continue\n            arc_required = int(ceil(abs(segment.delta) / sweep_limit))\n            self[s:s+1] = list(segment.as_cubic_curves(arc_required))", "        for s, segment in enumerate(list(self)):\n            if not isinstance(segment, Arc):\n                continue\n            arc_required = int(ceil(abs(segment.delta) / sweep_limit))\n            self[s:s+1] = list(segment.as_cubic_curves(arc_required))", 'arcs replaced front to back with the indices of a snapshot')
ben('C04', P, "        for s in range(len(self)-1, -1, -1):\n            segment = self[s]\n            if not isinstance(segment, Arc):\n                continue\n            arc_required = int(ceil(abs(segment.delta) / sweep_limit))\n            self[s:s+1] = list(segment.as_cubic_curves(arc_required))", "        for s in reversed(range(len(self))):\n            if isinstance(self[s], Arc):\n                pieces = int(ceil(abs(self[s].delta) / sweep_limit))\n                self[s:s+1] = list(self[s].as_cubic_curves(pieces))", 'arc replacement loop restyled')
brk('C16', P, "            new_cub._length_info = dict(self._length_info)\n            new_cub._length_info['bpoints'] = (\n                self.end, self.control2, self.control1, self.start)", "            new_cub._length_info = dict(self._length_info, error=LENGTH_ERROR, min_depth=LENGTH_MIN_DEPTH)\n            new_cub._length_info['bpoints'] = (\n                self.end, self.control2, self.control1, self.start)", 'reversed copy claims default tolerances for a loosely measured length')
brk('C16', P, "        return self.bpoints()[item]\n\n    def __len__(self):\n        return 4", "        return (self._length_info['bpoints'] or self.bpoints())[item]\n\n    def __len__(self):\n        return 4", 'CubicBezier indexing reads the control points remembered by length()')
brk('C12', B, "    return max(0, min(b, d) - max(a, c))", "    w = min(b, d) - max(a, c)\n    return 0 if w <= 1e-12*max(abs(a), abs(b), abs(c), abs(d)) else w", 'interval overlap with a tolerance relative to the coordinates')

# ---------------------------------------------------------------- round 8
brk('C03', P, "            return 2*(p[2] - 2*p[1] + p[0])", "            return 2*np.poly1d([p[0] - 2*p[1] + p[2], 2*(p[1] - p[0]), p[0]]).coeffs[0]", 'second derivative read off the first entry of a poly1d coefficient array (leading zeros are stripped)')
brk('C02', P, "                for arc_args in ARC_ARGS_RE.finditer(x):", "                for arc_args in ARC_ARGS_RE.finditer(x.strip() if x[:1] != ' ' else ''):", 'arc operands after a blank are not tokenised as arcs')
brk('C19', 'polytools.py', "    roots = np.roots(p)", "    if len(p) < 2:\n        return []\n    roots = np.roots(p)", 'polyroots treats every poly1d of order 1 as constant')
ben('C19', 'polytools.py', "    roots = np.roots(p)", "    if not isinstance(p, np.poly1d) and len(p) < 2:\n        return []\n    roots = np.roots(p)", 'polyroots short-cut for constant coefficient sequences only')
brk('C16', P, "    def insert(self, index, value):\n        self._segments.insert(index, value)", "    def extend(self, values):\n        self._segments.extend(values)\n        self._end = self._segments[-1].end\n\n    def insert(self, index, value):\n        self._segments.insert(index, value)", 'bulk extend that keeps the length table')

# ---------------------------------------------------------------- round 9 (R16.7 degenerate paths, R17.9 option hand-over)
brk('C16', P, "        if not isinstance(other, Path):\n            return NotImplemented\n        return not self == other\n\n    def _calc_lengths",
    "        if not isinstance(other, Path):\n            return NotImplemented\n        if len(self) != len(other):\n            return True\n        differs = True\n        for s, o in zip(self._segments, other._segments):\n            differs = not s == o\n            if differs:\n                break\n        return differs\n\n    def _calc_lengths",
    'Path.__ne__ by hand: two paths without segments are == and != at once')
ben('C16', P, "        if not isinstance(other, Path):\n            return NotImplemented\n        return not self == other\n\n    def _calc_lengths",
    "        if not isinstance(other, Path):\n            return NotImplemented\n        if len(self) != len(other):\n            return True\n        for s, o in zip(self._segments, other._segments):\n            if not s == o:\n                return True\n        return False\n\n    def _calc_lengths",
    'Path.__ne__ by hand, correct for empty paths')
brk('C17', 'svg_to_paths.py', "    return svg2paths(svg_file_location=svg_file_location,\n                     return_svg_attributes=return_svg_attributes,\n                     convert_circles_to_paths=convert_circles_to_paths,\n                     convert_ellipses_to_paths=convert_ellipses_to_paths,",
    "    return svg2paths(svg_file_location=svg_file_location,\n                     return_svg_attributes=return_svg_attributes,\n                     convert_circles_to_paths=convert_ellipses_to_paths,\n                     convert_ellipses_to_paths=convert_circles_to_paths,",
    'svg2paths2 hands the circle option to the ellipse option and vice versa (keywords)')
ben('C17', 'svg_to_paths.py', "    return svg2paths(svg_file_location=svg_file_obj,\n                     return_svg_attributes=return_svg_attributes,\n                     convert_circles_to_paths=convert_circles_to_paths,\n                     convert_ellipses_to_paths=convert_ellipses_to_paths,\n                     convert_lines_to_paths=convert_lines_to_paths,\n                     convert_polylines_to_paths=convert_polylines_to_paths,\n                     convert_polygons_to_paths=convert_polygons_to_paths,\n                     convert_rectangles_to_paths=convert_rectangles_to_paths)",
    "    return svg2paths(svg_file_obj, return_svg_attributes, convert_circles_to_paths, convert_ellipses_to_paths,\n                     convert_lines_to_paths, convert_polylines_to_paths, convert_polygons_to_paths,\n                     convert_rectangles_to_paths)",
    'svgstr2paths forwards its options positionally in the right order')
brk('C18', 'document.py', "        return parseString(repr(self)).toprettyxml(**kwargs)",
    "        import re\n        text = repr(self)\n        text = re.sub(r'[ \\t]+', ' ', text)\n        return parseString(text).toprettyxml(**kwargs)",
    'pretty() collapses runs of blanks in the serialised XML, also inside attribute values (through a local)')
brk('C18', 'document.py', "                output_svg.write(repr(self))", "                output_svg.write(repr(self).replace(', ', ','))",
    'save() rewrites ", " in the serialised XML (style / d values contain it)')
ben('C18', 'document.py', "        return parseString(repr(self)).toprettyxml(**kwargs)",
    "        import re\n        return parseString(re.sub(r'>\\s+<', '><', repr(self))).toprettyxml(**kwargs)",
    'pretty() drops white space between tags only (cannot match inside an attribute value: < is escaped there)')
brk('C10', P, "    if origin is None:\n        if isinstance(curve, Arc):\n            origin = curve.center\n        else:\n            origin = curve.point(0.5)\n\n    if isinstance(curve, Path):\n        transformation = lambda seg: rotate(seg, degs, origin=origin)\n        return transform_segments_together(curve, transformation)\n    elif is_bezier_segment(curve):",
    "    if isinstance(curve, Path):\n        transformation = lambda seg: rotate(seg, degs, origin=origin)\n        return transform_segments_together(curve, transformation)\n\n    if origin is None:\n        if isinstance(curve, Arc):\n            origin = curve.center\n        else:\n            origin = curve.point(0.5)\n\n    if is_bezier_segment(curve):",
    'rotate(Path) without origin: the Path branch runs before the default origin is filled in')
ben('C10', P, "    if origin is None:\n        if isinstance(curve, Arc):\n            origin = curve.center\n        else:\n            origin = curve.point(0.5)\n\n    if isinstance(curve, Path):",
    "    if origin is None:\n        origin = curve.center if isinstance(curve, Arc) else curve.point(0.5)\n\n    if isinstance(curve, Path):",
    'default origin of rotate() as a conditional expression')
