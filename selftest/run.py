#!/venv/bin/python
"""Sensitivity self-test of the checks: every catalogue entry is a single-site textual edit of a scratch copy
of the CURRENT /repo/svgpathtools (outside /repo and /verif, removed afterwards).
  kind 'break'  : the named check must exit 1 (VIOLATION)
  kind 'benign' : behaviour-preserving edit; the named check must exit 0
An entry whose `old` text no longer occurs exactly once in the current tree is reported as STALE (not a failure of
the property).  usage: run.py [PROP ...] [-j N]     exit 0 iff every non-stale entry behaves as expected."""
import os, sys, shutil, subprocess, tempfile
from concurrent.futures import ThreadPoolExecutor

HERE = os.path.dirname(os.path.abspath(__file__))
VERIF = os.path.dirname(HERE)
sys.path.insert(0, HERE)
from catalogue import ENTRIES  # noqa: E402


def run_entry(e):
    prop, kind, fname, old, new, why = e
    d = tempfile.mkdtemp(prefix='selftest-', dir='/tmp')
    try:
        dst = os.path.join(d, 'repo', 'svgpathtools')
        shutil.copytree(os.environ.get('VERIF_REPO', '/repo') + '/svgpathtools', dst)
        p = os.path.join(dst, fname)
        src = open(p).read()
        if src.count(old) != 1:
            return e, 'STALE', 'old text occurs %d times' % src.count(old)
        open(p, 'w').write(src.replace(old, new))
        try:
            compile(open(p).read(), p, 'exec')
        except SyntaxError as ex:
            return e, 'BADENTRY', 'edit does not compile: %s' % ex
        r = subprocess.run([os.path.join(VERIF, 'check'), prop, '--quick', '--repo', os.path.join(d, 'repo'), '--no-evidence'],
                           cwd=VERIF, capture_output=True, text=True)
        want = 1 if kind == 'break' else 0
        ok = r.returncode == want
        tail = [l for l in r.stdout.splitlines() if 'VIOLATION' not in l][-3:]
        return e, 'ok' if ok else 'FAIL', 'exit %d (want %d) %s' % (r.returncode, want, '' if ok else ' | '.join(tail)[:400])
    finally:
        shutil.rmtree(d, ignore_errors=True)


def run_for(prop, repo='/repo', jobs=12):
    """-> (results [(entry, status, msg)]) for the catalogue entries of one property, against a scratch copy of `repo`"""
    os.environ['VERIF_REPO'] = repo
    entries = [e for e in ENTRIES if e[0] == prop]
    with ThreadPoolExecutor(jobs) as ex:
        return list(ex.map(run_entry, entries))


def main():
    args = sys.argv[1:]
    jobs = 12
    if '-j' in args:
        i = args.index('-j')
        jobs = int(args[i + 1])
        del args[i:i + 2]
    entries = [e for e in ENTRIES if not args or e[0] in args]
    with ThreadPoolExecutor(jobs) as ex:
        res = list(ex.map(run_entry, entries))
    bad = 0
    for e, status, msg in res:
        if status in ('FAIL', 'BADENTRY'):
            bad += 1
        print('%-5s %-7s %-8s %s -- %s' % (e[0], e[1], status, e[5][:70], msg if status != 'ok' else ''))
    n_stale = sum(1 for _, s, _ in res if s == 'STALE')
    print('%d entries: %d ok, %d failed, %d stale' % (len(res), len(res) - bad - n_stale, bad, n_stale))
    return 1 if bad else 0


if __name__ == '__main__':
    sys.exit(main())
