"""Abstract values of the E3 interpreter."""
from fractions import Fraction as Fr
from .poly import Rat, Poly, Undecidable, apply_fn


class PyRaise(Exception):
    """a Python-level exception raised by the interpreted code (or by the model of a builtin)"""

    def __init__(self, exc_name, msg=''):
        Exception.__init__(self, exc_name, msg)
        self.exc_name = exc_name
        self.msg = msg


class Obj(object):
    """instance of a package class with symbolic attributes"""

    def __init__(self, cls):
        self.cls = cls
        self.attrs = {}

    def __repr__(self):
        return '<%s %s>' % (self.cls.name, ', '.join('%s=%r' % kv for kv in sorted(self.attrs.items(), key=lambda kv: kv[0])
                                                       if not kv[0].startswith('_')))


class PropertyObj(object):
    """a property object built at run time: property(fget, fset, fdel)"""

    def __init__(self, fget=None, fset=None, fdel=None):
        self.fget, self.fset, self.fdel = fget, fset, fdel


class Opaque(object):
    """a value the algebra knows nothing about; any use is Undecidable (attribute reads may be
    given meaning by `attrs`)"""

    def __init__(self, what, attrs=None, raises_on_attr=None):
        self.what = what
        self.attrs = attrs or {}
        self.raises_on_attr = raises_on_attr

    def __repr__(self):
        return '<opaque %s>' % self.what


class ClassRef(object):
    def __init__(self, info):
        self.info = info

    def __repr__(self):
        return '<classref %s>' % self.info.name


class ExtRef(object):
    """reference to an external (library / builtin) callable or module, by dotted name"""

    def __init__(self, dotted):
        self.dotted = dotted

    def __repr__(self):
        return '<ext %s>' % self.dotted


class Closure(object):
    def __init__(self, info, node, env, module, self_obj=None, cls=None):
        self.info = info          # FuncInfo or None (lambda)
        self.node = node          # FunctionDef or Lambda
        self.env = env            # defining Env (None for module level)
        self.module = module
        self.self_obj = self_obj  # bound receiver
        self.cls = cls

    def bind(self, obj):
        return Closure(self.info, self.node, self.env, self.module, obj, self.cls)

    def __repr__(self):
        return '<closure %s>' % (self.info.qualname if self.info else 'lambda')


class BoundBuiltin(object):
    """method of a builtin container / model value"""

    def __init__(self, recv, name):
        self.recv = recv
        self.name = name


class Label(object):
    """symbolic boolean: opaque test keyed by a canonical string, with polarity"""

    def __init__(self, key, positive=True, text=None):
        self.key = key
        self.positive = positive
        self.text = text or key

    def negate(self):
        return Label(self.key, not self.positive, self.text)

    def __repr__(self):
        return ('' if self.positive else 'not ') + self.text


class StrT(object):
    """string template: list of str literals and Hole(value, spec, conv)"""

    def __init__(self, parts):
        out = []
        for p in parts:
            if isinstance(p, str):
                if not p:
                    continue
                if out and isinstance(out[-1], str):
                    out[-1] += p
                    continue
            out.append(p)
        self.parts = out

    def map_literals(self, f):
        return StrT([f(p) if isinstance(p, str) else p for p in self.parts])

    def is_plain(self):
        return all(isinstance(p, str) for p in self.parts)

    def plain(self):
        return ''.join(self.parts)

    def __repr__(self):
        return 'StrT(%s)' % ''.join(p if isinstance(p, str) else '{%r%s}' % (p.value, ':' + p.spec if p.spec else '')
                                    for p in self.parts)


class Hole(object):
    def __init__(self, value, spec='', conv='str'):
        self.value = value
        self.spec = spec
        self.conv = conv   # 'str' (format/str()) | '%s' | 'float-token'

    def __repr__(self):
        return 'Hole(%r,%r)' % (self.value, self.spec)


class NumTok(object):
    """a numeric token of an input string whose value is the symbolic number `value`"""

    def __init__(self, value, name=None):
        self.value = value
        self.name = name

    def __repr__(self):
        return 'tok(%s)' % (self.name or self.value)


class PolyT(object):
    """model of numpy.poly1d: coefficients highest degree first (list of Rat)"""

    def __init__(self, coeffs):
        cs = [to_rat(c) for c in coeffs]
        while len(cs) > 1 and cs[0].is_zero():
            cs = cs[1:]
        if not cs:
            cs = [Rat.const(0)]
        self.c = cs

    @property
    def order(self):
        return len(self.c) - 1

    def __add__(self, o):
        if isinstance(o, PolyT):
            a, b = self.c, o.c
            n = max(len(a), len(b))
            a = [Rat.const(0)] * (n - len(a)) + a
            b = [Rat.const(0)] * (n - len(b)) + b
            return PolyT([x + y for x, y in zip(a, b)])
        o = to_rat(o)
        return PolyT(self.c[:-1] + [self.c[-1] + o])

    __radd__ = __add__

    def __neg__(self):
        return PolyT([-x for x in self.c])

    def __sub__(self, o):
        return self + (-o if isinstance(o, PolyT) else -to_rat(o))

    def __rsub__(self, o):
        return (-self) + o

    def __mul__(self, o):
        if isinstance(o, PolyT):
            res = [Rat.const(0)] * (len(self.c) + len(o.c) - 1)
            for i, x in enumerate(self.c):
                if x.is_zero():
                    continue
                for j, y in enumerate(o.c):
                    res[i + j] = res[i + j] + x * y
            return PolyT(res)
        o = to_rat(o)
        return PolyT([x * o for x in self.c])

    __rmul__ = __mul__

    def __truediv__(self, o):
        o = to_rat(o)
        return PolyT([x / o for x in self.c])

    def __pow__(self, n):
        n = as_int(n)
        if n is None or n < 0:
            raise Undecidable('poly1d ** %r' % (n,))
        r = PolyT([1])
        for _ in range(n):
            r = r * self
        return r

    def __call__(self, x):
        if isinstance(x, (list, tuple)):
            return [self(v) for v in x]
        acc = None
        for c in self.c:
            acc = c if acc is None else acc * x + c
        return acc

    def deriv(self, m=1):
        p = self
        for _ in range(m):
            n = p.order
            cs = [c * (n - i) for i, c in enumerate(p.c[:-1])]
            p = PolyT(cs or [0])
        return p

    def integ(self):
        n = self.order
        cs = [c / (n - i + 1) for i, c in enumerate(self.c)] + [Rat.const(0)]
        return PolyT(cs)

    def coef_of_power(self, k):
        if k < 0 or k > self.order:
            return Rat.const(0)
        return self.c[self.order - k]

    def equals(self, o):
        if not isinstance(o, PolyT):
            return False
        return len(self.c) == len(o.c) and all(a.equals(b) for a, b in zip(self.c, o.c))

    def __repr__(self):
        return 'poly1d(%s)' % (self.c,)


class Arr(object):
    """model of a small numpy array: 1-D (list of Rat) or 2-D (list of rows)"""

    def __init__(self, data):
        self.d = data

    def __iter__(self):
        return iter([Arr(r) if isinstance(r, list) else r for r in self.d])

    def __len__(self):
        return len(self.d)

    @property
    def ndim(self):
        return 2 if self.d and isinstance(self.d[0], list) else 1

    def shape(self):
        if self.ndim == 2:
            return (len(self.d), len(self.d[0]))
        return (len(self.d),)

    def copy(self):
        return Arr([list(r) for r in self.d]) if self.ndim == 2 else Arr(list(self.d))

    def dot(self, o):
        if not isinstance(o, Arr):
            raise Undecidable('dot with non-array')
        if self.ndim == 2 and o.ndim == 2:
            n, k = self.shape()
            k2, m = o.shape()
            if k != k2:
                raise PyRaise('ValueError', 'shapes not aligned')
            return Arr([[sum_rat(self.d[i][x] * o.d[x][j] for x in range(k)) for j in range(m)] for i in range(n)])
        if self.ndim == 2 and o.ndim == 1:
            return Arr([sum_rat(self.d[i][x] * o.d[x] for x in range(len(o.d))) for i in range(len(self.d))])
        raise Undecidable('dot of these shapes')

    def map(self, f):
        if self.ndim == 2:
            return Arr([[f(x) for x in r] for r in self.d])
        return Arr([f(x) for x in self.d])

    def equals(self, o):
        if not isinstance(o, Arr) or self.shape() != o.shape():
            return False
        if self.ndim == 2:
            return all(a.equals(b) for r1, r2 in zip(self.d, o.d) for a, b in zip(r1, r2))
        return all(a.equals(b) for a, b in zip(self.d, o.d))

    def __repr__(self):
        return 'Arr(%r)' % (self.d,)


def sum_rat(it):
    acc = Rat.const(0)
    for x in it:
        acc = acc + x
    return acc


def to_rat(v):
    if isinstance(v, Rat):
        return v
    if isinstance(v, NumTok):
        return v.value
    if isinstance(v, bool):
        return Rat.const(int(v))
    if isinstance(v, (int, Fr, float, complex)):
        return Rat.const(v)
    raise Undecidable('not a number: %r' % (v,))


def is_num(v):
    return isinstance(v, (Rat, int, Fr, float, complex)) and not isinstance(v, bool) or isinstance(v, bool)


def as_int(v):
    if isinstance(v, bool):
        return int(v)
    if isinstance(v, int):
        return v
    if isinstance(v, Fr) and v.denominator == 1:
        return int(v)
    if isinstance(v, float) and v == int(v):
        return int(v)
    if isinstance(v, Rat):
        f = v.as_fraction()
        if f is not None and f.denominator == 1:
            return int(f)
    return None


def concrete_number(v):
    """exact Fraction for a concrete real number value, else None"""
    if isinstance(v, bool):
        return Fr(int(v))
    if isinstance(v, (int, Fr)):
        return Fr(v)
    if isinstance(v, float):
        try:
            return Fr(repr(v))
        except ValueError:
            return None
    if isinstance(v, Rat):
        return v.as_fraction()
    return None


class PosInf(object):
    """model of float('inf') / numpy.inf: only ordering against finite numbers is meaningful"""

    def __repr__(self):
        return 'inf'


INF = PosInf()


class PyFunc(object):
    """a callable supplied by a check (model of a library object): fn(interp, args, kwargs)"""

    def __init__(self, fn, name='pyfunc'):
        self.fn = fn
        self.name = name

    def __repr__(self):
        return '<pyfunc %s>' % self.name


class HRat(object):
    """hashable wrapper of a symbolic Rat (set element / dict key): identity is the normal form"""

    def __init__(self, r):
        self.r = r

    def __hash__(self):
        return hash(self.r.key())

    def __eq__(self, o):
        return isinstance(o, HRat) and self.r.key() == o.r.key()

    def __repr__(self):
        return 'HRat(%s)' % self.r.key()
