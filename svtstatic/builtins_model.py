"""Models of Python builtins, numpy/math functions and container methods for the E3 interpreter."""
import ast
from fractions import Fraction as Fr
from .poly import Rat, Poly, Undecidable, apply_fn, PI
from .values import (PyRaise, Obj, Opaque, ClassRef, ExtRef, Closure, BoundBuiltin, Label, StrT, Hole,
                     NumTok, PolyT, Arr, to_rat, as_int, concrete_number, sum_rat)

BUILTIN_NAMES = {'len', 'range', 'abs', 'min', 'max', 'sum', 'float', 'int', 'bool', 'complex', 'isinstance',
                 'list', 'tuple', 'enumerate', 'zip', 'reversed', 'sorted', 'map', 'filter', 'any', 'all', 'str',
                 'set', 'pow', 'hash', 'next', 'iter', 'dict', 'print', 'repr', 'id', 'type', 'round', 'divmod',
                 'object', 'ValueError', 'TypeError', 'Exception', 'AssertionError', 'IndexError', 'KeyError',
                 'NotImplementedError', 'RuntimeError', 'AttributeError', 'ZeroDivisionError',
                 'FloatingPointError', 'NameError', 'ImportError', 'basestring', 'frozenset', 'getattr', 'hasattr',
                 'callable', 'slice', 'bytes', 'open', 'super'}


def ext_value(dotted):
    if dotted in ('numpy.pi', 'math.pi', 'cmath.pi'):
        return PI
    if dotted in ('sys.float_info.max', 'float_info.max'):
        import sys as _sys
        return Rat.const(_sys.float_info.max)
    if dotted in ('sys.float_info.min', 'float_info.min'):
        import sys as _sys
        return Rat.const(_sys.float_info.min)
    if dotted in ('sys.float_info.epsilon', 'float_info.epsilon'):
        import sys as _sys
        return Rat.const(_sys.float_info.epsilon)
    if dotted in ('numpy.inf', 'math.inf'):
        from .values import INF
        return INF
    return ExtRef(dotted)


# ----------------------------------------------------------------------------- strings
def mk_str(parts):
    flat = []
    for p in parts:
        if isinstance(p, StrT):
            flat.extend(p.parts)
        else:
            flat.append(p)
    s = StrT(flat)
    return s.plain() if s.is_plain() else s


def fmt_value(v, spec='', conv='str'):
    if isinstance(v, (str,)):
        if spec:
            return format(v, spec)
        return v
    if isinstance(v, StrT):
        return v
    if isinstance(v, NumTok):
        return Hole(v, spec, conv)
    if isinstance(v, bool):
        if spec:
            return format(v, spec)
        return str(v)
    if isinstance(v, int):
        return format(v, spec)
    if v is None:
        return 'None'
    if isinstance(v, Fr):
        if v.denominator == 1 and not spec:
            return Hole(Rat.const(v), spec, conv)
        return Hole(Rat.const(v), spec, conv)
    if isinstance(v, Rat):
        return Hole(v, spec, conv)
    if isinstance(v, _IntOf):
        return Hole(v, spec, conv)
    if isinstance(v, (tuple, list)):
        # repr of a container with symbolic members: keep structure as holes
        parts = ['(' if isinstance(v, tuple) else '[']
        for i, x in enumerate(v):
            if i:
                parts.append(', ')
            parts.append(fmt_value(x, '', conv))
        parts.append(')' if isinstance(v, tuple) else ']')
        return mk_str(parts)
    return Hole(v, spec, conv)


class _IntOf(object):
    """int(x) of a symbolic flag/number: prints as an integer token"""

    def __init__(self, value):
        self.value = value

    def __repr__(self):
        return 'int(%r)' % (self.value,)


def str_format(tmpl, args, kwargs):
    """'..{}..{:d}..{0}..'.format(*args)"""
    import string
    parts = []
    auto = 0
    for lit, field, spec, conv in string.Formatter().parse(tmpl):
        if lit:
            parts.append(lit)
        if field is None:
            continue
        if field == '':
            val = args[auto]
            auto += 1
        elif field.isdigit():
            val = args[int(field)]
        else:
            head = field.split('.')[0].split('[')[0]
            if head != field:
                raise Undecidable('format field %r' % field)
            val = kwargs[field]
        parts.append(fmt_value(val, spec or ''))
    return mk_str(parts)


def str_percent(tmpl, arg):
    args = list(arg) if isinstance(arg, tuple) else [arg]
    parts = []
    i = 0
    k = 0
    while i < len(tmpl):
        ch = tmpl[i]
        if ch == '%':
            if tmpl[i + 1] == '%':
                parts.append('%')
                i += 2
                continue
            j = i + 1
            while tmpl[j] not in 'sdrfgeixX':
                j += 1
            spec = tmpl[i + 1:j + 1]
            if k >= len(args):
                raise PyRaise('TypeError', 'not enough arguments for format string')
            v = args[k]
            k += 1
            if spec in ('s', 'r'):
                parts.append(fmt_value(v, '', '%s'))
            else:
                parts.append(fmt_value(v, '%' + spec, '%'))
            i = j + 1
        else:
            parts.append(ch)
            i += 1
    if k != len(args):
        raise PyRaise('TypeError', 'not all arguments converted during string formatting')
    return mk_str(parts)


# ----------------------------------------------------------------------------- arithmetic
def binop(it, op, a, b):
    if isinstance(a, NumTok):
        a = a.value
    if isinstance(b, NumTok):
        b = b.value
    # strings
    if isinstance(a, (str, StrT)) or isinstance(b, (str, StrT)):
        if isinstance(op, ast.Add):
            if not isinstance(a, (str, StrT)) or not isinstance(b, (str, StrT)):
                raise PyRaise('TypeError', 'can only concatenate str')
            return mk_str([a, b])
        if isinstance(op, ast.Mod) and isinstance(a, str):
            return str_percent(a, b)
        if isinstance(op, ast.Mult) and isinstance(a, str) and as_int(b) is not None:
            return a * as_int(b)
        raise Undecidable('string operator')
    # sequences
    if isinstance(a, (list, tuple)) or isinstance(b, (list, tuple)):
        if isinstance(op, ast.Add) and type(a) is type(b):
            return a + b
        if isinstance(op, ast.Mult):
            seq, n = (a, b) if isinstance(a, (list, tuple)) else (b, a)
            n = as_int(n)
            if n is None:
                raise Undecidable('sequence repeated a symbolic number of times')
            return seq * n
        if isinstance(op, ast.Add) and isinstance(a, list) and isinstance(b, (list, tuple)):
            raise PyRaise('TypeError', 'can only concatenate list to list')
        raise Undecidable('sequence operator %s' % type(op).__name__)
    if isinstance(a, (set, frozenset)) and isinstance(b, (set, frozenset)):
        if isinstance(op, ast.BitOr):
            return a | b
        if isinstance(op, ast.BitAnd):
            return a & b
        if isinstance(op, ast.Sub):
            return a - b
    if isinstance(a, Arr) or isinstance(b, Arr):
        return _arr_binop(it, op, a, b)
    if isinstance(a, PolyT) or isinstance(b, PolyT):
        return _poly_binop(op, a, b)
    if a is None or b is None:
        raise PyRaise('TypeError', 'unsupported operand None')
    if isinstance(a, (Obj, Opaque)) or isinstance(b, (Obj, Opaque)):
        raise Undecidable('operator on object %r / %r' % (a, b))
    # concrete ints stay ints where Python keeps them
    ia, ib = isinstance(a, (int, Fr)) , isinstance(b, (int, Fr))
    if ia and ib:
        if isinstance(a, bool):
            a = int(a)
        if isinstance(b, bool):
            b = int(b)
        if isinstance(op, ast.Add):
            return a + b
        if isinstance(op, ast.Sub):
            return a - b
        if isinstance(op, ast.Mult):
            return a * b
        if isinstance(op, ast.Div):
            if b == 0:
                raise PyRaise('ZeroDivisionError')
            r = Fr(a) / Fr(b)
            return r
        if isinstance(op, ast.FloorDiv):
            if b == 0:
                raise PyRaise('ZeroDivisionError')
            return a // b
        if isinstance(op, ast.Mod):
            if b == 0:
                raise PyRaise('ZeroDivisionError')
            return a % b
        if isinstance(op, ast.Pow):
            if isinstance(b, int) and (b >= 0 or a != 0):
                return Fr(a) ** b if b < 0 else a ** b
    ra, rb = to_rat(a), to_rat(b)
    if isinstance(op, ast.Add):
        return ra + rb
    if isinstance(op, ast.Sub):
        return ra - rb
    if isinstance(op, ast.Mult):
        return ra * rb
    if isinstance(op, ast.Div):
        if rb.is_zero():
            raise PyRaise('ZeroDivisionError')
        return ra / rb
    if isinstance(op, ast.Pow):
        return ra ** rb
    if isinstance(op, ast.Mod):
        fa, fb = ra.as_fraction(), rb.as_fraction()
        if fa is not None and fb is not None and fb != 0:
            return Rat.const(fa % fb)
        return Rat(Poly.atom(_fn2('mod', ra, rb)))
    if isinstance(op, ast.FloorDiv):
        fa, fb = ra.as_fraction(), rb.as_fraction()
        if fa is not None and fb is not None and fb != 0:
            return Rat.const(fa // fb)
        return Rat(Poly.atom(_fn2('floordiv', ra, rb)))
    raise Undecidable('operator %s' % type(op).__name__)


def _fn2(name, a, b):
    from .poly import fn_atom
    return fn_atom(name, a * Rat.sym('__sep__') + b)


def _poly_binop(op, a, b):
    if isinstance(op, ast.Add):
        return a + b if isinstance(a, PolyT) else b + a
    if isinstance(op, ast.Sub):
        return a - b if isinstance(a, PolyT) else (-b) + a
    if isinstance(op, ast.Mult):
        return a * b if isinstance(a, PolyT) else b * a
    if isinstance(op, ast.Div) and isinstance(a, PolyT):
        return a / b
    if isinstance(op, ast.Pow) and isinstance(a, PolyT):
        return a ** b
    raise Undecidable('poly1d operator')


def _arr_binop(it, op, a, b):
    if isinstance(a, Arr) and isinstance(b, Arr):
        if a.shape() != b.shape():
            raise Undecidable('broadcasting')
        if a.ndim == 2:
            return Arr([[binop(it, op, x, y) for x, y in zip(r1, r2)] for r1, r2 in zip(a.d, b.d)])
        return Arr([binop(it, op, x, y) for x, y in zip(a.d, b.d)])
    if isinstance(a, Arr):
        return a.map(lambda x: binop(it, op, x, b))
    return b.map(lambda y: binop(it, op, a, y))


# ----------------------------------------------------------------------------- containers
def subscript(it, c, idx):
    if isinstance(c, (list, tuple, str, range)):
        if isinstance(idx, slice):
            return c[idx]
        i = as_int(idx)
        if i is None:
            raise Undecidable('symbolic index into a sequence')
        try:
            return c[i]
        except IndexError:
            raise PyRaise('IndexError', 'index %d out of range (len %d)' % (i, len(c)))
    if isinstance(c, dict):
        from .interp import _hashable
        k = _hashable(idx)
        if k not in c:
            raise PyRaise('KeyError', repr(k))
        return c[k]
    if isinstance(c, PolyT):
        i = as_int(idx)
        if i is None:
            raise Undecidable('symbolic poly1d index')
        return c.coef_of_power(i)
    if isinstance(c, Arr):
        return arr_getitem(c, idx)
    if isinstance(c, StrT):
        raise Undecidable('indexing a string template')
    if c is None:
        raise PyRaise('TypeError', "'NoneType' object is not subscriptable")
    raise Undecidable('subscript of %r' % (c,))


def _norm_idx(idx, n):
    if isinstance(idx, slice):
        return list(range(*idx.indices(n))), True
    i = as_int(idx)
    if i is None:
        raise Undecidable('symbolic array index')
    if i < 0:
        i += n
    if not 0 <= i < n:
        raise PyRaise('IndexError')
    return [i], False


def arr_getitem(a, idx):
    if a.ndim == 1:
        ids, sl = _norm_idx(idx, len(a.d))
        return Arr([a.d[i] for i in ids]) if sl else a.d[ids[0]]
    if isinstance(idx, tuple):
        r, c = idx
        rs, rsl = _norm_idx(r, len(a.d))
        cs, csl = _norm_idx(c, len(a.d[0]))
        if not rsl and not csl:
            return a.d[rs[0]][cs[0]]
        if rsl and csl:
            return Arr([[a.d[i][j] for j in cs] for i in rs])
        if rsl:
            return Arr([a.d[i][cs[0]] for i in rs])
        return Arr([a.d[rs[0]][j] for j in cs])
    rs, rsl = _norm_idx(idx, len(a.d))
    if rsl:
        return Arr([list(a.d[i]) for i in rs])
    return Arr(a.d[rs[0]])   # row view (shares the list: writes through, as numpy does)


def arr_setitem(a, idx, v):
    if isinstance(v, (list, tuple)):
        v = Arr([list(x) if isinstance(x, (list, tuple)) else x for x in v])
    if a.ndim == 1:
        ids, sl = _norm_idx(idx, len(a.d))
        if sl:
            vals = v.d if isinstance(v, Arr) else [v] * len(ids)
            for i, x in zip(ids, vals):
                a.d[i] = to_rat(x)
        else:
            a.d[ids[0]] = to_rat(v)
        return
    if isinstance(idx, tuple):
        r, c = idx
        rs, rsl = _norm_idx(r, len(a.d))
        cs, csl = _norm_idx(c, len(a.d[0]))
        if not rsl and not csl:
            a.d[rs[0]][cs[0]] = to_rat(v)
            return
        if not isinstance(v, Arr):
            for i in rs:
                for j in cs:
                    a.d[i][j] = to_rat(v)
            return
        if v.ndim == 2:
            if v.shape() != (len(rs), len(cs)):
                raise PyRaise('ValueError', 'could not broadcast input array')
            for ii, i in enumerate(rs):
                for jj, j in enumerate(cs):
                    a.d[i][j] = to_rat(v.d[ii][jj])
            return
        # 1-D value into a row or column slice
        cells = [(i, j) for i in rs for j in cs]
        if len(cells) != len(v.d):
            raise PyRaise('ValueError', 'could not broadcast input array')
        for (i, j), x in zip(cells, v.d):
            a.d[i][j] = to_rat(x)
        return
    raise Undecidable('array row assignment')


def container_attr(it, o, name):
    if isinstance(o, Arr):
        if name == 'real':
            return o.map(lambda x: to_rat(x).real())
        if name == 'imag':
            return o.map(lambda x: to_rat(x).imag())
        if name == 'T':
            if o.ndim != 2:
                return o
            return Arr([list(r) for r in zip(*o.d)])
        if name == 'shape':
            return o.shape()
        if name == 'ndim':
            return o.ndim
        if name == 'size':
            sh = o.shape()
            n_ = 1
            for d_ in sh:
                n_ *= d_
            return n_
    if isinstance(o, PolyT):
        if name in ('coeffs', 'c', 'coef', 'coefficients'):
            return Arr(list(o.c))
        if name == 'order' or name == 'o':
            return o.order
    known = _KNOWN_METHODS.get(type(o).__name__, ())
    if name not in known:
        # an AttributeError is only REAL when the modelled Python type really lacks the attribute; a method this model does not
        # cover (or any attribute of a modelled numpy object) is a limit of the analysis, not a behaviour of the code
        real = {'list': list, 'tuple': tuple, 'dict': dict, 'set': set, 'frozenset': frozenset, 'str': str}.get(type(o).__name__)
        if real is None or hasattr(real, name):
            raise Undecidable('attribute %s of a %s is not modelled' % (name, type(o).__name__))
        raise PyRaise('AttributeError', "'%s' object has no attribute %r" % (type(o).__name__, name))
    return BoundBuiltin(o, name)


_KNOWN_METHODS = {
    'list': {'__getitem__', '__len__', 'append', 'extend', 'pop', 'popleft', 'appendleft', 'reverse', 'insert', 'remove', 'index', 'copy', 'sort', '__iter__',
             '__contains__', 'count', 'clear'},
    'tuple': {'index', 'count'},
    'dict': {'get', 'items', 'keys', 'values', 'copy', 'update', 'pop', 'setdefault'},
    'set': {'add', 'update', 'discard', 'remove', 'union', 'intersection', 'difference', 'issubset', 'issuperset', 'isdisjoint', 'copy', 'clear'},
    'frozenset': {'union', 'intersection', 'difference', 'issubset', 'issuperset', 'isdisjoint', 'copy'},
    'str': {'format', 'join', 'upper', 'lower', 'strip', 'lstrip', 'rstrip', 'split', 'replace', 'startswith',
            'endswith', 'isdigit', 'find', 'count', 'index', 'rsplit', 'splitlines', 'title', 'capitalize',
            'isalpha', 'isupper', 'islower'},
    'StrT': {'lower', 'upper', 'format', 'join', 'strip'},
    'PolyT': {'deriv', 'integ'},
    'Arr': {'dot', 'copy', 'item', 'ravel', 'flatten', 'tolist', 'all', 'setflags'},
    'Iter': {'__iter__', '__next__'},
}


def call_bound(it, recv, name, args, kwargs):
    from .interp import Iter, _hashable
    if isinstance(recv, _Mixin):
        return _mixin_call(it, recv.o, name, args)
    if isinstance(recv, Rat):
        if name == 'conjugate':
            return recv.conj()
        if name == 'item':
            return recv
    if name == '__getitem__' and isinstance(recv, (list, tuple, dict, str)) and len(args) == 1:
        return subscript(it, recv, args[0])
    if name == '__len__' and isinstance(recv, (list, tuple, dict, str)) and not args:
        return len(recv)
    if isinstance(recv, list):
        if name == 'popleft':          # collections.deque is modelled by a list
            if not recv:
                raise PyRaise('IndexError', 'pop from an empty deque')
            return recv.pop(0)
        if name == 'appendleft':
            recv.insert(0, args[0])
            return None
        if name == 'append':
            recv.append(args[0])
            return None
        if name == 'extend':
            recv.extend(it.iterate(args[0]))
            return None
        if name == 'pop':
            try:
                if args:
                    return recv.pop(as_int(args[0]))
                return recv.pop()
            except IndexError:
                raise PyRaise('IndexError', 'pop from empty list')
        if name == 'reverse':
            recv.reverse()
            return None
        if name == 'insert':
            recv.insert(as_int(args[0]), args[1])
            return None
        if name == 'remove':
            for i, x in enumerate(recv):
                if x is args[0] or it.truth(it.compare_vals('eq', x, args[0])):
                    del recv[i]
                    return None
            raise PyRaise('ValueError', 'list.remove(x): x not in list')
        if name == 'index':
            for i, x in enumerate(recv):
                if x is args[0] or it.truth(it.compare_vals('eq', x, args[0])):
                    return i
            raise PyRaise('ValueError', 'not in list')
        if name == 'copy':
            return list(recv)
        if name == 'sort':
            raise Undecidable('list.sort')
        if name == '__iter__':
            return Iter(recv)
        if name == '__contains__':
            return it._contains(recv, args[0])
        if name == 'count':
            return sum(1 for x in recv if it.truth(it.compare_vals('eq', x, args[0])))
        if name == 'clear':
            del recv[:]
            return None
    if isinstance(recv, tuple):
        if name == 'index':
            for i, x in enumerate(recv):
                if it.truth(it.compare_vals('eq', x, args[0])):
                    return i
            raise PyRaise('ValueError')
        if name == 'count':
            return sum(1 for x in recv if it.truth(it.compare_vals('eq', x, args[0])))
    if isinstance(recv, dict):
        if name == 'get':
            k = _hashable(args[0])
            return recv.get(k, args[1] if len(args) > 1 else None)
        if name == 'items':
            return list(recv.items())
        if name == 'keys':
            return list(recv.keys())
        if name == 'values':
            return list(recv.values())
        if name == 'copy':
            return dict(recv)
        if name == 'update':
            recv.update(args[0] if args else {})
            recv.update(kwargs)
            return None
        if name == 'pop':
            k = _hashable(args[0])
            if k in recv:
                return recv.pop(k)
            if len(args) > 1:
                return args[1]
            raise PyRaise('KeyError')
        if name == 'setdefault':
            return recv.setdefault(_hashable(args[0]), args[1] if len(args) > 1 else None)
    if isinstance(recv, (set, frozenset)):
        if name == 'add':
            recv.add(_hashable(args[0]))
            return None
        if name == 'update':
            for a in args:
                for x in it.iterate(a):
                    recv.add(_hashable(x))
            return None
        if name in ('discard', 'remove'):
            h = _hashable(args[0])
            if h in recv:
                recv.remove(h)
            elif name == 'remove':
                raise PyRaise('KeyError')
            return None
        if name in ('union', 'intersection', 'difference', 'issubset', 'issuperset', 'isdisjoint', 'copy'):
            others = [set(_hashable(x) for x in it.iterate(a)) for a in args]
            return getattr(set(recv), name)(*others)
        if name == 'clear':
            recv.clear()
            return None
    if isinstance(recv, str):
        if name == 'format':
            return str_format(recv, args, kwargs)
        if name == 'join':
            items = it.iterate(args[0])
            parts = []
            for i, x in enumerate(items):
                if i:
                    parts.append(recv)
                if not isinstance(x, (str, StrT)):
                    raise PyRaise('TypeError', 'sequence item: expected str')
                parts.append(x)
            return mk_str(parts)
        if name in ('upper', 'lower', 'strip', 'lstrip', 'rstrip', 'split', 'replace', 'startswith', 'endswith',
                    'isdigit', 'find', 'count', 'index', 'rsplit', 'splitlines', 'title', 'capitalize',
                    'isalpha', 'isupper', 'islower'):
            if all(isinstance(a, (str, int, tuple)) or a is None for a in args):
                return getattr(recv, name)(*args)
            raise Undecidable('str.%s with symbolic argument' % name)
    if isinstance(recv, StrT):
        if name == 'lower':
            return recv.map_literals(lambda s: s.lower())
        if name == 'upper':
            return recv.map_literals(lambda s: s.upper())
        if name == 'format':
            raise Undecidable('format on a template')
        if name == 'join':
            items = it.iterate(args[0])
            parts = []
            for i, x in enumerate(items):
                if i:
                    parts.append(recv)
                parts.append(x)
            return mk_str(parts)
        if name == 'strip':
            return recv
    if isinstance(recv, PolyT):
        if name == 'deriv':
            m = as_int(args[0]) if args else as_int(kwargs.get('m', 1))
            return recv.deriv(m)
        if name == 'integ':
            return recv.integ()
    if isinstance(recv, Arr):
        if name == 'dot':
            o = args[0]
            return recv.dot(o)
        if name == 'copy':
            return recv.copy()
        if name == 'item':
            i = as_int(args[0])
            flat = [x for r in recv.d for x in r] if recv.ndim == 2 else recv.d
            return flat[i]
        if name == 'ravel' or name == 'flatten':
            return Arr([x for r in recv.d for x in r]) if recv.ndim == 2 else recv
        if name == 'tolist':
            return [list(r) for r in recv.d] if recv.ndim == 2 else list(recv.d)
        if name == 'setflags':
            return None            # write protection is not modelled (a write to a read-only array would raise in the real code)
        if name == 'all':
            flat = [x for r in recv.d for x in r] if recv.ndim == 2 else recv.d
            return all(it.truth(x) for x in flat)
    if isinstance(recv, Iter):
        if name == '__iter__':
            return recv
        if name == '__next__':
            return _next(it, [recv])
    raise Undecidable('method %s of %s' % (name, type(recv).__name__))


def mixin_method(it, o, name):
    """collections.abc.MutableSequence mixins, defined through the class's own primitives"""
    if not any(b.endswith('MutableSequence') for b in o.cls.bases):
        return None
    if name in ('append', 'extend', 'pop', 'remove', 'reverse', 'index', 'count', 'clear', '__iadd__',
                '__contains__', '__iter__', '__reversed__'):
        return BoundBuiltin(_Mixin(o), name)
    return None


class _Mixin(object):
    def __init__(self, o):
        self.o = o


def _mixin_call(it, o, name, args):
    n = as_int(it.call_method(o, '__len__'))
    if name == 'append':
        it.call_method(o, 'insert', n, args[0])
        return None
    if name == 'extend':
        for x in it.iterate(args[0]):
            it.call_method(o, 'insert', as_int(it.call_method(o, '__len__')), x)
        return None
    if name == 'pop':
        i = as_int(args[0]) if args else -1
        v = it.call_method(o, '__getitem__', i)
        it.call_method(o, '__delitem__', i)
        return v
    if name == 'index':
        for i in range(n):
            x = it.call_method(o, '__getitem__', i)
            if x is args[0] or it.truth(it.compare_vals('eq', x, args[0])):
                return i
        raise PyRaise('ValueError')
    if name == 'remove':
        i = _mixin_call(it, o, 'index', args)
        it.call_method(o, '__delitem__', i)
        return None
    if name == 'reverse':
        for i in range(n // 2):
            a = it.call_method(o, '__getitem__', i)
            b = it.call_method(o, '__getitem__', n - i - 1)
            it.call_method(o, '__setitem__', i, b)
            it.call_method(o, '__setitem__', n - i - 1, a)
        return None
    if name == 'clear':
        for _ in range(n):
            _mixin_call(it, o, 'pop', [])
        return None
    if name == '__iter__':
        from .interp import Iter
        return Iter([it.call_method(o, '__getitem__', i) for i in range(n)])
    raise Undecidable('mixin %s' % name)


# ----------------------------------------------------------------------------- external callables
def _num(v):
    if isinstance(v, NumTok):
        return v.value
    return to_rat(v)


def _mapnum(f, v):
    if isinstance(v, Arr):
        return v.map(lambda x: f(_num(x)))
    if isinstance(v, (list, tuple)):
        return Arr([f(_num(x)) for x in v])
    return f(_num(v))


def _next(it, args):
    from .interp import Iter
    itr = args[0]
    if not isinstance(itr, Iter):
        raise Undecidable('next() on non-iterator')
    if itr.pos < len(itr.items):
        v = itr.items[itr.pos]
        itr.pos += 1
        return v
    if len(args) > 1:
        return args[1]
    raise PyRaise('StopIteration')


def call_ext(it, dotted, args, kwargs):
    from .interp import Iter, _hashable, NOT_IMPLEMENTED
    short = dotted.split('.')[-1]
    mod = dotted.rsplit('.', 1)[0] if '.' in dotted else ''
    # ---------------- builtins
    if mod == 'builtins':
        if short == 'len':
            v = args[0]
            if isinstance(v, Obj):
                if '__len__' not in v.cls.methods and '__base_list__' in v.attrs:
                    return len(v.attrs['__base_list__'])
                return it.call_method(v, '__len__')
            if isinstance(v, (list, tuple, dict, str, set, frozenset, range)):
                return len(v)
            if isinstance(v, Arr):
                return len(v.d)
            if isinstance(v, PolyT):
                return v.order
            if isinstance(v, StrT):
                raise Undecidable('len of a string template')
            if isinstance(v, Iter):
                raise PyRaise('TypeError', 'len of iterator')
            raise Undecidable('len of %r' % (v,))
        if short == 'range':
            ints = [as_int(a) for a in args]
            if any(i is None for i in ints):
                raise Undecidable('range over symbolic bounds')
            return range(*ints)
        if short == 'abs':
            v = args[0]
            if isinstance(v, (int, Fr)):
                return abs(v)
            return apply_fn('abs', _num(v))
        if short in ('min', 'max'):
            return _minmax(it, short, args, kwargs)
        if short == 'sum':
            items = it.iterate(args[0])
            acc = args[1] if len(args) > 1 else 0
            for x in items:
                acc = binop(it, ast.Add(), acc, x)
            return acc
        if short == 'float':
            v = args[0]
            if isinstance(v, NumTok):
                return v.value
            if isinstance(v, StrT) and len(v.parts) == 1 and isinstance(v.parts[0], Hole) and not v.parts[0].spec:
                hv = v.parts[0].value
                return hv.value if isinstance(hv, NumTok) else to_rat(hv)
            if isinstance(v, str) and v.strip().lower() in ('inf', '+inf', 'infinity'):
                from .values import INF
                return INF
            if isinstance(v, str):
                try:
                    return Rat.const(Fr(v.strip()))
                except (ValueError, ZeroDivisionError):
                    try:
                        float(v)
                    except ValueError:
                        raise PyRaise('ValueError', 'could not convert string to float: %r' % v)
                    return Rat.const(float(v))
            if isinstance(v, (Rat, int, Fr, bool)):
                r = to_rat(v)
                return r
            if v is None:
                raise PyRaise('TypeError', 'float() argument must be a string or a number, not NoneType')
            raise Undecidable('float(%r)' % (v,))
        if short == 'int':
            v = args[0]
            if isinstance(v, bool):
                return int(v)
            i = as_int(v)
            if i is not None:
                return i
            if isinstance(v, (Label,)) or type(v).__name__ == '_SignTest':
                return 1 if it.truth(v) else 0
            if isinstance(v, Fr):
                return int(v)
            if isinstance(v, Rat):
                f = v.as_fraction()
                if f is not None:
                    return int(f)
                c = _concretize_floordiv(it, v)
                if c is not None:
                    return c
                return _IntOf(v)
            if isinstance(v, _FlagVal):
                return _IntOf(v)
            if isinstance(v, str):
                try:
                    return int(v)
                except ValueError:
                    raise PyRaise('ValueError')
            raise Undecidable('int(%r)' % (v,))
        if short == 'bool':
            v = args[0] if args else False
            if isinstance(v, _FlagVal):
                return v
            if isinstance(v, Rat) and not v.is_const():
                return _FlagVal(v)
            return it.truth(v)
        if short == 'complex':
            if len(args) == 2:
                return _num(args[0]) + _num(args[1]) * Rat.const(1j)
            if len(args) == 1:
                if isinstance(args[0], str):
                    raise Undecidable('complex(str)')
                return _num(args[0])
            return Rat.const(0)
        if short == 'isinstance':
            return _isinstance(it, args[0], args[1])
        if short == 'list':
            return list(it.iterate(args[0])) if args else []
        if short == 'tuple':
            return tuple(it.iterate(args[0])) if args else ()
        if short == 'set' or short == 'frozenset':
            return set(_hashable(x) for x in it.iterate(args[0])) if args else set()
        if short == 'dict':
            d = {}
            if args:
                src = args[0]
                if isinstance(src, dict):
                    d.update(src)
                else:
                    for k, v in it.iterate(src):
                        d[_hashable(k)] = v
            d.update(kwargs)
            return d
        if short == 'enumerate':
            start = as_int(args[1]) if len(args) > 1 else as_int(kwargs.get('start', 0))
            return [(i + start, x) for i, x in enumerate(it.iterate(args[0]))]
        if short == 'zip':
            lists = [it.iterate(a) for a in args]
            return [tuple(t) for t in zip(*lists)]
        if short == 'reversed':
            return Iter(list(reversed(it.iterate(args[0]))))
        if short == 'map':
            lists = [it.iterate(a) for a in args[1:]]
            return Iter([it.call(args[0], list(t), {}) for t in zip(*lists)])
        if short == 'filter':
            f = args[0]
            items = it.iterate(args[1])
            if f is None:
                return Iter([x for x in items if it.truth(x)])
            return Iter([x for x in items if it.truth(it.call(f, [x], {}))])
        if short == 'any':
            for x in it.iterate(args[0]):
                if it.truth(x):
                    return True
            return False
        if short == 'all':
            for x in it.iterate(args[0]):
                if not it.truth(x):
                    return False
            return True
        if short == 'str' or short == 'repr' or short == 'basestring':
            if not args:
                return ''
            v = args[0]
            if isinstance(v, str):
                return v
            r = fmt_value(v, '')
            return mk_str([r])
        if short == 'pow':
            return binop(it, ast.Pow(), args[0], args[1])
        if short == 'hash':
            return _hash(it, args[0])
        if short == 'next':
            return _next(it, args)
        if short == 'iter':
            return Iter(it.iterate(args[0]))
        if short == 'print':
            return None
        if short == 'id':
            return id(args[0])
        if short == 'sorted':
            items = it.iterate(args[0])
            keyf = kwargs.get('key')
            rev = bool(it.truth(kwargs.get('reverse', False)))
            keys = [_keyval(it, keyf, x) for x in items]
            if all(concrete_number(k) is not None for k in keys):
                ks = [concrete_number(k) for k in keys]
            elif all(isinstance(k, str) for k in keys):
                ks = keys
            elif len(keys) <= 4 and all(isinstance(k, (Rat, int, Fr)) for k in keys):
                # a few symbolic numbers: insertion sort whose comparisons are ordinary (forking) sign tests
                order = []
                for i in range(len(items)):
                    pos = len(order)
                    while pos > 0 and it.truth(it.compare_vals('lt', keys[i], keys[order[pos - 1]])):
                        pos -= 1
                    order.insert(pos, i)
                if rev:
                    order.reverse()
                return [items[i] for i in order]
            else:
                raise Undecidable('sorted over symbolic values')
            order = sorted(range(len(items)), key=lambda i: ks[i], reverse=rev)      # stable, like the builtin
            return [items[i] for i in order]
        if short == 'round':
            raise Undecidable('round')
        if short == 'hasattr':
            try:
                it.getattr(args[0], args[1])
                return True
            except PyRaise:
                return False
        if short == 'getattr':
            try:
                return it.getattr(args[0], args[1])
            except PyRaise:
                if len(args) > 2:
                    return args[2]
                raise
        if short in ('ValueError', 'TypeError', 'Exception', 'AssertionError', 'IndexError', 'KeyError',
                     'NotImplementedError', 'RuntimeError', 'AttributeError'):
            return PyRaise(short, '')
        if short == 'type':
            v = args[0]
            if isinstance(v, Obj):
                return ClassRef(v.cls)
            for pyt, nm in ((bool, 'bool'), (int, 'int'), (str, 'str'), (list, 'list'), (tuple, 'tuple'), (dict, 'dict'), (set, 'set'), (type(None), 'NoneType')):
                if isinstance(v, pyt):
                    return ExtRef('builtins.' + nm)
            if isinstance(v, StrT):
                return ExtRef('builtins.str')
            if isinstance(v, Rat) and not v.is_const():
                # a symbolic number stands for a numpy scalar (what this library's arithmetic mostly produces): fast paths reserved
                # for plain Python numbers are not taken, the general code is what gets analysed
                return ExtRef('numpy.float64' if v.is_real() else 'numpy.complex128')
            if isinstance(v, (Rat, float, Fr)):
                return ExtRef('builtins.float' if to_rat(v).is_real() else 'builtins.complex')
            if isinstance(v, PolyT):
                return ExtRef('numpy.poly1d')
            if isinstance(v, Arr):
                return ExtRef('numpy.ndarray')
            return Opaque('type(%r)' % (v,))
        if short == 'property':
            from .values import PropertyObj
            names = ['fget', 'fset', 'fdel', 'doc']
            kw = dict(zip(names, args))
            kw.update(kwargs)
            return PropertyObj(kw.get('fget'), kw.get('fset'), kw.get('fdel'))
        if short == 'vars' and args and isinstance(args[0], Obj):
            return args[0].attrs
        if short == 'object' and not args:
            return Opaque('object()')       # a sentinel: only its identity matters
        raise Undecidable('builtin %s' % short)
    # ---------------- numpy / math / cmath scalar functions
    if short in ('sqrt', 'cos', 'sin', 'tan', 'exp', 'log') and mod in ('numpy', 'math', 'cmath', 'np'):
        return _mapnum(lambda x: apply_fn(short, x), args[0])
    if short == 'hypot' and mod in ('numpy', 'math', 'np') and len(args) == 2:
        x, y = _num(args[0]), _num(args[1])
        return apply_fn('sqrt', x * x + y * y)
    if short in ('arccos', 'acos', 'arcsin', 'asin', 'arctan', 'atan') and mod in ('numpy', 'math', 'cmath'):
        fn = {'arccos': 'acos', 'arcsin': 'asin', 'arctan': 'atan'}.get(short, short)
        return _mapnum(lambda x: apply_fn(fn, x), args[0])
    if short == 'radians':
        return _mapnum(lambda x: x * PI / 180, args[0])
    if short == 'degrees':
        return _mapnum(lambda x: x * 180 / PI, args[0])
    if short == 'pi' or dotted in ('numpy.pi', 'math.pi'):
        return PI
    if short == 'ceil':
        return _mapnum(lambda x: _ceil(x), args[0])
    if short == 'isnan':
        x = _num(args[0])
        if x.is_const():
            return False
        from .poly import _ATOMS
        if all(_ATOMS[a].fn is not None for a in x.atoms()):
            # a closed expression (functions of constants only): decided by evaluating it
            try:
                v = x.evalf({})
                return v != v
            except (ValueError, ZeroDivisionError, OverflowError, KeyError):
                pass
        return Label('isnan(%s)' % x.key(), True, 'isnan(...)')
    if short == 'angle' or short == 'phase':
        return apply_fn('phase', _num(args[0]))
    if short == 'factorial':
        n = as_int(args[0])
        if n is None or n < 0:
            raise Undecidable('factorial of symbolic value')
        import math
        return math.factorial(n)
    if short == 'isclose':
        a, b = args[0], args[1]
        if isinstance(a, Arr) or isinstance(b, Arr):
            raise Undecidable('isclose on arrays')
        d = _num(a) - _num(b)
        if d.is_zero():
            return True
        if d.is_const() and not kwargs:
            c = d.const_value()
            # tolerance semantics are numeric; only exact zero / clearly non-zero constants are decided
            mag2 = c[0] * c[0] + c[1] * c[1]
            if mag2 > Fr(1, 10 ** 6):
                bb = _num(b)
                if bb.is_const():
                    bc = bb.const_value()
                    if mag2 > Fr(1, 10 ** 8) * (1 + bc[0] * bc[0] + bc[1] * bc[1]):
                        return False
        from .interp import _canon_diff, _SignTest
        if d.is_const():
            # concrete operands and concrete tolerances: |a-b| <= atol + rtol*|b| decided in exact arithmetic (well clear of the threshold)
            def tol_(name, default):
                v_ = kwargs.get(name, default)
                if isinstance(v_, (int, float)) and not isinstance(v_, bool):
                    return Fr(str(v_)) if isinstance(v_, float) else Fr(v_)
                f_ = _num(v_).as_fraction() if not isinstance(v_, Fr) else v_
                return f_
            rt, at = tol_('rtol', Fr(1, 10 ** 5)), tol_('atol', Fr(1, 10 ** 8))
            bb = _num(b)
            dc = d.const_value() if not d.has_fn_atoms() else None
            bc = bb.const_value() if bb.is_const() and not bb.has_fn_atoms() else None
            if rt is not None and at is not None and dc is not None and (rt == 0 or bc is not None):
                d2 = dc[0] * dc[0] + dc[1] * dc[1]
                if rt == 0:
                    lo = hi = at
                else:
                    b2 = bc[0] * bc[0] + bc[1] * bc[1]
                    import math
                    # |b| bracketed by rationals
                    scale = 10 ** 12
                    n_ = b2 * scale * scale
                    r_ = math.isqrt(int(n_))
                    lo = at + rt * Fr(r_, scale)
                    hi = at + rt * Fr(r_ + 1, scale)
                margin = Fr(1, 10 ** 6)
                if d2 <= lo * lo * (1 - margin):
                    return True
                if d2 >= hi * hi * (1 + margin):
                    return False
            raise Undecidable('isclose of nearby constants')
        sgn, key, text = _canon_diff(d)
        return _SignTest('close:' + key, '0', 'isclose(%s, 0)' % text, '0+')
    if short == 'allclose' and mod == 'numpy':
        a, b = args[0], args[1]
        fa = [x for r in a.d for x in r] if isinstance(a, Arr) and a.ndim == 2 else (a.d if isinstance(a, Arr) else [a])
        fb = [x for r in b.d for x in r] if isinstance(b, Arr) and b.ndim == 2 else (b.d if isinstance(b, Arr) else [b])
        if len(fa) != len(fb):
            raise Undecidable('allclose with broadcasting')
        for x, y in zip(fa, fb):
            if not it.truth(call_ext(it, 'numpy.isclose', [x, y], kwargs)):
                return False
        return True
    if short == 'clip':
        if isinstance(args[0], (list, tuple, Arr)):
            return _mapnum(lambda x: call_ext(it, dotted, [x] + list(args[1:]), kwargs), args[0])
        x = _num(args[0])
        lo, hi = _num(args[1]), _num(args[2])
        f = x.as_fraction()
        if f is not None and lo.as_fraction() is not None and hi.as_fraction() is not None:
            return Rat.const(min(max(f, lo.as_fraction()), hi.as_fraction()))
        return apply_fn('clip', x)
    if dotted in ('numpy.inf',):
        return Opaque('inf')
    # ---------------- numpy arrays / poly1d
    if short == 'poly1d':
        v = args[0]
        if isinstance(v, PolyT):
            return v
        if isinstance(v, Arr):
            if v.ndim != 1:
                raise Undecidable('poly1d of 2-D array')
            return PolyT(v.d)
        return PolyT([_num(x) for x in it.iterate(v)])
    if short in ('identity', 'eye'):
        n = as_int(args[0])
        return Arr([[Rat.const(1 if i == j else 0) for j in range(n)] for i in range(n)])
    if short == 'array':
        return _to_arr(it, args[0])
    if short == 'roots' and mod == 'numpy' and len(args) == 1:
        cs = args[0].c if isinstance(args[0], PolyT) else [_num(c) for c in it.iterate(args[0])]
        fr = [c.as_fraction() for c in cs]
        if any(f is None for f in fr):
            raise Undecidable('external call numpy.roots')
        while fr and fr[0] == 0:
            fr = fr[1:]
        # roots at zero (trailing zero coefficients)
        zeros = 0
        while len(fr) > 1 and fr[-1] == 0:
            fr = fr[:-1]
            zeros += 1
        if len(fr) <= 1:
            return Arr([Rat.const(0)] * zeros)
        if len(fr) == 2:
            return Arr([Rat.const(-fr[1] / fr[0])] + [Rat.const(0)] * zeros)
        if len(fr) == 3:
            a_, b_, c_ = fr
            disc = b_ * b_ - 4 * a_ * c_
            if disc >= 0:
                sq = apply_fn('sqrt', Rat.const(disc))
            else:
                sq = apply_fn('sqrt', Rat.const(-disc)) * Rat.const(1j)
            return Arr([(Rat.const(-b_) + sq) / Rat.const(2 * a_), (Rat.const(-b_) - sq) / Rat.const(2 * a_)] + [Rat.const(0)] * zeros)
        raise Undecidable('external call numpy.roots (degree %d)' % (len(fr) - 1))
    if short == 'nonzero' and mod == 'numpy' and len(args) == 1:
        v = args[0] if isinstance(args[0], Arr) else _to_arr(it, args[0])
        if v.ndim != 1:
            raise Undecidable('numpy.nonzero of a 2-D array')
        idx = [i for i, x in enumerate(v.d) if it.truth(it.compare_vals('ne', x, 0))]
        return (Arr([Rat.const(i) for i in idx]),)
    if short in ('round', 'around', 'round_') and mod == 'numpy':
        nd = as_int(args[1]) if len(args) > 1 else as_int(kwargs.get('decimals', 0))

        def rnd(x):
            x = _num(x)
            f = x.as_fraction()
            if f is not None and nd is not None and (f * 10 ** nd).denominator == 1:
                return x                      # representable with that many decimals: unchanged
            if f is not None and nd is not None:
                return Rat.const(Fr(round(f * 10 ** nd), 10 ** nd))
            return apply_fn('round', x)       # a symbolic number rounded: no longer that number
        return _mapnum(rnd, args[0])
    if short == 'iterable' and mod == 'numpy':
        v = args[0]
        if isinstance(v, (list, tuple, Arr, PolyT, str, dict, set, StrT)):
            return True
        if isinstance(v, (Rat, int, float, complex, Fr)) or v is None:
            return False
        raise Undecidable('numpy.iterable of %r' % (v,))
    if dotted == 'operator.index':
        n = as_int(args[0])
        if n is None or isinstance(args[0], bool) and False:
            raise Undecidable('operator.index of a symbolic value')
        return n
    if short in ('asarray', 'asanyarray', 'atleast_1d') and mod == 'numpy':
        v = args[0]
        if isinstance(v, PolyT):
            return Arr(list(v.c))           # a poly1d converts to the array of its coefficients (highest power first)
        if isinstance(v, (list, tuple, Arr)):
            return _to_arr(it, v)
        if short == 'atleast_1d':
            return Arr([_num(v)])
        raise Undecidable('numpy.%s of a scalar (0-d array)' % short)
    if short == 'where' and mod == 'numpy' and len(args) == 3:
        c, x, y = args
        if not (isinstance(c, Arr) and c.ndim == 1):
            raise Undecidable('numpy.where on a non 1-D condition')
        def pick(v, i):
            if isinstance(v, Arr):
                if v.ndim != 1 or len(v.d) != len(c.d):
                    raise Undecidable('numpy.where with broadcasting')
                return v.d[i]
            if isinstance(v, (list, tuple)):
                raise Undecidable('numpy.where with sequences')
            return _num(v)
        return Arr([pick(x, i) if it.truth(ci) else pick(y, i) for i, ci in enumerate(c.d)])
    if short == 'matmul':
        return _to_arr(it, args[0]).dot(_to_arr(it, args[1]))
    if short == 'dot' and mod == 'numpy':
        return _to_arr(it, args[0]).dot(_to_arr(it, args[1]))
    if short == 'all' and mod == 'numpy':
        v = args[0]
        flat = ([x for r in v.d for x in r] if v.ndim == 2 else v.d) if isinstance(v, Arr) else it.iterate(v)
        return all(it.truth(x) for x in flat)
    if short == 'equal' and mod == 'numpy':
        return it._arr_compare('eq', args[0], args[1])
    if short == 'real' and mod == 'numpy':
        return _mapnum(lambda x: x.real(), args[0])
    if short == 'imag' and mod == 'numpy':
        return _mapnum(lambda x: x.imag(), args[0])
    if short == 'polyval' and mod == 'numpy':
        cs = args[0].c if isinstance(args[0], PolyT) else [_num(c) for c in it.iterate(args[0])]
        return call_ext.__globals__['PolyT'](cs)(args[1] if isinstance(args[1], (list, tuple)) else _num(args[1]))
    if short == 'interp' and mod == 'numpy':
        # piecewise-linear interpolation that CLAMPS outside the sample range: not a polynomial in x.
        # modelled as an uninterpreted function atom of its flattened arguments
        def flat(v):
            if isinstance(v, (list, tuple)):
                r = Rat.const(0)
                for i, x in enumerate(v):
                    r = r + flat(x) * Rat.sym('__arg%d__' % i)
                return r
            return _num(v)
        rest = flat(list(args[1:]))
        xs = args[0]
        one = lambda x: Rat(Poly.atom(_fn2('interp', _num(x), rest)))
        if isinstance(xs, (list, tuple)):
            return [one(x) for x in xs]
        return one(xs)
    # ---------------- misc library
    if short == 'warn':
        it.events.append(('warn',))
        return None
    if dotted in ('copy.copy', 'copy.deepcopy'):
        v = args[0]
        if isinstance(v, Obj):
            o = Obj(v.cls)
            o.attrs.update(v.attrs if short == 'copy' else {k: (list(x) if isinstance(x, list) else dict(x) if isinstance(x, dict) else x)
                                                             for k, x in v.attrs.items()})
            return o
        if isinstance(v, list):
            return list(v)
        if isinstance(v, dict):
            return dict(v)
        if isinstance(v, (tuple, str, int, Rat)) or v is None:
            return v
        raise Undecidable('copy of %r' % (v,))
    if short == 'errstate' and mod in ('numpy', 'np'):
        return Opaque('numpy.errstate')          # floating-point error modes are outside the model (ring arithmetic): the block just runs
    if mod == 'collections' and short == 'deque':
        return list(it.iterate(args[0])) if args else []
    if short == 'isfinite' and mod in ('numpy', 'np', 'math'):
        from .values import PosInf
        def fin(x):
            if isinstance(x, PosInf):
                return False
            return True          # symbolic numbers stand for finite floats
        if isinstance(args[0], Arr):
            return args[0].map(lambda x: fin(x))
        if isinstance(args[0], (list, tuple)):
            return Arr([fin(x) for x in args[0]])
        return fin(args[0])
    if mod == 're' and short == 'compile':
        if not all(isinstance(a, (str, int)) for a in args):
            raise Undecidable('re.compile of a symbolic pattern')
        pat_args = list(args)
        o = Opaque('re.Pattern')
        o.attrs['pattern'] = args[0]
        from .values import PyFunc
        for meth in ('findall', 'split', 'sub'):
            o.attrs[meth] = PyFunc(lambda it2, a, k, meth=meth: call_ext(it2, 're.' + meth, [pat_args[0]] + list(a), dict(k, **({'flags': pat_args[1]} if len(pat_args) > 1 and meth != 'sub' else {}))), meth)
        import re as _re
        try:
            compiled = _re.compile(*pat_args)
        except _re.error:
            raise PyRaise('re.error')

        def wrap_match(m):
            if m is None:
                return None
            mo = Opaque('re.Match')
            mo.attrs['group'] = PyFunc(lambda it2, a, k: m.group(*a), 'group')
            mo.attrs['groups'] = PyFunc(lambda it2, a, k: m.groups(*a), 'groups')
            mo.attrs['groupdict'] = PyFunc(lambda it2, a, k: m.groupdict(), 'groupdict')
            mo.attrs['start'] = PyFunc(lambda it2, a, k: m.start(*a), 'start')
            mo.attrs['end'] = PyFunc(lambda it2, a, k: m.end(*a), 'end')
            mo.attrs['span'] = PyFunc(lambda it2, a, k: m.span(*a), 'span')
            return mo

        def searcher(meth):
            def run(it2, a, k):
                # concrete pattern on a concrete string (and concrete positions): the standard library's own answer
                if not (a and isinstance(a[0], str)) or not all(as_int(x) is not None for x in a[1:]) or k:
                    raise Undecidable('re.%s on a symbolic string' % meth)
                r_ = getattr(compiled, meth)(a[0], *[as_int(x) for x in a[1:]])
                if meth == 'finditer':
                    return [wrap_match(m) for m in r_]
                return wrap_match(r_)
            return run
        for meth in ('finditer', 'match', 'search', 'fullmatch'):
            o.attrs[meth] = PyFunc(searcher(meth), meth)
        return o
    if mod == 're' and short in ('findall', 'split', 'sub', 'escape'):
        # concrete pattern on a concrete string: the standard library's own answer (the regex engine is trusted, see E6)
        if all(isinstance(a, (str, int)) for a in args) and all(isinstance(v, (str, int)) for v in kwargs.values()):
            import re as _re
            try:
                return getattr(_re, short)(*args, **kwargs)
            except _re.error:
                raise PyRaise('re.error')
        raise Undecidable('re.%s on a symbolic string' % short)
    if short == 'vdot' and mod in ('numpy', 'np'):
        a, b = it.iterate(args[0]), it.iterate(args[1])
        if len(a) != len(b):
            raise PyRaise('ValueError')
        tot = Rat.const(0)
        for x, y in zip(a, b):
            tot = tot + _num(x).conj() * _num(y)       # vdot conjugates its FIRST argument
        return tot
    if short == 'trim_zeros' and mod in ('numpy', 'np'):
        seq = it.iterate(args[0])
        trim = kwargs.get('trim', args[1] if len(args) > 1 else 'fb')
        trim = trim.lower() if isinstance(trim, str) else 'fb'
        isz = lambda x: isinstance(x, (Rat, int, float, Fr)) and _num(x).is_zero()     # exact zeros only (what numpy sees at run time)
        lo, hi = 0, len(seq)
        if 'f' in trim:
            while lo < hi and isz(seq[lo]):
                lo += 1
        if 'b' in trim:
            while hi > lo and isz(seq[hi - 1]):
                hi -= 1
        out = seq[lo:hi]
        return Arr(out) if isinstance(args[0], Arr) else (tuple(out) if isinstance(args[0], tuple) else list(out))
    if mod == 'bisect' and short in ('bisect_left', 'bisect_right', 'bisect'):
        # binary search over a (possibly symbolic) ascending list: the answer is found by ordinary forking comparisons
        seq = it.iterate(args[0])
        x = args[1]
        lo = as_int(args[2]) if len(args) > 2 else as_int(kwargs.get('lo', 0))
        hi = as_int(args[3]) if len(args) > 3 else (as_int(kwargs['hi']) if 'hi' in kwargs else len(seq))
        left = short == 'bisect_left'
        while lo < hi:
            mid_ = (lo + hi) // 2
            go_right = it.truth(it.compare_vals('lt' if left else 'le', seq[mid_], x))
            if go_right:
                lo = mid_ + 1
            else:
                hi = mid_
        return lo
    if short == 'partial' and mod == 'functools':
        from .values import PyFunc
        f0, pre, prekw = args[0], list(args[1:]), dict(kwargs)
        return PyFunc(lambda it2, a, k: it2.call(f0, pre + list(a), dict(prekw, **k)), 'partial')
    if short == 'OrderedDict' and mod == 'collections':
        return call_ext(it, 'builtins.dict', args, kwargs)     # plain dicts keep insertion order
    if short == 'namedtuple':
        from .values import PyFunc
        fields = list(args[1]) if not isinstance(args[1], str) else args[1].replace(',', ' ').split()
        return PyFunc(lambda it2, a, k, fields=fields: Opaque('namedtuple', attrs=dict(list(zip(fields, a)) + list(k.items()))), 'namedtuple')
    if mod == 'operator' and short in ('mul', 'add', 'sub', 'truediv', 'neg', 'pow', 'floordiv', 'mod'):
        ops = {'mul': ast.Mult, 'add': ast.Add, 'sub': ast.Sub, 'truediv': ast.Div, 'pow': ast.Pow, 'floordiv': ast.FloorDiv, 'mod': ast.Mod}
        if short == 'neg':
            return binop(it, ast.Sub(), 0, args[0])
        return binop(it, ops[short](), args[0], args[1])
    if mod == 'operator' and short in ('le', 'ge', 'lt', 'gt', 'eq', 'ne') and len(args) == 2:
        return it.compare_vals(short, args[0], args[1])
    if mod == 'operator' and short in ('is_', 'is_not') and len(args) == 2:
        r_ = it._is(args[0], args[1])
        return r_ if short == 'is_' else not r_
    if mod == 'operator' and short == 'attrgetter' and args and all(isinstance(a, str) for a in args):
        names_ = list(args)
        from .values import PyFunc

        def getter(it2, a, k):
            def one(nm):
                o = a[0]
                for part in nm.split('.'):
                    o = it2.getattr(o, part)
                return o
            return one(names_[0]) if len(names_) == 1 else tuple(one(n) for n in names_)
        return PyFunc(getter, 'attrgetter')
    if short == 'itemgetter':
        k = args[0] if isinstance(args[0], str) else as_int(args[0])
        return _ItemGetter(k)
    if short == 'tee':
        items = it.iterate(args[0])
        return (Iter(items), Iter(items))
    if short == 'from_iterable' and 'chain' in dotted:
        out = []
        for a in it.iterate(args[0]):
            out.extend(it.iterate(a))
        return Iter(out)
    if short == 'chain':
        out = []
        for a in args:
            out.extend(it.iterate(a))
        return Iter(out)
    if short == 'combinations':
        import itertools
        items = it.iterate(args[0])
        return Iter([tuple(c) for c in itertools.combinations(items, as_int(args[1]))])
    if short == 'reduce':
        items = it.iterate(args[1])
        acc = items[0] if len(args) < 3 else args[2]
        for x in (items[1:] if len(args) < 3 else items):
            acc = it.call(args[0], [acc, x], {})
        return acc
    raise Undecidable('external call %s' % dotted)


class _ItemGetter(object):
    def __init__(self, k):
        self.k = k


class _FlagVal(object):
    """bool(x) of a symbolic value: a two-valued flag that remembers its source"""

    def __init__(self, src):
        self.src = src

    def __repr__(self):
        return 'bool(%r)' % (self.src,)


def _closed_value(x):
    """float value of a closed expression (functions of constants only), None otherwise"""
    from .poly import _ATOMS
    try:
        ats = x.atoms()
        if ats and all(_ATOMS[a].fn is not None for a in ats):
            v = x.evalf({})
            if v == v and abs(v.imag) <= 1e-12 * max(1.0, abs(v.real)):
                return v.real
    except (ValueError, ZeroDivisionError, OverflowError, KeyError, TypeError):
        pass
    return None


def _ceil(x):
    f = x.as_fraction()
    if f is not None:
        import math
        return Rat.const(math.ceil(f))
    v = _closed_value(x)
    if v is not None:
        import math
        if abs(v - round(v)) > 1e-9:          # clear of an integer: the ceiling is decided
            return Rat.const(math.ceil(v))
    return apply_fn('ceil', x)


def _to_arr(it, v):
    if isinstance(v, Arr):
        return v
    items = it.iterate(v)
    if items and isinstance(items[0], (list, tuple, Arr)):
        rows = []
        for r in items:
            rr = r.d if isinstance(r, Arr) else list(r)
            rows.append([x if isinstance(x, (bool, Label)) else _num(x) for x in rr])
        return Arr(rows)
    return Arr([x if isinstance(x, bool) else _num(x) for x in items])


def _minmax(it, which, args, kwargs):
    items = it.iterate(args[0]) if len(args) == 1 else list(args)
    key = kwargs.get('key')
    if not items:
        raise PyRaise('ValueError', '%s() arg is an empty sequence' % which)
    best = items[0]
    bk = _keyval(it, key, best)
    for x in items[1:]:
        xk = _keyval(it, key, x)
        r = it.compare_vals('lt' if which == 'min' else 'gt', xk, bk)
        if it.truth(r):
            best, bk = x, xk
    return best


def _concretize_floordiv(it, v):
    """int(a // b) for a symbolic a and a positive constant b: decided by forking on a < b*j for a few j (small quotients only)"""
    from .poly import atom_of
    if not v.is_poly() or len(v.num.t) != 1:
        return None
    (mono, coef), = v.num.t.items()
    if coef != (1, 0) or len(mono) != 1 or mono[0][1] != 1:
        return None
    at = atom_of(mono[0][0])
    if at.fn != 'floordiv':
        return None
    b = at.arg.subst({'__sep__': Rat.const(0)})
    a = at.arg.subst({'__sep__': Rat.const(1)}) - b
    fb = b.as_fraction() if b.is_const() else None
    if fb is None or fb <= 0:
        return None
    nonneg = False
    if a.is_poly() and len(a.num.t) == 1:
        (m2, c2), = a.num.t.items()
        if len(m2) == 1 and c2[1] == 0 and c2[0] > 0 and atom_of(m2[0][0]).fn in ('sqrt', 'abs'):
            nonneg = True           # |x| (normal form sqrt(x^2)) is never negative
    if not nonneg and it.truth(it.compare_zero(a, 'lt')):
        raise Undecidable('floor division of a negative symbolic value')
    for j in range(1, 5):
        if it.truth(it.compare_zero(a - fb * j, 'lt')):
            return j - 1
    raise Undecidable('floor division with a large symbolic quotient')


def _keyval(it, key, x):
    if key is None:
        return x
    if isinstance(key, _ItemGetter):
        return subscript(it, x, key.k)
    return it.call(key, [x], {})


def _hash(it, v):
    if isinstance(v, Obj):
        m = v.cls.methods.get('__hash__')
        if m is None:
            return ('idhash', id(v))
        return it.call_method(v, '__hash__')
    if isinstance(v, tuple):
        return ('hash',) + tuple(_hash(it, x) for x in v)
    if isinstance(v, Rat):
        return ('hash', v.key())
    if isinstance(v, (int, str, bool, Fr)) or v is None:
        return ('hash', v)
    if isinstance(v, _FlagVal):
        return ('hash', repr(v))
    if isinstance(v, list):
        raise PyRaise('TypeError', 'unhashable type: list')
    raise Undecidable('hash of %r' % (v,))


def _isinstance(it, v, spec):
    if isinstance(spec, (tuple, list)):
        return any(_isinstance(it, v, s) for s in spec)
    if isinstance(spec, ClassRef):
        if isinstance(v, Obj):
            return _subclass(it, v.cls, spec.info)
        if isinstance(v, Opaque):
            if v.attrs.get('__isinstance__') is not None:
                return spec.info.name in v.attrs['__isinstance__']
            raise Undecidable('isinstance of %r' % v)
        return False
    if isinstance(spec, ExtRef):
        short = spec.dotted.split('.')[-1]
        if short == 'Element':
            return isinstance(v, Opaque) and v.what.startswith('Element')
        if isinstance(v, Opaque):
            if short in ('str', 'basestring', 'string', 'int', 'float', 'complex', 'list', 'tuple', 'dict', 'poly1d', 'ndarray'):
                return False     # a stub object is never an instance of a builtin value type
            raise Undecidable('isinstance of %r' % v)
        if short in ('str', 'basestring', 'string'):
            return isinstance(v, (str, StrT))
        if short == 'int':
            return isinstance(v, int) and not isinstance(v, bool) or isinstance(v, bool)
        if short == 'float':
            return isinstance(v, (float,)) or (isinstance(v, Rat) and v.is_real() and not isinstance(v, bool))
        if short == 'complex':
            return isinstance(v, Rat) and not v.is_real()
        if short == 'list':
            return isinstance(v, list)
        if short == 'tuple':
            return isinstance(v, tuple)
        if short == 'dict':
            return isinstance(v, dict)
        if short == 'poly1d':
            return isinstance(v, PolyT)
        if short == 'ndarray':
            return isinstance(v, Arr)
        if short == 'Element':
            return isinstance(v, Opaque) and v.what.startswith('Element')
        if short == 'PathLike' or short == 'FilePathLike':
            return False
        raise Undecidable('isinstance against %s' % spec.dotted)
    raise Undecidable('isinstance against %r' % (spec,))


def _subclass(it, cls, target):
    if cls is target or cls.qualname == target.qualname:
        return True
    for b in cls.bases:
        r = it.model.resolve_global(cls.module, b.split('.')[-1])
        if r and r[0] == 'class' and _subclass(it, r[1], target):
            return True
    return False
