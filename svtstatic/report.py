"""Reporting: rule-instance records, known findings, evidence files, exit codes.

exit 0  every instance ok (or listed as a known finding)
exit 1  VIOLATION property=<id> replay=<path>   for a violating instance not listed
exit 2  ANALYSIS-ERROR ...   missing anchor / undecidable construct / vacuity / internal error
"""
import json, os, time, hashlib, sys, traceback

VERIF = os.path.dirname(os.path.dirname(os.path.abspath(__file__)))
KNOWN_FILE = os.path.join(VERIF, 'known_findings.json')
NO_EVIDENCE = False   # scratch runs (self-test, seeds): do not touch /verif/evidence


class AnalysisError(Exception):
    pass


class Instance(object):
    __slots__ = ('rule', 'function', 'construct', 'verdict', 'detail', 'where', 'nontrivial', 'sample')

    def __init__(self, rule, function, construct, verdict, detail, where, nontrivial, sample):
        self.rule, self.function, self.construct = rule, function, construct
        self.verdict, self.detail, self.where = verdict, detail, where
        self.nontrivial, self.sample = nontrivial, sample

    def key(self):
        return (self.rule, self.function, self.construct)

    def as_dict(self):
        d = {'rule': self.rule, 'function': self.function, 'construct': self.construct,
             'verdict': self.verdict, 'where': self.where}
        if self.detail:
            d['detail'] = self.detail
        if self.sample is not None:
            d['case'] = self.sample
        return d


class Context(object):
    def __init__(self, prop, model, tier, repo, level='other'):
        self.prop = prop
        self.model = model
        self.tier = tier
        self.repo = repo
        self.level = level
        self.instances = []
        self.assumptions = []
        self.minimums = {}
        self.rule_text = {}
        self.extra = {}
        self.trusted_base = []
        self.exhaustive = None
        self.t0 = time.time()

    # -- rule bookkeeping
    def rule(self, rid, text, minimum=1):
        self.rule_text[rid] = text
        self.minimums[rid] = minimum

    def assume(self, text):
        if text not in self.assumptions:
            self.assumptions.append(text)

    def record(self, rule, function, construct, ok, detail='', where='', nontrivial=True, sample=None):
        """ok: True | False | None (undecided)"""
        verdict = 'ok' if ok is True else ('violation' if ok is False else 'undecided')
        # instances are keyed by the name the rule addresses the function by, not by where a refactoring has moved its definition
        function = getattr(self.model, 'alias_back', {}).get(function, function)
        if rule not in self.rule_text:
            raise AnalysisError('rule %s used without declaration' % rule)
        self.instances.append(Instance(rule, function, construct, verdict, detail, where, nontrivial, sample))
        return ok

    def ok(self, rule, function, construct, **kw):
        return self.record(rule, function, construct, True, **kw)

    def violation(self, rule, function, construct, detail='', **kw):
        return self.record(rule, function, construct, False, detail=detail, **kw)

    def undecided(self, rule, function, construct, detail='', **kw):
        return self.record(rule, function, construct, None, detail=detail, **kw)


def load_known():
    if not os.path.exists(KNOWN_FILE):
        return []
    with open(KNOWN_FILE) as f:
        return json.load(f)['findings']


def finish(ctx, only=None):
    """print verdict lines, write evidence, return the exit code"""
    known = [k for k in load_known() if k.get('status') == 'known' and k.get('property') == ctx.prop]
    known_keys = {(k['rule'], k['function'], k['construct']): k for k in known}
    insts = ctx.instances
    if only is not None:
        insts = [i for i in insts if list(i.key()) == list(only)]
    viol = [i for i in insts if i.verdict == 'violation']
    und = [i for i in insts if i.verdict == 'undecided']
    new_viol = [i for i in viol if i.key() not in known_keys]
    kn_viol = [i for i in viol if i.key() in known_keys]
    errors = []
    if only is None:
        counts = {}
        for i in insts:
            counts[i.rule] = counts.get(i.rule, 0) + 1
        for rid, mn in ctx.minimums.items():
            if counts.get(rid, 0) < mn:
                errors.append('vacuity: rule %s matched %d instance(s), expected at least %d'
                              % (rid, counts.get(rid, 0), mn))
    for i in und:
        errors.append('undecided: %s %s %s: %s' % (i.rule, i.function, i.construct, i.detail))
    errors.extend(getattr(ctx, 'selftest_errors', []))

    vdir = os.path.join(VERIF, 'evidence', 'violations')
    if NO_EVIDENCE:
        import tempfile
        vdir = os.path.join(tempfile.gettempdir(), 'svtstatic-violations')
    code = 0
    seen = set()
    for i in kn_viol:
        if i.key() in seen:
            continue
        seen.add(i.key())
        print('KNOWN-FINDING: property=%s %s %s [%s]: %s' % (
            ctx.prop, i.rule, i.function, i.construct, known_keys[i.key()].get('what_fails', i.detail)))
    for i in new_viol:
        if i.key() in seen:
            continue
        seen.add(i.key())
        os.makedirs(vdir, exist_ok=True)
        dg = hashlib.sha256(repr(i.key()).encode()).hexdigest()[:10]
        path = os.path.join(vdir, '%s-%s.json' % (ctx.prop, dg))
        with open(path, 'w') as f:
            json.dump({'property': ctx.prop, 'key': list(i.key()), 'instance': i.as_dict(),
                       'repo': ctx.repo}, f, indent=1, default=str)
        print('%s: %s in %s [%s]: %s' % (i.where, i.rule, i.function, i.construct, i.detail))
        print('VIOLATION property=%s replay=%s' % (ctx.prop, path))
        code = 1
    for e in errors:
        print('ANALYSIS-ERROR property=%s %s' % (ctx.prop, e))
    if errors and code == 0:
        code = 2
    if only is None and not NO_EVIDENCE:
        write_evidence(ctx, insts, len(new_viol), len(kn_viol), errors)
    n_ok = sum(1 for i in insts if i.verdict == 'ok')
    print('%s %s: %d rule instances (%d ok, %d known finding(s), %d new violation(s), %d undecided) in %.2fs -> exit %d'
          % (ctx.prop, ctx.tier, len(insts), n_ok, len(kn_viol), len(new_viol), len(und), time.time() - ctx.t0, code))
    return code


def write_evidence(ctx, insts, n_new, n_known, errors):
    per_rule = {}
    for i in insts:
        r = per_rule.setdefault(i.rule, {'ok': 0, 'violation': 0, 'undecided': 0})
        r[i.verdict] += 1
    expl = []
    for rid in sorted(ctx.rule_text):
        c = per_rule.get(rid, {'ok': 0, 'violation': 0, 'undecided': 0})
        expl.append('%s: %s [instances ok=%d violation=%d undecided=%d, min=%d]' % (
            rid, ctx.rule_text[rid], c['ok'], c['violation'], c['undecided'], ctx.minimums[rid]))
    distinct = len({i.key() for i in insts if i.nontrivial})
    samples = []
    seen_rules = {}
    for i in insts:
        if seen_rules.get(i.rule, 0) < 3:
            seen_rules[i.rule] = seen_rules.get(i.rule, 0) + 1
            samples.append(i.as_dict())
    cov = {
        'explanation': 'Static analysis of the current source of %s (model digest %s; %s). Rules and their instance counts on this run:\n%s'
                       % (ctx.repo, ctx.model.digest(), json.dumps(ctx.model.stats()), '\n'.join(expl)),
        'evaluations': len(insts),
        'distinct_nontrivial': distinct,
        'rule': 'one case = one rule instance (rule id, function, normalised construct) found in the parsed source; '
                'non-trivial = the verdict needed a non-empty comparison (identity with >=1 atom, CFG path of >=2 nodes, table row)',
        'samples': samples[:40],
        'per_rule': per_rule,
        'known_findings_matched': n_known,
        'analysis_errors': errors,
    }
    if ctx.exhaustive is not None:
        cov['exhaustive'] = ctx.exhaustive
    if ctx.level == 'proof':
        obligations = len(insts)
        cov['obligations'] = obligations
        cov['discharged'] = sum(1 for i in insts if i.verdict == 'ok')
        cov['checker_cmd'] = '/venv/bin/python check %s%s' % (ctx.prop, ' --thorough' if ctx.tier == 'thorough' else '')
        cov['trusted_base'] = ctx.trusted_base or ['CPython ast', 'svtstatic.poly (polynomial normal form over Q(i))',
                                                   'svtstatic.interp (syntax-directed translation of loop-free code)']
    cov.update(ctx.extra)
    ev = {
        'property_id': ctx.prop,
        'tier': ctx.tier,
        'seed': int(os.environ.get('VERIF_SEED', '0') or 0),
        'level': ctx.level,
        'coverage': cov,
        'assumptions': ctx.assumptions,
        'wall_s': round(time.time() - ctx.t0, 3),
        'violations': n_new,
    }
    os.makedirs(os.path.join(VERIF, 'evidence'), exist_ok=True)
    with open(os.path.join(VERIF, 'evidence', '%s.json' % ctx.prop), 'w') as f:
        json.dump(ev, f, indent=1, default=str)
