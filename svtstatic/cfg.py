"""E2: statement-level control-flow graph for one function + path queries and guard collection.

Nodes are ast statements (If/While/For nodes stand for the evaluation of their test/iterator),
plus ENTRY, EXIT (normal return / fall off the end) and RAISE (exceptional exit).
Edges carry a label: None, 'true', 'false', 'exc'.
"""
import ast

ENTRY, EXIT, RAISE = 'ENTRY', 'EXIT', 'RAISE'


class CFG(object):
    def __init__(self, func_node):
        self.func = func_node
        self.succ = {ENTRY: [], EXIT: [], RAISE: []}
        self.pred = {ENTRY: [], EXIT: [], RAISE: []}
        self.stmts = []
        self._build()

    # ------------------------------------------------------------------ construction
    def _node(self, st):
        if st not in self.succ:
            self.succ[st] = []
            self.pred[st] = []
            self.stmts.append(st)
        return st

    def _edge(self, a, b, label=None):
        self._node(a) if a not in self.succ else None
        self._node(b) if b not in self.succ else None
        if (b, label) not in self.succ[a]:
            self.succ[a].append((b, label))
            self.pred[b].append((a, label))

    def _build(self):
        # frontier: list of (node, label) whose successor is the next statement
        out = self._block(self.func.body, [(ENTRY, None)], loop=None, handlers=[])
        for n, l in out:
            self._edge(n, EXIT, l)

    def _block(self, body, frontier, loop, handlers):
        for st in body:
            if isinstance(st, (ast.FunctionDef, ast.ClassDef)):
                # a nested definition is a plain binding statement
                self._node(st)
                for n, l in frontier:
                    self._edge(n, st, l)
                frontier = [(st, None)]
                continue
            frontier = self._stmt(st, frontier, loop, handlers)
        return frontier

    def _may_raise(self, st, handlers):
        # inside a try body every statement may transfer to each handler
        for h in handlers:
            self._edge(st, h, 'exc')

    def _stmt(self, st, frontier, loop, handlers):
        self._node(st)
        for n, l in frontier:
            self._edge(n, st, l)
        self._may_raise(st, handlers)
        if isinstance(st, ast.Return):
            self._edge(st, EXIT)
            return []
        if isinstance(st, ast.Raise):
            if handlers:
                return []
            self._edge(st, RAISE)
            return []
        if isinstance(st, ast.Assert):
            if not handlers:
                self._edge(st, RAISE, 'false')
            return [(st, 'true')]
        if isinstance(st, ast.If):
            t = self._block(st.body, [(st, 'true')], loop, handlers)
            f = self._block(st.orelse, [(st, 'false')], loop, handlers) if st.orelse else [(st, 'false')]
            return t + f
        if isinstance(st, (ast.While, ast.For)):
            ctx = {'head': st, 'breaks': []}
            body_out = self._block(st.body, [(st, 'true')], ctx, handlers)
            for n, l in body_out:
                self._edge(n, st, l)
            exits = [(st, 'false')]
            if st.orelse:
                exits = self._block(st.orelse, exits, loop, handlers)
            return exits + ctx['breaks']
        if isinstance(st, ast.Break):
            loop['breaks'].append((st, None))
            return []
        if isinstance(st, ast.Continue):
            self._edge(st, loop['head'])
            return []
        if isinstance(st, ast.Try):
            hnodes = []
            for h in st.handlers:
                self._node(h)
                hnodes.append(h)
            body_out = self._block(st.body, [(st, None)], loop, handlers + hnodes)
            if st.orelse:
                body_out = self._block(st.orelse, body_out, loop, handlers)
            outs = list(body_out)
            for h in st.handlers:
                outs += self._block(h.body, [(h, None)], loop, handlers)
            if st.finalbody:
                outs = self._block(st.finalbody, outs, loop, handlers)
            return outs
        if isinstance(st, ast.With):
            return self._block(st.body, [(st, None)], loop, handlers)
        return [(st, None)]

    # ------------------------------------------------------------------ queries
    def reachable(self, start, avoid=(), follow=None):
        """nodes reachable from `start` (exclusive) without passing through nodes in `avoid`"""
        avoid = set(avoid)
        seen = set()
        todo = [start]
        while todo:
            n = todo.pop()
            for m, l in self.succ.get(n, []):
                if follow is not None and not follow(n, m, l):
                    continue
                if m in seen or m in avoid:
                    continue
                seen.add(m)
                todo.append(m)
        return seen

    def must_pass(self, start, target, through):
        """every path start ->* target passes a node of `through` (vacuously true if unreachable)"""
        return target not in self.reachable(start, avoid=through)

    def dominated_by(self, node, doms):
        """every path ENTRY ->* node passes a node in doms"""
        if node in doms:
            return True
        return node not in self.reachable(ENTRY, avoid=doms)

    def path(self, start, target, avoid=()):
        """one witness path (list of nodes) start -> target avoiding `avoid`, or None"""
        avoid = set(avoid)
        prev = {start: None}
        todo = [start]
        while todo:
            n = todo.pop(0)
            if n == target and n is not start:
                break
            for m, l in self.succ.get(n, []):
                if m in prev or m in avoid:
                    continue
                prev[m] = n
                todo.append(m)
        if target not in prev:
            return None
        p = []
        n = target
        while n is not None:
            p.append(n)
            n = prev[n]
        return list(reversed(p))


def describe(n):
    if isinstance(n, str):
        return n
    if isinstance(n, ast.ExceptHandler):
        return 'L%d except' % n.lineno
    s = ast.unparse(n).split('\n')[0]
    return 'L%d %s' % (n.lineno, s[:70])


# ---------------------------------------------------------------------- structural guards
def enclosing_stmt(node):
    while node is not None and not isinstance(node, ast.stmt):
        node = getattr(node, '_parent', None)
    return node


def guards_of(stmt, func_node):
    """Conditions known to hold when `stmt` executes, derived from block structure:
    list of (test_expr, polarity).  Covers nesting in if/elif/else/while bodies and
    early exits (`if c: return/raise/continue/break`) earlier in an enclosing block."""
    res = []
    node = stmt
    while node is not func_node and node is not None:
        parent = getattr(node, '_parent', None)
        if parent is None:
            break
        for field in ('body', 'orelse', 'finalbody'):
            blk = getattr(parent, field, None)
            if isinstance(blk, list) and node in blk:
                idx = blk.index(node)
                for prev in blk[:idx]:
                    if isinstance(prev, ast.If) and _always_exits(prev.body) and not prev.orelse:
                        res.append((prev.test, False))
                    elif isinstance(prev, ast.If) and prev.orelse and _always_exits(prev.orelse) and not _always_exits(prev.body):
                        res.append((prev.test, True))
                    elif isinstance(prev, ast.Assert):
                        res.append((prev.test, True))
                if isinstance(parent, (ast.If, ast.While)):
                    if field == 'body':
                        res.append((parent.test, True))
                    elif field == 'orelse' and isinstance(parent, ast.If):
                        res.append((parent.test, False))
        node = parent
    return res


def _always_exits(body):
    if not body:
        return False
    last = body[-1]
    if isinstance(last, (ast.Return, ast.Raise, ast.Continue, ast.Break)):
        return True
    if isinstance(last, ast.If) and last.orelse:
        return _always_exits(last.body) and _always_exits(last.orelse)
    return False


def walk_no_nested(node):
    """ast.walk that does not descend into nested function/class definitions or lambdas"""
    todo = [node]
    first = True
    while todo:
        n = todo.pop()
        if not first and isinstance(n, (ast.FunctionDef, ast.ClassDef, ast.Lambda)):
            continue
        first = False
        yield n
        todo.extend(ast.iter_child_nodes(n))
