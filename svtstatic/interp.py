"""E3 interpreter: syntax-directed translation of (mostly loop-free) package code into the
algebra of poly.py.  Symbolic tests become sign/zero labels; all label assignments are explored
by deterministic re-execution (no solver, no path constraints beyond a sign domain per
canonical expression).  Anything outside the fragment raises Undecidable."""
import ast
from fractions import Fraction as Fr
from .poly import Rat, Poly, Undecidable, apply_fn
from .values import (PyRaise, Obj, Opaque, ClassRef, ExtRef, Closure, BoundBuiltin, Label, StrT, Hole,
                     NumTok, PolyT, Arr, to_rat, as_int, concrete_number)
from . import builtins_model as bm

MAX_PATHS = 4096
MAX_DEPTH = 40
MAX_LOOP = 400


class _Return(Exception):
    def __init__(self, v):
        self.v = v


class _Break(Exception):
    pass


class _Continue(Exception):
    pass


class Iter(object):
    def __init__(self, items):
        self.items = list(items)
        self.pos = 0

    def rest(self):
        r = self.items[self.pos:]
        self.pos = len(self.items)
        return r


class Env(object):
    def __init__(self, parent=None, module=None):
        self.vars = {}
        self.parent = parent
        self.module = module if module is not None else (parent.module if parent else None)

    def lookup(self, name):
        e = self
        while e is not None:
            if name in e.vars:
                return e.vars[name]
            e = e.parent
        raise KeyError(name)

    def has(self, name):
        e = self
        while e is not None:
            if name in e.vars:
                return True
            e = e.parent
        return False


# ----------------------------------------------------------------------------- path exploration
class Trace(object):
    def __init__(self, script):
        self.script = list(script)
        self.pos = 0
        self.decisions = []      # (text, outcome)
        self.signs = {}          # canonical key -> frozenset of possible signs {'-','0','+'}
        self.sign_exprs = {}     # canonical key -> the (sign-normalised) Rat it stands for
        self.subst = {}          # atom id -> Rat, from the equalities decided true on this path
        self.no_fork = False     # 'collect everything' mode: undecided tests are taken as true, no alternatives explored
        self.new_forks = []      # indices in decisions that were defaulted (not scripted)
        self.labels = {}         # opaque label key -> bool

    def _choose(self, text):
        if self.no_fork:
            self.decisions.append((text, True))
            self.nofork_defaults = getattr(self, 'nofork_defaults', 0) + 1
            return True
        if self.pos < len(self.script):
            out = self.script[self.pos]
        else:
            out = True
            self.new_forks.append(len(self.decisions))
        self.pos += 1
        self.decisions.append((text, out))
        return out

    def decide_sign(self, key, accept, text, domain='-0+'):
        """is sign(expr key) in `accept`?  refine the sign set accordingly"""
        cur = self.signs.get(key, frozenset(domain))
        acc = frozenset(accept) & cur
        rej = cur - acc
        if not rej:
            return True
        if not acc:
            return False
        out = self._choose(text)
        self.signs[key] = acc if out else rej
        if self.signs[key] == frozenset('0') and not key.startswith('close:'):
            self._learn_zero(key)
        return out

    # ---- linear equality reasoning: facts `expr == 0` become a substitution applied to later (and earlier) tests
    def reduce(self, d):
        if self.subst and d.is_poly():
            if any(a in self.subst for a in d.num.atoms()):
                return d.subst(self.subst)
        return d

    def _learn_zero(self, key):
        expr = self.sign_exprs.get(key)
        if expr is None or not expr.is_poly():
            return
        from .poly import atom_of, Poly, Rat as _Rat
        for part in (expr.real(), expr.imag()):
            part = self.reduce(part)
            if part.is_zero() or not part.is_poly():
                continue
            p = part.num
            pick = None
            for m, c in sorted(p.t.items()):
                if len(m) == 1 and m[0][1] == 1 and atom_of(m[0][0]).fn is None and \
                        sum(1 for mm in p.t if any(a == m[0][0] for a, _ in mm)) == 1:
                    pick = (m[0][0], c)
            if pick is None:
                continue
            a, c = pick
            rest = p - Poly({((a, 1),): c})
            val = _Rat(-rest) / _Rat(Poly.const(c))
            self.subst = {k2: v.subst({a: val}) for k2, v in self.subst.items()}
            self.subst[a] = val
        # re-key what is already known under the new substitution; contradictory knowledge makes the path infeasible
        if not self.subst:
            return
        for k in list(self.signs):
            if k.startswith('close:') or k not in self.sign_exprs:
                continue
            e = self.sign_exprs[k]
            e2 = self.reduce(e)
            if e2 is e:
                continue
            sg = self.signs[k]
            if e2.is_zero():
                if '0' not in sg:
                    raise Infeasible()
                continue
            if e2.is_const():
                c = e2.const_value()
                real = c[1] == 0
                s = ('+' if c[0] > 0 else '-') if real else None
                if (s is not None and s not in sg) or (s is None and sg == frozenset('0')):
                    raise Infeasible()
                continue
            sgn, k2, _ = _canon_diff(e2)
            if sgn < 0:
                sg = frozenset({'-': '+', '+': '-', '0': '0'}[x] for x in sg)
            if k2 in self.signs:
                both = self.signs[k2] & sg
                if not both:
                    raise Infeasible()
                self.signs[k2] = both
            else:
                self.signs[k2] = sg
                self.sign_exprs[k2] = e2 if sgn > 0 else -e2

    def decide_label(self, key, text=None):
        if key in self.labels:
            return self.labels[key]
        out = self._choose(text or key)
        self.labels[key] = out
        return out


class Infeasible(Exception):
    """the decisions taken on this path contradict each other: the path is dropped"""


class PathResult(object):
    def __init__(self, decisions, value=None, raised=None, interp=None):
        self.decisions = decisions
        self.value = value
        self.raised = raised     # PyRaise or None
        self.interp = interp

    def cond_text(self):
        return ' & '.join(('' if o else 'not ') + '(' + t + ')' for t, o in self.decisions) or 'true'


def explore(model, thunk, opts=None, max_paths=MAX_PATHS):
    """thunk(interp) -> value.  Runs it once per feasible label assignment."""
    results = []
    stack = [[]]
    import time as _time
    limit = (opts or {}).get('time_limit')
    deadline = (_time.time() + limit) if limit else None
    from . import poly as _poly
    outer_deadline = _poly.DEADLINE
    _poly.DEADLINE = deadline if outer_deadline is None or (deadline is not None and deadline < outer_deadline) else outer_deadline
    try:
        return _explore(model, thunk, opts, max_paths, deadline)
    finally:
        _poly.DEADLINE = outer_deadline


def _explore(model, thunk, opts, max_paths, deadline):
    results = []
    stack = [[]]
    while stack:
        script = stack.pop()
        tr = Trace(script)
        tr.no_fork = bool((opts or {}).get('no_fork'))
        it = Interp(model, tr, opts or {})
        it.deadline = deadline
        res = None
        try:
            v = thunk(it)
            res = PathResult(tr.decisions, value=v, interp=it)
        except PyRaise as e:
            res = PathResult(tr.decisions, raised=e, interp=it)
        except Infeasible:
            pass
        if res is not None:
            results.append(res)
        for idx in tr.new_forks:
            alt = [o for _, o in tr.decisions[:idx]] + [False]
            stack.append(alt)
        if len(results) + len(stack) > max_paths:
            raise Undecidable('more than %d label assignments' % max_paths)
    return results


# ----------------------------------------------------------------------------- the interpreter
class Interp(object):
    def __init__(self, model, trace, opts):
        self.model = model
        self.trace = trace
        self.opts = opts
        self.depth = 0
        self.havoc = set(opts.get('havoc', ()))
        # names given by the checks are resolved: the function may be defined elsewhere (pulled up / moved and imported back)
        for q in list(self.havoc):
            try:
                self.havoc.add(model.func(q).qualname)
            except Exception:
                pass
        self.call_hooks = opts.get('call_hooks', {})       # qualname -> f(interp, args, kwargs)
        self.attr_hook = opts.get('attr_hook')             # f(interp, obj, name) -> value | NotImplemented
        self.ext_hooks = opts.get('ext_hooks', {})         # dotted -> f(interp, args, kwargs)
        self.fresh_counter = 0
        self.func_stack = []
        self.called = set()                                 # qualnames of every package function entered (not hooked) on this run
        self._fp_cache = opts.setdefault('__fp_cache__', {})
        self.abstract = dict(opts.get('abstract', {}))      # function qualname -> set of local names to abstract
        for q in list(self.abstract):
            try:
                self.abstract.setdefault(model.func(q).qualname, self.abstract[q])
            except Exception:
                pass
        self.definitions = []                               # [(qualname, local, occurrence, atom Rat, defining value)]
        self.events = []
        self._const_cache = {}
        self.global_overrides = opts.get('globals', {})    # (module name, global name) -> value
        # facts the caller assumes about symbols: [(Rat expr, signs)] / [('close', Rat expr, '0' | '+')]
        for item in opts.get('presign', ()):
            if item[0] == 'close':
                sgn, key, _ = _canon_diff(item[1])
                trace.signs['close:' + key] = frozenset(item[2])
            else:
                expr, signs = item
                sgn, key, _ = _canon_diff(expr)
                if sgn < 0:
                    signs = ''.join({'-': '+', '+': '-', '0': '0'}[c] for c in signs)
                trace.signs[key] = frozenset(signs)
                trace.sign_exprs[key] = expr if sgn > 0 else -expr

    # ------------------------------------------------------------------ helpers
    def fresh(self, hint):
        self.fresh_counter += 1
        return Rat.sym('%s#%d' % (hint, self.fresh_counter))

    def closure_of(self, qual):
        fi = self.model.func(qual)
        return Closure(fi, fi.node, None, fi.module, cls=fi.cls)

    def class_ref(self, qual):
        return ClassRef(self.model.cls(qual))

    def _class_attr_value(self, cls, name):
        """a class attribute is evaluated ONCE, when the class body runs: every later access sees that same object (a sentinel
        `MISSING = object()`, a shared list)"""
        cache = self.__dict__.setdefault('_class_attr_cache', {})
        key = (id(cls), name)
        if key not in cache:
            cache[key] = self.eval(cls.class_attrs[name], self._class_env(cls))
        return cache[key]

    def new_obj(self, cls_qual, **attrs):
        o = Obj(self.model.cls(cls_qual))
        o.attrs.update(attrs)
        o.partial = True       # built without running __init__: what the constructor would have stored is unknown, not absent
        return o

    def construct(self, cls_qual, *args, **kwargs):
        return self.call(self.class_ref(cls_qual), list(args), kwargs)

    def call_method(self, obj, name, *args, **kwargs):
        return self.call(self.getattr(obj, name), list(args), kwargs)

    # ------------------------------------------------------------------ truth / comparison
    def truth(self, v):
        if isinstance(v, Label):
            out = self.trace.decide_label(v.key, v.text)
            return out if v.positive else not out
        if isinstance(v, _SignTest):
            return self.trace.decide_sign(v.key, v.accept, v.text, v.domain)
        if isinstance(v, Rat):
            if v.is_const():
                c = v.const_value()
                return not (c[0] == 0 and c[1] == 0)
            return self.truth(self.compare_zero(v, 'ne'))
        if isinstance(v, NumTok):
            raise Undecidable('truth of a token')
        if isinstance(v, (Obj,)):
            m = v.cls.methods.get('__len__')
            if m is not None:
                n = self.call(Closure(m, m.node, None, m.module, v, v.cls), [], {})
                return self.truth(n)
            if '__base_list__' in v.attrs:
                return bool(v.attrs['__base_list__'])
            return True
        if isinstance(v, (PolyT, Arr)):
            raise Undecidable('truth of array/poly')
        if isinstance(v, Opaque):
            raise Undecidable('truth of %r' % v)
        if isinstance(v, StrT):
            if v.is_plain():
                return bool(v.plain())
            return True
        if isinstance(v, Iter):
            return True
        return bool(v)

    def compare_zero(self, d, op):
        """d: Rat; op in eq ne lt le gt ge (d OP 0).  returns bool or _SignTest"""
        d = self.trace.reduce(d)
        if d.is_zero():
            return op in ('eq', 'le', 'ge')
        if d.is_const():
            c = d.const_value()
            if c[1] != 0:
                if op == 'eq':
                    return False
                if op == 'ne':
                    return True
                raise PyRaise('TypeError', 'ordering of complex numbers')
            x = c[0]
            return {'eq': x == 0, 'ne': x != 0, 'lt': x < 0, 'le': x <= 0, 'gt': x > 0, 'ge': x >= 0}[op]
        ks = _known_sign(d)
        if ks is None and d.is_poly() and d.is_real():
            # symbolic quantity against an astronomically large constant (overflow guards such as |x| < 1e150): symbolic numbers
            # stand for values of ordinary magnitude (the same assumption that makes arithmetic ring arithmetic)
            c0 = d.num.t.get((), None)
            if c0 is not None and c0[1] == 0 and abs(c0[0]) >= 10 ** 100 * abs(d.den.t.get((), (1, 0))[0] if d.den.t.get((), None) else 1) and len(d.num.t) > 1 \
                    and all(abs(cf[0]) < 10 ** 50 and abs(cf[1]) < 10 ** 50 for mono, cf in d.num.t.items() if mono != ()):
                ks = 1 if c0[0] > 0 else -1
        if ks is not None:
            return {'eq': False, 'ne': True, 'lt': ks < 0, 'le': ks < 0, 'gt': ks > 0, 'ge': ks > 0}[op]
        if op in ('eq', 'ne') and d.is_poly() and not d.is_real():
            if _known_sign(d.real()) is not None or _known_sign(d.imag()) is not None:
                return op == 'ne'
        sgn, key, text = _canon_diff(d)
        if key not in self.trace.sign_exprs:
            self.trace.sign_exprs[key] = d if sgn > 0 else -d
        if sgn < 0:
            op = {'lt': 'gt', 'le': 'ge', 'gt': 'lt', 'ge': 'le'}.get(op, op)
        accept = {'eq': '0', 'ne': '-+', 'lt': '-', 'le': '-0', 'gt': '+', 'ge': '0+'}[op]
        sym = {'eq': '==', 'ne': '!=', 'lt': '<', 'le': '<=', 'gt': '>', 'ge': '>='}[op]
        return _SignTest(key, accept, '%s %s 0' % (text, sym))

    def compare(self, op, a, b):
        """op: ast cmpop instance"""
        if isinstance(op, (ast.Is, ast.IsNot)):
            r = self._is(a, b)
            return r if isinstance(op, ast.Is) else not r
        if isinstance(op, (ast.In, ast.NotIn)):
            r = self._contains(b, a)
            if isinstance(r, bool):
                return r if isinstance(op, ast.In) else not r
            return r if isinstance(op, ast.In) else _negate(r)
        name = {ast.Eq: 'eq', ast.NotEq: 'ne', ast.Lt: 'lt', ast.LtE: 'le', ast.Gt: 'gt', ast.GtE: 'ge'}[type(op)]
        return self.compare_vals(name, a, b)

    def compare_vals(self, name, a, b):
        if isinstance(a, NumTok):
            a = a.value
        if isinstance(b, NumTok):
            b = b.value
        from .values import PosInf
        if isinstance(a, PosInf) or isinstance(b, PosInf):
            if isinstance(a, PosInf) and isinstance(b, PosInf):
                return name in ('eq', 'le', 'ge')
            if not (_numlike(a) or _numlike(b)):
                raise Undecidable('comparison of inf with %r / %r' % (a, b))
            # finite OP inf
            if isinstance(b, PosInf):
                return name in ('lt', 'le', 'ne')
            return name in ('gt', 'ge', 'ne')
        if isinstance(a, Rat) or isinstance(b, Rat):
            if _numlike(a) and _numlike(b):
                ra, rb = to_rat(a), to_rat(b)
                # a symbolic quantity against an astronomically large constant (overflow guards such as -1e150 < x < 1e150): symbolic
                # numbers stand for values of ordinary magnitude (the assumption that also makes arithmetic ring arithmetic)
                for x_, c_, flip in ((ra, rb, False), (rb, ra, True)):
                    if c_.is_const() and not x_.is_const() and x_.is_real():
                        cv = c_.const_value()
                        if cv[1] == 0 and abs(cv[0]) >= 10 ** 100:
                            x_less = cv[0] > 0                      # x < c  iff  c is the huge positive one
                            lt = x_less if not flip else not x_less  # truth of  a < b
                            return {'eq': False, 'ne': True, 'lt': lt, 'le': lt, 'gt': not lt, 'ge': not lt}[name]
                return self.compare_zero(ra - rb, name)
            if name == 'eq':
                return False
            if name == 'ne':
                return True
            raise PyRaise('TypeError', 'unorderable')
        if isinstance(a, Obj) or isinstance(b, Obj):
            return self._obj_compare(name, a, b)
        if isinstance(a, (list, tuple)) and isinstance(b, (list, tuple)) and type(a) is type(b) and name in ('eq', 'ne'):
            if len(a) != len(b):
                return name == 'ne'
            # conjunction of element equalities, decided path-sensitively
            for x, y in zip(a, b):
                if not self.truth(self.compare_vals('eq', x, y)):
                    return name == 'ne'
            return name == 'eq'
        if isinstance(a, (PolyT,)) or isinstance(b, (PolyT,)):
            if isinstance(a, PolyT) and isinstance(b, PolyT) and name in ('eq', 'ne'):
                r = a.equals(b)
                return r if name == 'eq' else not r
            raise Undecidable('comparison of poly1d')
        if isinstance(a, Arr) or isinstance(b, Arr):
            return self._arr_compare(name, a, b)
        if isinstance(a, StrT) or isinstance(b, StrT):
            if isinstance(a, StrT) and a.is_plain():
                a = a.plain()
            if isinstance(b, StrT) and b.is_plain():
                b = b.plain()
            if isinstance(a, StrT) or isinstance(b, StrT):
                raise Undecidable('comparison of string templates')
        if isinstance(a, (Opaque, Closure, ClassRef, ExtRef)) or isinstance(b, (Opaque, Closure, ClassRef, ExtRef)):
            if name in ('eq', 'ne') and (a is None or b is None):
                return name == 'ne'
            if name in ('eq', 'ne') and isinstance(a, (ClassRef, ExtRef)) and isinstance(b, (ClassRef, ExtRef)):
                return self._is(a, b) == (name == 'eq')        # types / library objects compare by identity
            raise Undecidable('comparison with %r / %r' % (a, b))
        try:
            if name == 'eq':
                return a == b
            if name == 'ne':
                return a != b
            if name == 'lt':
                return a < b
            if name == 'le':
                return a <= b
            if name == 'gt':
                return a > b
            return a >= b
        except TypeError as e:
            raise PyRaise('TypeError', str(e))

    def _arr_compare(self, name, a, b):
        if name != 'eq' or not (isinstance(a, Arr) and isinstance(b, Arr)):
            # elementwise comparison of a 1-D array with a scalar (either side) or of two equal-shape 1-D arrays
            if isinstance(a, Arr) and a.ndim == 1 and not isinstance(b, (Arr, list, tuple)):
                return Arr([self.compare_vals(name, x, b) for x in a.d])
            if isinstance(b, Arr) and b.ndim == 1 and not isinstance(a, (Arr, list, tuple)):
                return Arr([self.compare_vals(name, a, y) for y in b.d])
            if isinstance(a, Arr) and isinstance(b, Arr) and a.ndim == 1 and a.shape() == b.shape():
                return Arr([self.compare_vals(name, x, y) for x, y in zip(a.d, b.d)])
            raise Undecidable('array comparison %s' % name)
        if not (isinstance(a, Arr) and isinstance(b, Arr)) or a.shape() != b.shape():
            raise Undecidable('array comparison of different shapes')
        if a.ndim == 2:
            return Arr([[self.compare_vals('eq', x, y) for x, y in zip(r1, r2)] for r1, r2 in zip(a.d, b.d)])
        return Arr([self.compare_vals('eq', x, y) for x, y in zip(a.d, b.d)])

    def _obj_compare(self, name, a, b):
        if name in ('eq', 'ne'):
            if a is b:
                return name == 'eq'
            recv, other = (a, b) if isinstance(a, Obj) else (b, a)
            meth = recv.cls.methods.get('__eq__' if name == 'eq' else '__ne__')
            if meth is None and name == 'ne':
                meth2 = recv.cls.methods.get('__eq__')
                if meth2 is not None:
                    r = self.call(Closure(meth2, meth2.node, None, meth2.module, recv, recv.cls), [other], {})
                    if r is NOT_IMPLEMENTED:
                        return a is not b
                    return not self.truth(r)
            if meth is None:
                return (a is b) == (name == 'eq')
            r = self.call(Closure(meth, meth.node, None, meth.module, recv, recv.cls), [other], {})
            if r is NOT_IMPLEMENTED:
                return (a is b) == (name == 'eq')
            return r
        raise Undecidable('ordering of objects')

    def _is(self, a, b):
        if a is None or b is None:
            return a is b
        if isinstance(a, Rat) and isinstance(b, Rat):
            return a is b            # number objects: the very same object or not (an equal value need not be identical)
        if isinstance(a, ExtRef) and isinstance(b, ExtRef):
            return a.dotted == b.dotted
        if isinstance(a, ClassRef) and isinstance(b, ClassRef):
            return a.info is b.info
        if isinstance(a, (ExtRef, ClassRef)) or isinstance(b, (ExtRef, ClassRef)):
            return False
        if isinstance(a, (Obj, list, dict, Opaque)) or isinstance(b, (Obj, list, dict, Opaque)):
            return a is b
        if isinstance(a, bool) and isinstance(b, bool):
            return a == b
        if isinstance(a, Closure) and isinstance(b, Closure):
            if a.self_obj is None and b.self_obj is None and a.env is None and b.env is None:
                return a.node is b.node      # plain functions: one object per definition
            if a.node is not b.node:
                return False
            raise Undecidable('identity of bound methods / nested functions')
        if isinstance(a, Closure) or isinstance(b, Closure):
            return False
        raise Undecidable('identity test on %r / %r' % (a, b))

    def _contains(self, container, item):
        if isinstance(container, Obj):
            m = container.cls.methods.get('__contains__')
            if m is not None:
                return self.call(Closure(m, m.node, None, m.module, container, container.cls), [item], {})
            if '__base_list__' in container.attrs:
                return self._contains(container.attrs['__base_list__'], item)
            raise Undecidable('membership in object')
        if isinstance(container, str):
            if isinstance(item, str):
                return item in container
            if item is None:
                raise PyRaise('TypeError', "'in <string>' requires string as left operand, not NoneType")
            raise Undecidable('membership of %r in a string' % (item,))
        if isinstance(container, StrT):
            if container.is_plain() and isinstance(item, str):
                return item in container.plain()
            if isinstance(item, str):
                # literal part match is definite; otherwise undecidable
                if any(isinstance(p, str) and item in p for p in container.parts):
                    return True
            raise Undecidable('membership in string template')
        if isinstance(container, dict):
            return item in container
        if isinstance(container, (set, frozenset)):
            try:
                return item in container
            except TypeError:
                raise Undecidable('unhashable membership')
        if isinstance(container, (list, tuple)):
            for x in container:
                if x is item:
                    return True
                r = self.compare_vals('eq', x, item)
                if self.truth(r):
                    return True
            return False
        if isinstance(container, Opaque):
            raise Undecidable('membership in %r' % container)
        raise Undecidable('membership in %r' % (container,))

    # ------------------------------------------------------------------ statements
    def exec_block(self, body, env):
        for st in body:
            self.exec_stmt(st, env)

    def exec_stmt(self, st, env):
        dl = getattr(self, 'deadline', None)
        if dl is not None:
            import time as _time
            if _time.time() > dl:
                raise Undecidable('the time limit of this theorem is exceeded (expressions outside the exact fragment grow without bound)')
        m = getattr(self, 'st_' + type(st).__name__, None)
        if m is None:
            raise Undecidable('statement %s' % type(st).__name__)
        return m(st, env)

    def st_Expr(self, st, env):
        if isinstance(st.value, ast.Constant):
            return
        self.eval(st.value, env)

    def st_Pass(self, st, env):
        pass

    def st_Assign(self, st, env):
        v = self.eval(st.value, env)
        for t in st.targets:
            self.assign(t, v, env)

    def st_AnnAssign(self, st, env):
        if st.value is not None:
            self.assign(st.target, self.eval(st.value, env), env)

    def st_AugAssign(self, st, env):
        tgt = st.target
        if isinstance(tgt, ast.Name):
            cur = self.lookup(tgt.id, env)
        elif isinstance(tgt, ast.Attribute):
            cur = self.getattr(self.eval(tgt.value, env), tgt.attr)
        elif isinstance(tgt, ast.Subscript):
            cur = self.subscript(self.eval(tgt.value, env), self.eval_index(tgt.slice, env))
        else:
            raise Undecidable('augmented target')
        rhs = self.eval(st.value, env)
        if isinstance(st.op, ast.Add) and isinstance(cur, list):
            cur.extend(self.iterate(rhs))   # in-place list +=
            return
        if isinstance(st.op, ast.Add) and isinstance(cur, Obj) and '__iadd__' not in cur.cls.methods \
                and 'insert' in cur.cls.methods:
            for x in self.iterate(rhs):     # MutableSequence.__iadd__ == extend
                self.call_method(cur, 'append', x)
            return
        v = self.binop(st.op, cur, rhs)
        self.assign(tgt, v, env)

    def st_Return(self, st, env):
        raise _Return(self.eval(st.value, env) if st.value is not None else None)

    def st_If(self, st, env):
        if self.trace.no_fork:
            # 'collect everything' mode: a test that this path cannot decide admits its body whatever its polarity
            # (`if not t > 1:` must be treated like `if t <= 1:`)
            n0 = getattr(self.trace, 'nofork_defaults', 0)
            v = self.truth(self.eval(st.test, env))
            if v or getattr(self.trace, 'nofork_defaults', 0) > n0:
                self.exec_block(st.body, env)
            else:
                self.exec_block(st.orelse, env)
            return
        if self.truth(self.eval(st.test, env)):
            self.exec_block(st.body, env)
        else:
            self.exec_block(st.orelse, env)

    def st_Assert(self, st, env):
        if not self.truth(self.eval(st.test, env)):
            raise PyRaise('AssertionError', ast.unparse(st.test))

    def st_Raise(self, st, env):
        if st.exc is None:
            raise PyRaise(env.lookup('__active_exc__') if env.has('__active_exc__') else 'Exception')
        name = 'Exception'
        e = st.exc
        if isinstance(e, ast.Call):
            e = e.func
        if isinstance(e, ast.Name):
            name = e.id
            if env.has(name):
                v = env.lookup(name)
                if isinstance(v, PyRaise):
                    raise v
            r = self.model.resolve_global(env.module, name) if env.module else None
            if r and r[0] == 'const':
                # module-level exception instance, e.g. _NotImplemented4ArcException
                inner = r[2]
                if isinstance(inner, ast.Call) and isinstance(inner.func, ast.Name):
                    name = inner.func.id
        elif isinstance(e, ast.Attribute):
            name = e.attr
        raise PyRaise(name, ast.unparse(st.exc)[:200])

    def _live_items(self, v):
        """iteration over a list object is by index into the LIVE list (Python semantics: removing elements inside the loop
        skips / shortens it); everything else is iterated over a snapshot"""
        live = None
        if isinstance(v, list):
            live = v
        elif isinstance(v, Obj) and '__base_list__' in v.attrs and '__iter__' not in v.cls.methods:
            live = v.attrs['__base_list__']
        if live is None:
            for x in self.iterate(v):
                yield x
            return
        i = 0
        while i < len(live):
            yield live[i]
            i += 1

    def st_For(self, st, env):
        items = self._live_items(self.eval(st.iter, env))
        broke = False
        for n, x in enumerate(items):
            if n > MAX_LOOP:
                raise Undecidable('loop too long')
            self.assign(st.target, x, env)
            try:
                self.exec_block(st.body, env)
            except _Break:
                broke = True
                break
            except _Continue:
                continue
        if not broke:
            self.exec_block(st.orelse, env)

    def st_While(self, st, env):
        n = 0
        while True:
            t = self.eval(st.test, env)
            if isinstance(t, (Label, _SignTest)) and not self.opts.get('symbolic_while'):
                raise Undecidable('while loop with a symbolic test: %s' % ast.unparse(st.test))
            if not self.truth(t):
                self.exec_block(st.orelse, env)
                return
            n += 1
            if n > self.opts.get('max_while', MAX_LOOP):
                raise Undecidable('while loop does not terminate within the bound')
            try:
                self.exec_block(st.body, env)
            except _Break:
                return
            except _Continue:
                continue

    def st_Break(self, st, env):
        raise _Break()

    def st_Continue(self, st, env):
        raise _Continue()

    def st_FunctionDef(self, st, env):
        env.vars[st.name] = Closure(None, st, env, env.module)

    def st_Import(self, st, env):
        for al in st.names:
            env.vars[al.asname or al.name.split('.')[0]] = ExtRef(al.name if al.asname else al.name.split('.')[0])

    def st_ImportFrom(self, st, env):
        for al in st.names:
            if st.level >= 1 and st.module in self.model.modules:
                # function-level relative import (used to break import cycles): a name of another module of the package
                r = self.model.resolve_global(self.model.modules[st.module], al.name)
                if r is None:
                    raise PyRaise('ImportError', al.name)
                env.vars[al.asname or al.name] = self._global_value(r)
                continue
            env.vars[al.asname or al.name] = ExtRef('%s.%s' % (st.module, al.name))

    def st_Try(self, st, env):
        try:
            try:
                self.exec_block(st.body, env)
            except PyRaise as e:
                for h in st.handlers:
                    if self._handler_matches(h, e, env):
                        if h.name:
                            env.vars[h.name] = e
                        env.vars['__active_exc__'] = e.exc_name
                        self.exec_block(h.body, env)
                        break
                else:
                    raise
            else:
                self.exec_block(st.orelse, env)
        finally:
            if st.finalbody:
                self.exec_block(st.finalbody, env)

    def _handler_matches(self, h, e, env):
        if h.type is None:
            return True
        names = []
        t = h.type
        for x in (t.elts if isinstance(t, ast.Tuple) else [t]):
            names.append(x.id if isinstance(x, ast.Name) else (x.attr if isinstance(x, ast.Attribute) else '?'))
        if 'Exception' in names or 'BaseException' in names:
            return True
        hier = {'IndexError': ['LookupError'], 'KeyError': ['LookupError'],
                'ZeroDivisionError': ['ArithmeticError'], 'FloatingPointError': ['ArithmeticError'],
                'NotImplementedError': ['RuntimeError']}
        return e.exc_name in names or any(p in names for p in hier.get(e.exc_name, []))

    def st_With(self, st, env):
        for item in st.items:
            cm = self.eval(item.context_expr, env)
            exits = []
            if isinstance(cm, Opaque) and cm.attrs.get('__ctx__') is not None:
                return self._with_generator_cm(st, item, cm, env)
            if isinstance(cm, Opaque) and cm.attrs.get('__enter__') is not None:
                # a stub context manager supplied by a check (e.g. a file object): __enter__ / __exit__ as given
                val = self.call(cm.attrs['__enter__'], [], {})
                exits.append(cm)
                if item.optional_vars is not None:
                    self.assign(item.optional_vars, val, env)
                continue
            if not (isinstance(cm, Opaque) and cm.what in ('numpy.errstate', 'warnings.catch_warnings')):
                raise Undecidable('with statement over %r' % (cm,))
            if item.optional_vars is not None:
                self.assign(item.optional_vars, cm, env)
        self.exec_block(st.body, env)

    def _with_generator_cm(self, st, item, cm, env):
        """`with f(...) as v:` where f is a generator decorated with contextlib.contextmanager.  Supported shapes of f's body:
        [pre..., yield, post...] (an exception of the block skips post) and [pre..., try: [..., yield, ...] finally: [...], post...]
        (the finally part always runs).  Exactly one yield, at the top level of the body or of that try."""
        if len(st.items) != 1:
            raise Undecidable('with statement combining a generator-based context manager with others')
        f, args, kwargs, qual = cm.attrs['__ctx__']
        node, fenv = self._bind_env(f, args, kwargs, qual)

        def is_yield(s_):
            v_ = s_.value if isinstance(s_, (ast.Expr, ast.Assign)) else None
            return isinstance(v_, ast.Yield)

        def has_yield(s_):
            return any(isinstance(n_, (ast.Yield, ast.YieldFrom)) for n_ in ast.walk(s_))
        body = list(node.body)
        idx = [i for i, s_ in enumerate(body) if has_yield(s_)]
        if len(idx) != 1:
            raise Undecidable('generator-based context manager with %d yielding statements' % len(idx))
        k = idx[0]
        ys = body[k]
        pre, post = body[:k], body[k + 1:]
        finalbody = []
        if isinstance(ys, ast.Try) and not ys.handlers and not ys.orelse:
            inner = [i for i, s_ in enumerate(ys.body) if has_yield(s_)]
            if len(inner) != 1 or not is_yield(ys.body[inner[0]]):
                raise Undecidable('generator-based context manager: yield nested too deeply')
            pre = pre + ys.body[:inner[0]]
            after_yield = ys.body[inner[0] + 1:]
            finalbody = ys.finalbody
            ys = ys.body[inner[0]]
        elif is_yield(ys):
            after_yield = []
        else:
            raise Undecidable('generator-based context manager: yield inside a compound statement')
        self.func_stack.append(qual)
        try:
            self.exec_block(pre, fenv)
            val = self.eval(ys.value.value, fenv) if ys.value.value is not None else None
        finally:
            self.func_stack.pop()
        if item.optional_vars is not None:
            self.assign(item.optional_vars, val, env)

        def run(stmts):
            self.func_stack.append(qual)
            try:
                try:
                    self.exec_block(stmts, fenv)
                except _Return:
                    pass
            finally:
                self.func_stack.pop()
        try:
            self.exec_block(st.body, env)
        except (PyRaise, _Return, _Break, _Continue):
            run(finalbody)           # the exception is thrown into the generator at the yield: only a finally clause still runs
            raise
        run(after_yield)
        run(finalbody)
        run(post)

    def st_Delete(self, st, env):
        for t in st.targets:
            if isinstance(t, ast.Subscript):
                c = self.eval(t.value, env)
                idx = self.eval_index(t.slice, env)
                if isinstance(c, Obj):
                    self.call_method(c, '__delitem__', idx)
                elif isinstance(c, (list, dict)):
                    try:
                        del c[idx]
                    except (IndexError, KeyError) as e:
                        raise PyRaise(type(e).__name__)
                else:
                    raise Undecidable('del on %r' % (c,))
            elif isinstance(t, ast.Name):
                env.vars.pop(t.id, None)
            else:
                raise Undecidable('del target')

    def st_Global(self, st, env):
        raise Undecidable('global statement')

    # ------------------------------------------------------------------ assignment
    def _abstracted(self, name, v):
        """let-abstraction: replace the value of a designated local by a fresh symbol and remember its definition"""
        q = self.func_stack[-1] if self.func_stack else None
        av = self.opts.get('abstract_values', {})
        vals = av.get(q) or av.get('*')      # '*': wherever the quantity is computed (helpers extracted from the anchor function)
        if vals and isinstance(v, Rat) and not v.is_const():
            # value-directed: the local (whatever its name) holds a quantity the oracle knows under a tag
            from .poly import fingerprint
            fv = fingerprint(v)
            for tag, value, atom in vals:
                fp = self._fp_cache.get(id(value))
                if fp is None and id(value) not in self._fp_cache:
                    fp = self._fp_cache[id(value)] = fingerprint(value)
                if fv is not None and fp is not None and abs(fv - fp) > 1e-7 * (1 + abs(fp)):
                    continue
                if v.equals(value):
                    self.definitions.append((q, name, tag, atom, v))
                    return atom
            # the same quantity modulo what this path knows to be equal (e.g. computed with one radius on the rx == ry branch)
            sub = getattr(self.trace, 'subst', None)
            if sub:
                try:
                    v2 = v.subst(sub)
                    if not v2.equals(v) or True:
                        for tag, value, atom in vals:
                            if any(a in sub for a in value.atoms()) or any(a in sub for a in v.atoms()):
                                if v2.equals(value.subst(sub)):
                                    self.definitions.append((q, name, tag, atom, v))
                                    return atom
                except Undecidable:
                    pass
        names = self.abstract.get(q)
        if not names or name not in names or not isinstance(v, Rat) or v.is_const():
            return v
        occ = sum(1 for d in self.definitions if d[0] == q and d[1] == name)
        base = '%s%s' % (name, "'" * occ)
        atom = Rat.sym(base) if v.is_real() else Rat.csym(base)
        self.definitions.append((q, name, occ, atom, v))
        return atom

    def assign(self, tgt, v, env):
        if isinstance(tgt, ast.Name):
            env.vars[tgt.id] = self._abstracted(tgt.id, v)
        elif isinstance(tgt, (ast.Tuple, ast.List)):
            items = self.iterate(v)
            if any(isinstance(e, ast.Starred) for e in tgt.elts):
                raise Undecidable('starred assignment')
            if len(items) != len(tgt.elts):
                raise PyRaise('ValueError', 'unpack %d into %d' % (len(items), len(tgt.elts)))
            for e, x in zip(tgt.elts, items):
                self.assign(e, x, env)
        elif isinstance(tgt, ast.Attribute):
            self.setattr(self.eval(tgt.value, env), tgt.attr, v)
        elif isinstance(tgt, ast.Subscript):
            c = self.eval(tgt.value, env)
            idx = self.eval_index(tgt.slice, env)
            self.setitem(c, idx, v)
        else:
            raise Undecidable('assignment target %s' % type(tgt).__name__)

    def setattr(self, o, name, v):
        if isinstance(o, Obj):
            s = o.cls.setters.get(name)
            if s is not None:
                self.call(Closure(s, s.node, None, s.module, o, o.cls), [v], {})
                return
            if o.cls.class_attrs and name in o.cls.class_attrs:
                dp = self._dyn_props(o.cls)
                if name in dp:
                    if dp[name].fset is None:
                        raise PyRaise('AttributeError', "can't set attribute")
                    self.call(dp[name].fset, [o, v], {})
                    return
            self.events.append(('setattr', o, name))
            o.attrs[name] = v
            return
        if isinstance(o, Opaque):
            o.attrs[name] = v
            return
        if isinstance(o, ClassRef):
            # class attribute set after the class body (class decorators, registration code)
            o.info.__dict__.setdefault('runtime_attrs', {})[name] = v
            return
        raise Undecidable('attribute store on %r' % (o,))

    def _dyn_props(self, cls):
        """class attributes that evaluate to property objects built at run time (`start = _control_point('start')`)"""
        dp = cls.__dict__.get('dyn_props')
        if dp is None:
            dp = {}
            cls.__dict__['dyn_props'] = dp          # set first: evaluation below may look attributes up
            from .values import PropertyObj
            for nm, expr in cls.class_attrs.items():
                if isinstance(expr, ast.Call):
                    try:
                        v = self.eval(expr, self._class_env(cls))
                    except (Undecidable, PyRaise):
                        continue
                    if isinstance(v, PropertyObj):
                        dp[nm] = v
        return dp

    def _class_env(self, cls):
        """scope in which a class-body expression is evaluated: the methods defined so far are plain functions there
        (dispatch tables like `_HANDLERS = {'M': _parse_moveto, ...}`)"""
        env = Env(module=cls.module)
        for nm, m in cls.methods.items():
            env.vars[nm] = Closure(m, m.node, None, m.module, None, cls)
        return env

    def _ensure_decorated(self, cls):
        """run the class decorators once (they may only annotate the class: `cls.x = ...; return cls`)"""
        if cls.__dict__.get('decorated') or not cls.node.decorator_list:
            return
        cls.__dict__['decorated'] = True
        for d in reversed(cls.node.decorator_list):
            f = self.eval(d, Env(module=cls.module))
            r = self.call(f, [ClassRef(cls)], {})
            if not (isinstance(r, ClassRef) and r.info is cls):
                cls.__dict__['decorated'] = False
                raise Undecidable('class decorator of %s returns something else than the class' % cls.qualname)

    def _runtime_class_attr(self, cls, name, own_only=False):
        self._ensure_decorated(cls)
        ra = cls.__dict__.get('runtime_attrs')
        if ra and name in ra:
            return ra[name]
        if own_only:
            return _MISSING
        for b in cls.bases:
            r = self.model.resolve_global(cls.module, b.split('.')[-1])
            if r and r[0] == 'class' and r[1] is not cls:
                v = self._runtime_class_attr(r[1], name)
                if v is not _MISSING:
                    return v
        return _MISSING

    def setitem(self, c, idx, v):
        if isinstance(c, Obj):
            self.call_method(c, '__setitem__', idx, v)
            return
        if isinstance(c, list):
            try:
                if isinstance(idx, slice):
                    c[idx] = self.iterate(v)
                else:
                    i = as_int(idx)
                    if i is None:
                        raise Undecidable('symbolic list index')
                    c[i] = v
            except IndexError:
                raise PyRaise('IndexError')
            return
        if isinstance(c, dict):
            c[_hashable(idx)] = v
            return
        if isinstance(c, Arr):
            bm.arr_setitem(c, idx, v)
            return
        raise Undecidable('item store on %r' % (c,))

    # ------------------------------------------------------------------ expressions
    def eval(self, e, env):
        m = getattr(self, 'ex_' + type(e).__name__, None)
        if m is None:
            raise Undecidable('expression %s' % type(e).__name__)
        return m(e, env)

    def ex_Constant(self, e, env):
        v = e.value
        if isinstance(v, float):
            return Rat.const(v)
        if isinstance(v, complex):
            return Rat.const(v)
        return v

    def ex_Name(self, e, env):
        return self.lookup(e.id, env)

    def lookup(self, name, env):
        try:
            return env.lookup(name)
        except KeyError:
            pass
        mod = env.module
        if mod is not None:
            ov = self.global_overrides.get((mod.name, name), _MISSING)
            if ov is _MISSING:
                ov = self.global_overrides.get(('*', name), _MISSING)      # whichever module holds the flag
            if ov is not _MISSING:
                return ov
            r = self.model.resolve_global(mod, name)
            if r is not None:
                return self._global_value(r)
        if name in bm.BUILTIN_NAMES:
            return ExtRef('builtins.' + name)
        import builtins as _b
        if hasattr(_b, name) and name not in ('True', 'False', 'None', 'NotImplemented'):
            return ExtRef('builtins.' + name)        # a real builtin the model may not cover: calling it decides (never a NameError)
        if name in ('True', 'False', 'None'):
            return {'True': True, 'False': False, 'None': None}[name]
        if name == 'NotImplemented':
            return NOT_IMPLEMENTED
        raise PyRaise('NameError', name)

    def _global_value(self, r):
        kind = r[0]
        if kind == 'func':
            fi = r[1]
            return Closure(fi, fi.node, None, fi.module)
        if kind == 'class':
            return ClassRef(r[1])
        if kind == 'ext':
            return bm.ext_value(r[1])
        if kind == 'const':
            mod, expr = r[1], r[2]
            ov = None
            key = (mod.name, id(expr))
            if key not in self._const_cache:
                self._const_cache[key] = self.eval(expr, Env(module=mod))
            return self._const_cache[key]
        raise Undecidable('global of kind %s' % kind)

    def ex_Tuple(self, e, env):
        return tuple(self._elts(e.elts, env))

    def ex_List(self, e, env):
        return list(self._elts(e.elts, env))

    def ex_Set(self, e, env):
        return set(_hashable(x) for x in self._elts(e.elts, env))

    def _elts(self, elts, env):
        out = []
        for x in elts:
            if isinstance(x, ast.Starred):
                out.extend(self.iterate(self.eval(x.value, env)))
            else:
                out.append(self.eval(x, env))
        return out

    def ex_Dict(self, e, env):
        d = {}
        for k, v in zip(e.keys, e.values):
            if k is None:
                d.update(self.eval(v, env))
            else:
                d[_hashable(self.eval(k, env))] = self.eval(v, env)
        return d

    def ex_BinOp(self, e, env):
        return self.binop(e.op, self.eval(e.left, env), self.eval(e.right, env))

    def ex_UnaryOp(self, e, env):
        v = self.eval(e.operand, env)
        if isinstance(e.op, ast.Not):
            return not self.truth(v)
        if isinstance(v, NumTok):
            v = v.value
        if isinstance(e.op, ast.USub):
            if isinstance(v, (Rat, PolyT)):
                return -v
            if isinstance(v, Arr):
                return v.map(lambda x: -x)
            if isinstance(v, (int, Fr, float, complex)):
                return -v
            raise Undecidable('negation of %r' % (v,))
        if isinstance(e.op, ast.UAdd):
            return v
        raise Undecidable('unary op')

    def ex_BoolOp(self, e, env):
        is_and = isinstance(e.op, ast.And)
        v = None
        for x in e.values:
            v = self.eval(x, env)
            t = self.truth(v)
            if is_and and not t:
                return v if not isinstance(v, (Label, _SignTest)) else False
            if not is_and and t:
                return v if not isinstance(v, (Label, _SignTest)) else True
        if isinstance(v, (Label, _SignTest)):
            return is_and
        return v

    def ex_Compare(self, e, env):
        left = self.eval(e.left, env)
        res = True
        for op, r in zip(e.ops, e.comparators):
            right = self.eval(r, env)
            res = self.compare(op, left, right)
            if len(e.ops) > 1:
                if not self.truth(res):
                    return False
                res = True
            left = right
        return res

    def ex_IfExp(self, e, env):
        if self.truth(self.eval(e.test, env)):
            return self.eval(e.body, env)
        return self.eval(e.orelse, env)

    def ex_Lambda(self, e, env):
        return Closure(None, e, env, env.module)

    def ex_Attribute(self, e, env):
        return self.getattr(self.eval(e.value, env), e.attr)

    def ex_Subscript(self, e, env):
        return self.subscript(self.eval(e.value, env), self.eval_index(e.slice, env))

    def eval_index(self, s, env):
        if isinstance(s, ast.Slice):
            def part(x):
                if x is None:
                    return None
                v = self.eval(x, env)
                i = as_int(v)
                if i is None:
                    raise Undecidable('symbolic slice bound')
                return i
            return slice(part(s.lower), part(s.upper), part(s.step))
        if isinstance(s, ast.Tuple):
            return tuple(self.eval_index(x, env) for x in s.elts)
        return self.eval(s, env)

    def ex_Slice(self, e, env):
        return self.eval_index(e, env)

    def ex_Starred(self, e, env):
        raise Undecidable('starred expression')

    def ex_JoinedStr(self, e, env):
        parts = []
        for v in e.values:
            if isinstance(v, ast.Constant):
                parts.append(v.value)
            else:
                spec = ''
                if v.format_spec is not None:
                    sp = self.eval(v.format_spec, env)
                    spec = sp if isinstance(sp, str) else sp.plain()
                parts.append(bm.fmt_value(self.eval(v.value, env), spec))
        return bm.mk_str(parts)

    def ex_ListComp(self, e, env):
        out = []
        self._comp(e.generators, 0, Env(env), lambda en: out.append(self.eval(e.elt, en)))
        return out

    def ex_GeneratorExp(self, e, env):
        return Iter(self.ex_ListComp(e, env))

    def ex_SetComp(self, e, env):
        out = []
        self._comp(e.generators, 0, Env(env), lambda en: out.append(_hashable(self.eval(e.elt, en))))
        return set(out)

    def ex_DictComp(self, e, env):
        out = {}

        def add(en):
            out[_hashable(self.eval(e.key, en))] = self.eval(e.value, en)
        self._comp(e.generators, 0, Env(env), add)
        return out

    def _comp(self, gens, i, env, emit):
        if i == len(gens):
            emit(env)
            return
        g = gens[i]
        for x in self.iterate(self.eval(g.iter, env)):
            self.assign(g.target, x, env)
            if all(self.truth(self.eval(c, env)) for c in g.ifs):
                self._comp(gens, i + 1, env, emit)

    def ex_Call(self, e, env):
        f = self.eval(e.func, env)
        args = []
        for a in e.args:
            if isinstance(a, ast.Starred):
                args.extend(self.iterate(self.eval(a.value, env)))
            else:
                args.append(self.eval(a, env))
        kwargs = {}
        for k in e.keywords:
            if k.arg is None:
                kwargs.update(self.eval(k.value, env))
            else:
                kwargs[k.arg] = self.eval(k.value, env)
        return self.call(f, args, kwargs, node=e)

    # ------------------------------------------------------------------ operators
    def binop(self, op, a, b):
        return bm.binop(self, op, a, b)

    # ------------------------------------------------------------------ attribute / subscript
    def getattr(self, o, name):
        if isinstance(o, NumTok):
            o = o.value
        if isinstance(o, Rat):
            if name == 'real':
                return o.real()
            if name == 'imag':
                return o.imag()
            if name == 'conjugate':
                return BoundBuiltin(o, 'conjugate')
            if name == 'item':
                return BoundBuiltin(o, 'item')
            raise PyRaise('AttributeError', name)
        if isinstance(o, (int, Fr)) and not isinstance(o, bool):
            if name == 'real':
                return o
            if name == 'imag':
                return 0
            raise PyRaise('AttributeError', name)
        if isinstance(o, Obj):
            cls = o.cls
            if cls.class_attrs and name in cls.class_attrs and not name.startswith('__'):
                dp = self._dyn_props(cls)
                if name in dp:
                    if dp[name].fget is None:
                        raise PyRaise('AttributeError', 'unreadable attribute')
                    return self.call(dp[name].fget, [o], {})
            if name in o.attrs:
                return o.attrs[name]
            if name == '__dict__':
                return o.attrs                       # the live instance dictionary
            if name in cls.getters:
                g = cls.getters[name]
                return self.call(Closure(g, g.node, None, g.module, o, cls), [], {})
            if name in cls.methods:
                m = cls.methods[name]
                if m.is_static:
                    return Closure(m, m.node, None, m.module, None, cls)
                if m.is_classmethod:
                    return Closure(m, m.node, None, m.module, ClassRef(cls), cls)
                return Closure(m, m.node, None, m.module, o, cls)
            if self.attr_hook is not None:
                r = self.attr_hook(self, o, name)
                if r is not NotImplemented:
                    return r
            if cls.node.decorator_list or cls.__dict__.get('runtime_attrs'):
                rv = self._runtime_class_attr(cls, name, own_only=True)
                if rv is not _MISSING:
                    return rv
            if name in cls.class_attrs:
                return self._class_attr_value(cls, name)
            rv = self._runtime_class_attr(cls, name)
            if rv is not _MISSING:
                return rv
            mixin = bm.mixin_method(self, o, name)
            if mixin is not None:
                return mixin
            if '__base_list__' in o.attrs and hasattr(list, name):
                return BoundBuiltin(o.attrs['__base_list__'], name)
            if name == '__class__':
                return ClassRef(cls)
            if name.startswith('__') and name.endswith('__'):
                raise Undecidable('special attribute %s of an object' % name)      # every object has these: a limit of the model
            if getattr(cls, 'opaque_bases', False):
                raise Undecidable('attribute %s of a %s: the class has a base that is computed at run time' % (name, cls.name))
            if getattr(o, 'partial', False):
                raise Undecidable('attribute %s of a %s that the check built without running its constructor' % (name, cls.name))
            raise PyRaise('AttributeError', '%s.%s' % (cls.name, name))
        if isinstance(o, Opaque):
            if name in o.attrs:
                return o.attrs[name]
            if o.raises_on_attr:
                raise PyRaise(o.raises_on_attr, '%s.%s' % (o.what, name))
            raise Undecidable('attribute %s of %r' % (name, o))
        if isinstance(o, ExtRef):
            return bm.ext_value(o.dotted + '.' + name)
        if isinstance(o, ClassRef):
            if name in o.info.methods:
                m = o.info.methods[name]
                return Closure(m, m.node, None, m.module, ClassRef(o.info) if m.is_classmethod else None, o.info)
            rv = self._runtime_class_attr(o.info, name, own_only=True)
            if rv is not _MISSING:
                return rv
            if name in o.info.class_attrs:
                return self._class_attr_value(o.info, name)
            rv = self._runtime_class_attr(o.info, name)
            if rv is not _MISSING:
                return rv
            if name == '__name__':
                return o.info.name
            if name == '__dict__':
                d = {}
                for nm, m in getattr(o.info, 'own_methods', o.info.methods).items():
                    d[nm] = Closure(m, m.node, None, m.module, None, o.info)
                for nm, expr in o.info.class_attrs.items():
                    if nm in self._dyn_props(o.info):
                        d[nm] = self._dyn_props(o.info)[nm]
                    else:
                        try:
                            d[nm] = self.eval(expr, self._class_env(o.info))
                        except (Undecidable, PyRaise):
                            pass
                return d
            raise PyRaise('AttributeError', name)
        if isinstance(o, (list, tuple, dict, str, set, StrT, PolyT, Arr, Iter)):
            return bm.container_attr(self, o, name)
        if isinstance(o, Closure):
            # function / bound-method objects
            if name == '__func__':
                if o.self_obj is None:
                    raise PyRaise('AttributeError', "'function' object has no attribute '__func__'")
                return Closure(o.info, o.node, o.env, o.module, None, o.cls)
            if name == '__self__':
                if o.self_obj is None:
                    raise PyRaise('AttributeError', "'function' object has no attribute '__self__'")
                return o.self_obj
            if name in ('__name__', '__qualname__') and o.info is not None:
                return o.info.name if name == '__name__' else o.info.qualname.split('.', 1)[-1]
            raise Undecidable('attribute %s of %r' % (name, o))
        if isinstance(o, PyRaise):
            raise Undecidable('attribute of exception object')
        if o is None:
            raise PyRaise('AttributeError', "'NoneType' object has no attribute %r" % name)
        if isinstance(o, (bool, float, complex)):
            raise PyRaise('AttributeError', name)
        raise Undecidable('attribute %s of %r' % (name, o))

    def subscript(self, c, idx):
        if isinstance(c, Obj):
            return self.call_method(c, '__getitem__', idx)
        if isinstance(c, Opaque) and c.what == 'namedtuple':
            return bm.subscript(self, tuple(c.attrs.values()), idx)
        return bm.subscript(self, c, idx)

    def iterate(self, v):
        if isinstance(v, Iter):
            return v.rest()
        if isinstance(v, (list, tuple)):
            return list(v)
        if isinstance(v, (set, frozenset)):
            from .values import HRat
            return [x.r if isinstance(x, HRat) else x for x in sorted(v, key=repr)]
        if isinstance(v, dict):
            return list(v.keys())
        if isinstance(v, range):
            if len(v) > MAX_LOOP:
                raise Undecidable('range too long')
            return list(v)
        if isinstance(v, str):
            return list(v)
        if isinstance(v, Arr):
            return [Arr(r) if isinstance(r, list) else r for r in v.d]
        if isinstance(v, PolyT):
            return list(v.c)
        if isinstance(v, Opaque) and v.what == 'namedtuple':
            return list(v.attrs.values())     # fields in declaration order
        if isinstance(v, Opaque) and v.attrs.get('__iter__') is not None:
            return self.iterate(self.call(v.attrs['__iter__'], [], {}))
        if isinstance(v, Obj):
            if '__iter__' in v.cls.methods:
                return self.iterate(self.call_method(v, '__iter__'))
            if '__getitem__' in v.cls.methods and '__len__' in v.cls.methods:
                n = as_int(self.call_method(v, '__len__'))
                return [self.call_method(v, '__getitem__', i) for i in range(n)]
            if '__base_list__' in v.attrs:
                return list(v.attrs['__base_list__'])
        raise Undecidable('iteration over %r' % (v,))

    # ------------------------------------------------------------------ calls
    def call(self, f, args, kwargs, node=None):
        if isinstance(f, Closure):
            return self.call_closure(f, args, kwargs)
        if isinstance(f, ClassRef):
            return self.instantiate(f.info, args, kwargs)
        if isinstance(f, ExtRef):
            h = self.ext_hooks.get(f.dotted)
            if h is not None:
                return h(self, args, kwargs)
            return bm.call_ext(self, f.dotted, args, kwargs)
        if isinstance(f, BoundBuiltin):
            return bm.call_bound(self, f.recv, f.name, args, kwargs)
        from .values import PyFunc
        if isinstance(f, PyFunc):
            return f.fn(self, args, kwargs)
        if isinstance(f, PolyT):
            if len(args) != 1:
                raise PyRaise('TypeError')
            x = args[0]
            if isinstance(x, Arr):
                return Arr(f(x.d))
            if isinstance(x, PolyT):
                acc = None
                for c in f.c:
                    acc = PolyT([c]) if acc is None else acc * x + c
                return acc
            return f(x if isinstance(x, (list, tuple)) else to_rat(x))
        if isinstance(f, Obj) and '__call__' in f.cls.methods:
            return self.call_method(f, '__call__', *args, **kwargs)
        if isinstance(f, bm._ItemGetter):
            return self.subscript(args[0], f.k)
        raise Undecidable('call of %r' % (f,))

    def _find_class_hook(self, info):
        h = self.call_hooks.get(info.qualname)
        if h is not None or not self.call_hooks:
            return h
        cache = self.__dict__.setdefault('_class_hook_alias', {})
        for key, h in list(self.call_hooks.items()):
            if key.count('.') != 1 or '<' in key:
                continue
            if key not in cache:
                try:
                    cache[key] = self.model.cls(key)
                except Exception:
                    cache[key] = None
            if cache[key] is info:
                return h          # the class was moved to another module and imported back under the hooked name
        return None

    def instantiate(self, info, args, kwargs):
        hook = self._find_class_hook(info)
        if hook is not None:
            r = hook(self, args, kwargs)
            if r is not NotImplemented:
                return r
        o = Obj(info)
        if 'list' in info.bases:
            # subclass of the builtin list: the inherited storage; methods the class does not define act on it
            o.attrs['__base_list__'] = []
        init = info.methods.get('__init__')
        if init is not None:
            self.call_closure(Closure(init, init.node, None, init.module, o, info), args, kwargs)
        elif 'list' in info.bases:
            o.attrs['__base_list__'].extend(self.iterate(args[0]) if args else [])
        return o

    def _find_hook(self, f, qual):
        """hooks are named by where the checks expect a function ('path.Line.length', 'path.segment_length'); the function may be
        defined elsewhere (pulled up into a base class, moved to another module and imported back): match by resolution"""
        if not self.call_hooks:
            return None
        recv = f.self_obj if isinstance(f.self_obj, Obj) else None
        if recv is not None:
            h = self.call_hooks.get('%s.%s' % (recv.cls.qualname, f.info.name))
            if h is not None:
                return h
        h = self.call_hooks.get(qual)
        if h is not None:
            return h
        cache = self.__dict__.setdefault('_hook_alias', {})
        for key, h in list(self.call_hooks.items()):
            if '<locals>' in key or key.count('.') not in (1, 2):
                continue
            if key not in cache:
                try:
                    target = self.model.func(key)
                    owner = self.model.cls(key.rsplit('.', 1)[0]) if key.count('.') == 2 else None
                except Exception:
                    target = owner = None
                cache[key] = (target, owner)
            target, owner = cache[key]
            if target is not f.info:
                continue
            if owner is None or (recv is not None and bm._subclass(self, recv.cls, owner)):
                return h
        return None

    def call_closure(self, f, args, kwargs):
        qual = f.info.qualname if f.info is not None else None
        if qual is None and isinstance(f.node, ast.FunctionDef):
            # nested function: hookable by '<outer qualname>.<locals>.<name>'
            outer = self.func_stack[-1] if self.func_stack else None
            nh = self.call_hooks.get('%s.<locals>.%s' % (outer, f.node.name)) or self.call_hooks.get('<locals>.' + f.node.name)
            if nh is not None:
                r = nh(self, list(args), kwargs)
                if r is not NotImplemented:
                    return r
        if qual is not None:
            hook = self._find_hook(f, qual)
            if hook is None and getattr(self, 'hook_pred', None) is not None:
                hook = self.hook_pred(self, f, args, kwargs)        # hooks addressed by role (call-graph position) instead of by name
            if hook is not None:
                r = hook(self, ([f.self_obj] if f.self_obj is not None else []) + list(args), kwargs)
                if r is not NotImplemented:
                    return r
            if qual in self.havoc:
                return self._havoc_call(f)
        memo_key = None
        decos = getattr(f.node, 'decorator_list', None)
        if decos:
            for d in decos:
                kind = self._decorator_kind(d, f.module)
                if kind == 'memo':
                    try:
                        memo_key = (qual or id(f.node), tuple(_hashable(x) for x in args), tuple(sorted((k, _hashable(v)) for k, v in kwargs.items())))
                        hash(memo_key)
                    except TypeError:
                        raise Undecidable('memoised call with unhashable arguments')
                    memo = self.__dict__.setdefault('_memo', {})
                    if memo_key in memo:
                        return memo[memo_key]          # the very same object as the first time
                elif kind == 'contextmanager':
                    cm = Opaque('contextmanager')
                    cm.attrs['__ctx__'] = (f, list(args), dict(kwargs), qual)
                    return cm
                elif kind != 'transparent':
                    raise Undecidable('function decorated with %s' % ast.unparse(d))
        if memo_key is not None:
            v = self._call_closure_body(f, args, kwargs, qual)
            self._memo[memo_key] = v
            return v
        return self._call_closure_body(f, args, kwargs, qual)

    def _decorator_kind(self, d, module):
        txt = ast.unparse(d)
        base = d.func if isinstance(d, ast.Call) else d
        name = ast.unparse(base)
        if name in ('property', 'staticmethod', 'classmethod') or name.endswith('.setter') or name.endswith('.getter'):
            return 'transparent'
        last = name.split('.')[-1]
        r = None
        if isinstance(base, ast.Name) and module is not None:
            r = self.model.resolve_global(module, base.id)
        dotted = r[1] if r and r[0] == 'ext' else name
        if last in ('lru_cache', 'cache', 'memoize', 'memoized', 'cached') and (dotted.startswith('functools') or r is None or r[0] == 'ext'):
            return 'memo'
        if last == 'wraps':
            return 'transparent'
        if last == 'contextmanager' and (dotted.startswith('contextlib') or r is None or r[0] == 'ext'):
            return 'contextmanager'
        return txt

    def _call_closure_body(self, f, args, kwargs, qual):
        self.depth += 1
        if self.depth > self.opts.get('max_depth', MAX_DEPTH):
            self.depth -= 1
            raise Undecidable('call depth exceeded at %s' % qual)
        self.func_stack.append(qual)
        if qual is not None:
            self.called.add(qual)
        try:
            node, env = self._bind_env(f, args, kwargs, qual)
            if isinstance(node, ast.Lambda):
                return self.eval(node.body, env)
            if _is_generator(node):
                env.vars['__yield__'] = []
                try:
                    self.exec_block(node.body, env)
                except _Return:
                    pass
                return Iter(env.vars['__yield__'])
            try:
                self.exec_block(node.body, env)
            except _Return as r:
                return r.v
            return None
        finally:
            self.depth -= 1
            self.func_stack.pop()

    def _bind_env(self, f, args, kwargs, qual):
        """the environment of a call: parameters bound to arguments and defaults -> (function node, Env)"""
        if True:
            node = f.node
            env = Env(f.env, f.module)
            a = node.args
            params = [x.arg for x in a.posonlyargs + a.args]
            full = list(args)
            if f.self_obj is not None:
                full = [f.self_obj] + full
            # defaults
            defaults = {}
            pos_defaults = a.defaults
            for p, d in zip(params[len(params) - len(pos_defaults):], pos_defaults):
                defaults[p] = d
            for p, d in zip(a.kwonlyargs, a.kw_defaults):
                if d is not None:
                    defaults[p.arg] = d
                params_kwonly = True
            if len(full) > len(params):
                if a.vararg is None:
                    raise PyRaise('TypeError', 'too many positional arguments for %s' % qual)
                env.vars[a.vararg.arg] = tuple(full[len(params):])
                full = full[:len(params)]
            elif a.vararg is not None:
                env.vars[a.vararg.arg] = ()
            for p, v in zip(params, full):
                env.vars[p] = v
            kw = dict(kwargs)
            for p in params[len(full):] + [x.arg for x in a.kwonlyargs]:
                if p in kw:
                    env.vars[p] = kw.pop(p)
                elif p in defaults:
                    denv = Env(f.env, f.module)
                    env.vars[p] = self.eval(defaults[p], denv)
                else:
                    raise PyRaise('TypeError', 'missing argument %s for %s' % (p, qual))
            for p in list(kw):
                if p in params[:len(full)]:
                    raise PyRaise('TypeError', 'multiple values for %s' % p)
            if a.kwarg is not None:
                env.vars[a.kwarg.arg] = kw
            elif kw:
                raise PyRaise('TypeError', 'unexpected keyword %s for %s' % (sorted(kw), qual))
            return node, env

    def ex_Yield(self, e, env):
        v = self.eval(e.value, env) if e.value is not None else None
        env.lookup('__yield__').append(v)
        return None

    def _havoc_call(self, f):
        """summarise a method by assigning fresh symbols to every attribute it stores"""
        o = f.self_obj
        written = []
        # the method and every method of the object it reaches through self.<method>() calls (helpers it is split into)
        nodes = [f.node]
        seen = {getattr(f.node, 'name', None)}
        cls = getattr(o, 'cls', None)
        i = 0
        while i < len(nodes):
            for n in ast.walk(nodes[i]):
                if isinstance(n, ast.Attribute) and isinstance(n.ctx, ast.Store) and isinstance(n.value, ast.Name) \
                        and n.value.id == 'self':
                    if n.attr not in written:
                        written.append(n.attr)
                elif isinstance(n, ast.Call) and isinstance(n.func, ast.Attribute) and isinstance(n.func.value, ast.Name) \
                        and n.func.value.id == 'self' and cls is not None and n.func.attr in cls.methods and n.func.attr not in seen:
                    seen.add(n.func.attr)
                    nodes.append(cls.methods[n.func.attr].node)
            i += 1
        for w in written:
            keep = self.opts.get('havoc_keep', ())
            if w in keep:
                continue
            namer = self.opts.get('havoc_namer')
            o.attrs[w] = namer(o, w) if namer else self.fresh('%s.%s' % (o.cls.name, w))
        return None


class _SignTest(object):
    __slots__ = ('key', 'accept', 'text', 'domain')

    def __init__(self, key, accept, text, domain='-0+'):
        self.key, self.accept, self.text, self.domain = key, accept, text, domain


class _NotImpl(object):
    def __repr__(self):
        return 'NotImplemented'


NOT_IMPLEMENTED = _NotImpl()
_MISSING = object()


def _negate(t):
    if isinstance(t, Label):
        return t.negate()
    if isinstance(t, _SignTest):
        rest = ''.join(s for s in t.domain if s not in t.accept)
        return _SignTest(t.key, rest, 'not (%s)' % t.text, t.domain)
    return not t


def _numlike(v):
    return isinstance(v, (Rat, int, Fr, float, complex, bool))


def _known_sign(d):
    """sign of a Rat that is a single real term in symbols declared positive (poly.POSITIVE), else None"""
    from . import poly
    try:
        ats = d.atoms()
    except Exception:
        ats = None
    if ats and all(poly._ATOMS[a].fn is not None and a not in poly.POSITIVE for a in ats):
        # a closed expression (functions of constants only): its sign is decided by evaluating it, when clearly non-zero
        try:
            v, scale = d.num.evalf_scaled({})
            w, wscale = d.den.evalf_scaled({})
            if v == v and w == w and abs(v.imag) <= 1e-12 * max(scale, 1e-300) and abs(w.imag) <= 1e-12 * max(wscale, 1e-300) \
                    and abs(v.real) > 1e-9 * scale and abs(w.real) > 1e-9 * wscale:
                return 1 if (v.real > 0) == (w.real > 0) else -1
        except (ValueError, ZeroDivisionError, OverflowError, KeyError, TypeError):
            pass
    if not d.is_poly() or not d.num.t:
        return None
    sign = None
    for m, c in d.num.t.items():
        if c[1] != 0 or c[0] == 0:
            return None
        for a, e in m:
            at = poly.atom_of(a)
            if a in poly.POSITIVE:
                continue
            if at.fn == 'sqrt' and e % 2 == 0:
                continue
            return None
        s = 1 if c[0] > 0 else -1
        if sign is None:
            sign = s
        elif sign != s:
            return None
    if all(m == () for m in d.num.t):
        return None
    return sign


def _canon_diff(d):
    """sign-normalise a Rat: returns (sign, key, text)"""
    n, den = d.num, d.den
    m0 = min(n.t)
    c = n.t[m0]
    lead = c[0] if c[0] != 0 else c[1]
    sgn = 1
    if not d.is_poly():
        # the sign of a quotient is not the sign of its numerator; key on the whole quotient
        m1 = min(den.t)
        c1 = den.t[m1]
        lead1 = c1[0] if c1[0] != 0 else c1[1]
        if lead1 < 0:
            lead = -lead
    if lead < 0:
        sgn = -1
        d = -d
        lead = -lead
    # invariance under positive scaling: 2x < 0 and x/20 < 0 are the same test
    if lead != 1 and lead != 0:
        d = d * Rat.const(Fr(1) / lead)
    k = d.key()
    return sgn, k, k


def _hashable(v):
    if isinstance(v, Rat):
        f = v.as_fraction()
        if f is not None:
            return int(f) if f.denominator == 1 else f
        from .values import HRat
        return HRat(v)
    if isinstance(v, list):
        return tuple(_hashable(x) for x in v)
    return v


def _is_generator(node):
    if isinstance(node, ast.Lambda):
        return False
    todo = list(node.body)
    while todo:
        n = todo.pop()
        if isinstance(n, (ast.Yield, ast.YieldFrom)):
            return True
        if isinstance(n, (ast.FunctionDef, ast.Lambda, ast.ClassDef)):
            continue
        todo.extend(ast.iter_child_nodes(n))
    return False
