"""E6: regular-language analysis of the regex literals found in the source.
re._parser.parse -> epsilon-NFA -> DFA over ASCII + one 'other' symbol; equality / inclusion / alphabet.
Leftmost-greedy matching order is NOT modelled: only language-level facts."""
import ast
import re._parser as sre_parse
import re._constants as C
from .model import AnchorMissing
from .poly import Undecidable

ALPHA = [chr(i) for i in range(128)] + ['ÿ']   # 'ÿ' stands for every non-ASCII character
OTHER = 'ÿ'


# ----------------------------------------------------------------------------- pattern extraction
def _eval_str(e, module, env):
    """constant-fold the string expression of a re.compile(...) argument"""
    if isinstance(e, ast.Constant) and isinstance(e.value, (str, int)):
        return e.value
    if isinstance(e, ast.BinOp):
        l, r = _eval_str(e.left, module, env), _eval_str(e.right, module, env)
        if isinstance(e.op, ast.Add):
            return l + r
        if isinstance(e.op, ast.Mult):
            return l * r
        if isinstance(e.op, ast.Mod):
            return l % (tuple(r) if isinstance(r, (list, tuple)) else r)
    if isinstance(e, (ast.List, ast.Tuple)):
        return [_eval_str(x, module, env) for x in e.elts]
    if isinstance(e, ast.Call) and isinstance(e.func, ast.Attribute) and e.func.attr == 'join':
        sep = _eval_str(e.func.value, module, env)
        return sep.join(_eval_str(e.args[0], module, env))
    if isinstance(e, ast.Call) and isinstance(e.func, ast.Attribute) and e.func.attr == 'format':
        return _eval_str(e.func.value, module, env).format(*[_eval_str(a, module, env) for a in e.args])
    if isinstance(e, ast.Attribute) and e.attr == 'pattern' and isinstance(e.value, ast.Name):
        key = e.value.id + '.pattern'
        if env and key in env:
            return env[key]
        return pattern_of(module, e.value.id, env)
    if isinstance(e, ast.Name) and e.id in module.globals:
        return _eval_str(module.globals[e.id], module, env)
    if isinstance(e, ast.Name) and e.id in getattr(module, 'pkg_imports', {}) and MODULES:
        # a constant defined in another module of the package and imported here
        mname, rname = module.pkg_imports[e.id]
        other = MODULES.get(mname)
        if other is not None and rname in other.globals:
            return _eval_str(other.globals[rname], other, env)
    raise Undecidable('regex pattern expression %s' % ast.unparse(e))


MODULES = None      # name -> Module of the package under analysis (set by Model)


def pattern_of(module, name, env=None):
    e = module.globals.get(name)
    if e is None:
        raise AnchorMissing('%s.%s' % (module.name, name))
    if isinstance(e, ast.Call) and isinstance(e.func, ast.Attribute) and e.func.attr == 'compile' and e.args:
        return _eval_str(e.args[0], module, env)
    raise AnchorMissing('%s.%s is not re.compile(<pattern>)' % (module.name, name))


# ----------------------------------------------------------------------------- NFA
class NFA(object):
    def __init__(self):
        self.n = 0
        self.eps = {}
        self.tr = {}      # state -> list of (frozenset chars, target)

    def new(self):
        s = self.n
        self.n += 1
        self.eps[s] = []
        self.tr[s] = []
        return s


def _category(cat):
    if cat == C.CATEGORY_DIGIT:
        return set('0123456789')
    if cat == C.CATEGORY_NOT_DIGIT:
        return set(ALPHA) - set('0123456789')
    if cat == C.CATEGORY_SPACE:
        return set(' \t\n\r\f\v')
    if cat == C.CATEGORY_NOT_SPACE:
        return set(ALPHA) - set(' \t\n\r\f\v')
    if cat == C.CATEGORY_WORD:
        return set(c for c in ALPHA[:128] if c.isalnum() or c == '_') | {OTHER}
    if cat == C.CATEGORY_NOT_WORD:
        return set(c for c in ALPHA[:128] if not (c.isalnum() or c == '_'))
    raise Undecidable('regex category %s' % cat)


def _ch(code):
    return chr(code) if code < 128 else OTHER


def _in_set(items):
    neg = False
    s = set()
    for op, av in items:
        if op == C.NEGATE:
            neg = True
        elif op == C.LITERAL:
            s.add(_ch(av))
        elif op == C.RANGE:
            lo, hi = av
            for c in range(lo, min(hi, 127) + 1):
                s.add(chr(c))
            if hi > 127:
                s.add(OTHER)
        elif op == C.CATEGORY:
            s |= _category(av)
        else:
            raise Undecidable('regex set item %s' % op)
    return (set(ALPHA) - s) if neg else s


def _build(nfa, items, start):
    """returns the end state after matching the sequence `items` from `start`"""
    cur = start
    for op, av in items:
        if op == C.LITERAL:
            nxt = nfa.new()
            nfa.tr[cur].append((frozenset([_ch(av)]), nxt))
            cur = nxt
        elif op == C.NOT_LITERAL:
            nxt = nfa.new()
            nfa.tr[cur].append((frozenset(set(ALPHA) - {_ch(av)}), nxt))
            cur = nxt
        elif op == C.ANY:
            nxt = nfa.new()
            nfa.tr[cur].append((frozenset(set(ALPHA) - {'\n'}), nxt))
            cur = nxt
        elif op == C.IN:
            nxt = nfa.new()
            nfa.tr[cur].append((frozenset(_in_set(av)), nxt))
            cur = nxt
        elif op == C.SUBPATTERN:
            cur = _build(nfa, av[3], cur)
        elif op == C.BRANCH:
            end = nfa.new()
            for alt in av[1]:
                s = nfa.new()
                nfa.eps[cur].append(s)
                e = _build(nfa, alt, s)
                nfa.eps[e].append(end)
            cur = end
        elif op in (C.MAX_REPEAT, C.MIN_REPEAT, getattr(C, 'POSSESSIVE_REPEAT', None)):
            lo, hi, sub = av
            for _ in range(lo):
                cur = _build(nfa, sub, cur)
            if hi == C.MAXREPEAT:
                loop = nfa.new()
                nfa.eps[cur].append(loop)
                e = _build(nfa, sub, loop)
                nfa.eps[e].append(loop)
                cur = loop
            else:
                end = nfa.new()
                nfa.eps[cur].append(end)
                for _ in range(hi - lo):
                    cur = _build(nfa, sub, cur)
                    nfa.eps[cur].append(end)
                cur = end
        elif op == C.AT:
            continue     # anchors do not change the language of whole-string matches
        else:
            raise Undecidable('regex construct %s' % op)
    return cur


# ----------------------------------------------------------------------------- DFA
class DFA(object):
    def __init__(self, trans, accept, start=0):
        self.trans = trans      # list of dict char -> state (missing = dead)
        self.accept = accept    # set of states
        self.start = start


def _closure(nfa, states):
    seen = set(states)
    todo = list(states)
    while todo:
        s = todo.pop()
        for t in nfa.eps[s]:
            if t not in seen:
                seen.add(t)
                todo.append(t)
    return frozenset(seen)


def compile_dfa(pattern_or_items):
    items = sre_parse.parse(pattern_or_items) if isinstance(pattern_or_items, str) else pattern_or_items
    nfa = NFA()
    s0 = nfa.new()
    end = _build(nfa, list(items), s0)
    start = _closure(nfa, [s0])
    ids = {start: 0}
    trans = [{}]
    todo = [start]
    while todo:
        S = todo.pop()
        i = ids[S]
        by_char = {}
        for s in S:
            for chars, t in nfa.tr[s]:
                for c in chars:
                    by_char.setdefault(c, set()).add(t)
        for c, targets in by_char.items():
            T = _closure(nfa, targets)
            if T not in ids:
                ids[T] = len(trans)
                trans.append({})
                todo.append(T)
            trans[i][c] = ids[T]
    accept = {i for S, i in ids.items() if end in S}
    return DFA(trans, accept)


def accepts(d, s):
    q = d.start
    for ch in s:
        ch = ch if ord(ch) < 128 else OTHER
        q = d.trans[q].get(ch)
        if q is None:
            return False
    return q in d.accept


def _product_search(a, b, bad):
    """BFS over the product automaton; `bad(in_a, in_b)` -> True gives a witness string"""
    start = (a.start, b.start)
    prev = {start: None}
    todo = [start]
    while todo:
        qa, qb = st = todo.pop(0)
        ia = qa is not None and qa in a.accept
        ib = qb is not None and qb in b.accept
        if bad(ia, ib):
            w = []
            while prev[st] is not None:
                st, ch = prev[st]
                w.append(ch)
            return ''.join(reversed(w))
        chars = set()
        if qa is not None:
            chars |= set(a.trans[qa])
        if qb is not None:
            chars |= set(b.trans[qb])
        for ch in sorted(chars):
            na = a.trans[qa].get(ch) if qa is not None else None
            nb = b.trans[qb].get(ch) if qb is not None else None
            nx = (na, nb)
            if nx not in prev and (na is not None or nb is not None):
                prev[nx] = ((qa, qb), ch)
                todo.append(nx)
    return None


def equivalent(a, b):
    w = _product_search(a, b, lambda ia, ib: ia != ib)
    return w is None, w


def included(a, b):
    """L(a) subset of L(b)?  returns (bool, witness in L(a)-L(b))"""
    w = _product_search(a, b, lambda ia, ib: ia and not ib)
    return w is None, w


def alphabet(d):
    """characters that occur on some path from the start to an accepting state"""
    # states that can reach acceptance
    rev = {}
    for q, tr in enumerate(d.trans):
        for ch, t in tr.items():
            rev.setdefault(t, set()).add(q)
    live = set(d.accept)
    todo = list(d.accept)
    while todo:
        t = todo.pop()
        for q in rev.get(t, ()):
            if q not in live:
                live.add(q)
                todo.append(q)
    reach = {d.start}
    todo = [d.start]
    out = set()
    while todo:
        q = todo.pop()
        for ch, t in d.trans[q].items():
            if t in live and q in live:
                out.add(ch)
            if t not in reach:
                reach.add(t)
                todo.append(t)
    return out


def single_char_class(pattern):
    """for a pattern of the form ([...]) : the set of characters; else None"""
    items = list(sre_parse.parse(pattern))
    while len(items) == 1 and items[0][0] == C.SUBPATTERN:
        items = list(items[0][1][3])
    if len(items) == 1 and items[0][0] == C.IN:
        return _in_set(items[0][1])
    if len(items) == 1 and items[0][0] == C.LITERAL:
        return {_ch(items[0][1])}
    return None


def group_items(pattern, index):
    """parsed items of capture group `index` (1-based) of the pattern"""
    found = []

    def walk(items):
        for op, av in items:
            if op == C.SUBPATTERN:
                if av[0] == index:
                    found.append(av[3])
                walk(av[3])
            elif op == C.BRANCH:
                for alt in av[1]:
                    walk(alt)
            elif op in (C.MAX_REPEAT, C.MIN_REPEAT):
                walk(av[2])
            elif op in (C.ASSERT, C.ASSERT_NOT):
                walk(av[1])
    walk(sre_parse.parse(pattern))
    if not found:
        raise AnchorMissing('capture group %d' % index)
    return found[0]
