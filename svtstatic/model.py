"""E1 source model: parses the package, indexes modules / classes / functions, resolves
intra-package imports and external names.  Nothing is imported or executed."""
import ast, os, hashlib

PACKAGE = 'svgpathtools'


class AnchorMissing(Exception):
    """a function/class/construct a rule is anchored in no longer exists -> exit 2"""


class FuncInfo(object):
    def __init__(self, module, node, cls=None, outer=None):
        self.module = module
        self.node = node
        self.cls = cls
        self.outer = outer
        self.name = node.name
        self.is_static = False
        self.is_classmethod = False
        if cls is not None:
            self.qualname = '%s.%s.%s' % (module.name, cls.name, node.name)
        elif outer is not None:
            self.qualname = '%s.<locals>.%s' % (outer.qualname, node.name)
        else:
            self.qualname = '%s.%s' % (module.name, node.name)

    @property
    def file(self):
        return self.module.relpath

    @property
    def line(self):
        return self.node.lineno

    def params(self):
        a = self.node.args
        return [x.arg for x in a.posonlyargs + a.args]

    def __repr__(self):
        return '<func %s>' % self.qualname


class ClassInfo(object):
    def __init__(self, module, node):
        self.module = module
        self.node = node
        self.name = node.name
        self.qualname = '%s.%s' % (module.name, node.name)
        self.methods = {}      # name -> FuncInfo (plain methods and property getters)
        self.setters = {}      # property name -> FuncInfo
        self.getters = {}      # property name -> FuncInfo
        self.class_attrs = {}  # name -> ast expr
        self.bases = [ast.unparse(b) for b in node.bases]
        for st in node.body:
            if isinstance(st, ast.FunctionDef):
                fi = FuncInfo(module, st, cls=self)
                decos = [ast.unparse(d) for d in st.decorator_list]
                fi.is_static = 'staticmethod' in decos
                fi.is_classmethod = 'classmethod' in decos
                if 'property' in decos:
                    self.getters[st.name] = fi
                elif any(d.endswith('.setter') for d in decos):
                    self.setters[st.name] = fi
                else:
                    self.methods[st.name] = fi
            elif isinstance(st, ast.Assign):
                for t in st.targets:
                    if isinstance(t, ast.Name):
                        self.class_attrs[t.id] = st.value

    def method(self, name):
        if name not in self.methods:
            raise AnchorMissing('%s.%s' % (self.qualname, name))
        return self.methods[name]

    def all_funcs(self):
        return list(self.methods.values()) + list(self.getters.values()) + list(self.setters.values())

    def __repr__(self):
        return '<class %s>' % self.qualname


class Module(object):
    def __init__(self, name, path, relpath):
        self.name = name
        self.path = path
        self.relpath = relpath
        with open(path, 'rb') as f:
            raw = f.read()
        self.digest = hashlib.sha256(raw).hexdigest()
        self.source = raw.decode('utf-8')
        self.tree = ast.parse(self.source, filename=path)
        for parent in ast.walk(self.tree):
            for child in ast.iter_child_nodes(parent):
                child._parent = parent
        self.functions = {}
        self.classes = {}
        self.globals = {}       # name -> ast expr (module-level simple assignments, last wins)
        self.pkg_imports = {}   # local name -> (module name, remote name)
        self.ext_imports = {}   # local name -> dotted external name
        self._index(self.tree.body)

    def _index(self, body):
        for st in body:
            if isinstance(st, ast.FunctionDef):
                self.functions[st.name] = FuncInfo(self, st)
            elif isinstance(st, ast.ClassDef):
                self.classes[st.name] = ClassInfo(self, st)
            elif isinstance(st, ast.Assign):
                for t in st.targets:
                    if isinstance(t, ast.Name):
                        self.globals[t.id] = st.value
            elif isinstance(st, ast.ImportFrom):
                self._import_from(st)
            elif isinstance(st, ast.Import):
                for al in st.names:
                    self.ext_imports[al.asname or al.name.split('.')[0]] = al.name if al.asname else al.name.split('.')[0]
            elif isinstance(st, ast.Try):
                # 'try: import x / except: fallback' idiom: index the try body first, then handlers (first wins)
                before = (set(self.ext_imports), set(self.globals), set(self.pkg_imports))
                self._index(st.body)
                saved = (dict(self.ext_imports), dict(self.globals), dict(self.pkg_imports))
                for h in st.handlers:
                    self._index(h.body)
                # names bound in the try body keep their try-body binding
                for store, sv, bf in ((self.ext_imports, saved[0], before[0]),
                                      (self.globals, saved[1], before[1]),
                                      (self.pkg_imports, saved[2], before[2])):
                    for k, v in sv.items():
                        if k not in bf:
                            store[k] = v
            elif isinstance(st, ast.If):
                self._index(st.body)
                self._index(st.orelse)

    def _import_from(self, st):
        if st.level >= 1 and st.module:
            for al in st.names:
                self.pkg_imports[al.asname or al.name] = (st.module, al.name)
        elif st.level == 0 and st.module and st.module != '__future__':
            for al in st.names:
                self.ext_imports[al.asname or al.name] = '%s.%s' % (st.module, al.name)

    def segment(self, node):
        return ast.get_source_segment(self.source, node)


class Model(object):
    def __init__(self, repo):
        self.repo = repo
        pkg = os.path.join(repo, PACKAGE)
        if not os.path.isdir(pkg):
            raise AnchorMissing('package directory %s' % pkg)
        self.modules = {}
        self.alias_back = {}     # defining qualname -> the name the checks address it by (moved to another module, imported back)
        for fn in sorted(os.listdir(pkg)):
            if fn.endswith('.py'):
                name = fn[:-3]
                self.modules[name] = Module(name, os.path.join(pkg, fn), '%s/%s' % (PACKAGE, fn))
        self._link_inheritance()
        from . import redfa
        redfa.MODULES = self.modules

    def _link_inheritance(self):
        """methods / properties / class attributes of in-package base classes are visible on the subclass (a method pulled up
        into a common base stays addressable as 'path.Line.length'); cls.bases gets the transitive base names"""
        done = set()

        def link(c):
            if id(c) in done:
                return
            done.add(id(c))
            c.own_methods = dict(c.methods)
            for b in list(c.bases):
                r = self.resolve_global(c.module, b.split('.')[-1])
                if not (r and r[0] == 'class') or r[1] is c:
                    # a base that is computed at run time (a call, a name bound to something that is not a class statement): what the
                    # class inherits is not known statically - a missing attribute is then a limit of the analysis, not an AttributeError
                    if '(' in b or (r is not None and r[0] in ('func', 'const')):
                        c.opaque_bases = True
                    continue
                base = r[1]
                link(base)
                if getattr(base, 'opaque_bases', False):
                    c.opaque_bases = True
                for tbl in ('methods', 'getters', 'setters', 'class_attrs'):
                    for k, v in getattr(base, tbl).items():
                        if tbl == 'methods' and (k in c.getters or k in c.setters):
                            continue
                        getattr(c, tbl).setdefault(k, v)
                for bb in base.bases:
                    if bb not in c.bases:
                        c.bases.append(bb)
        for m in self.modules.values():
            for c in m.classes.values():
                link(c)

    def module(self, name):
        if name not in self.modules:
            raise AnchorMissing('module %s' % name)
        return self.modules[name]

    def cls(self, qual):
        m, c = qual.split('.')
        mod = self.module(m)
        if c not in mod.classes:
            r = self.resolve_global(mod, c)
            if r and r[0] == 'class':
                self.alias_back.setdefault(r[1].qualname, qual)
                return r[1]
            raise AnchorMissing('class %s' % qual)
        return mod.classes[c]

    def func(self, qual):
        """'path.Path.d' | 'bezier.split_bezier' | 'path.Path.start:setter' | 'path.Path.start:getter'"""
        kind = None
        if ':' in qual:
            qual, kind = qual.split(':')
        parts = qual.split('.')
        mod = self.module(parts[0])
        if len(parts) == 2:
            if parts[1] not in mod.functions:
                # moved to another module of the package and imported back under the same name?
                r = self.resolve_global(mod, parts[1])
                if r and r[0] == 'func':
                    self.alias_back.setdefault(r[1].qualname, qual)
                    return r[1]
                raise AnchorMissing('function %s' % qual)
            return mod.functions[parts[1]]
        if len(parts) == 3:
            if parts[1] not in mod.classes:
                r = self.resolve_global(mod, parts[1])
                if not (r and r[0] == 'class'):
                    raise AnchorMissing('class %s.%s' % (parts[0], parts[1]))
                c = r[1]
                self.alias_back.setdefault(c.qualname, '%s.%s' % (parts[0], parts[1]))
            else:
                c = mod.classes[parts[1]]
            table = c.methods if kind is None else (c.setters if kind == 'setter' else c.getters)
            if parts[2] not in table:
                raise AnchorMissing('method %s%s' % (qual, ':' + kind if kind else ''))
            fi = table[parts[2]]
            if fi.cls is c and c.module is not mod:
                self.alias_back.setdefault(fi.qualname, qual)
            return fi
        raise AnchorMissing(qual)

    def has_func(self, qual):
        try:
            self.func(qual)
            return True
        except AnchorMissing:
            return False

    def resolve_global(self, module, name, _depth=0):
        """resolve a global name seen in `module` to ('func', FuncInfo) | ('class', ClassInfo) |
        ('const', Module, ast expr) | ('ext', dotted) | None"""
        if _depth > 5:
            return None
        if name in module.functions:
            return ('func', module.functions[name])
        if name in module.classes:
            return ('class', module.classes[name])
        if name in module.pkg_imports:
            mname, rname = module.pkg_imports[name]
            if mname in self.modules:
                return self.resolve_global(self.modules[mname], rname, _depth + 1)
            return None
        if name in module.globals:
            return ('const', module, module.globals[name])
        if name in module.ext_imports:
            return ('ext', module.ext_imports[name])
        return None

    def all_functions(self):
        for m in self.modules.values():
            for f in m.functions.values():
                yield f
            for c in m.classes.values():
                for f in c.all_funcs():
                    yield f

    def digest(self):
        h = hashlib.sha256()
        for n in sorted(self.modules):
            h.update(self.modules[n].digest.encode())
        return h.hexdigest()[:16]

    def stats(self):
        nf = sum(1 for _ in self.all_functions())
        nc = sum(len(m.classes) for m in self.modules.values())
        return {'modules': len(self.modules), 'classes': nc, 'functions': nf}


def loc(fi_or_module, node):
    mod = fi_or_module.module if isinstance(fi_or_module, FuncInfo) else fi_or_module
    return '%s:%d' % (mod.relpath, getattr(node, 'lineno', 0))


def norm(node):
    """normalised text of a construct (stable under reformatting)"""
    return ast.unparse(node) if isinstance(node, ast.AST) else str(node)
