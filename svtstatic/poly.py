"""E3 algebra: multivariate polynomials over Q(i) in real atoms, rational functions,
opaque function atoms with a fixed set of rewrite relations.

All atoms denote REAL quantities.  A complex symbolic number z is x + 1j*y with two atoms,
so .real/.imag/conj are computable on the normal form.

Rewrite relations applied during multiplication (the normal form is canonical modulo them):
    sqrt(u)**2 -> u            sin(u)**2 -> 1 - cos(u)**2
Everything else about sqrt/cos/sin/log/... is uninterpreted.
"""
from fractions import Fraction as Fr
import math, cmath, random

# --------------------------------------------------------------------------- atoms
_ATOMS = {}          # id -> Atom
MAX_PRODUCT_TERMS = 600000   # work budget per polynomial product
DEADLINE = None              # wall-clock limit of the theorem being explored (set by interp.explore)
POSITIVE = set()     # ids of symbols a check declares to be > 0 (e.g. radii after normalisation)


class Atom(object):
    __slots__ = ('id', 'fn', 'arg')

    def __init__(self, id_, fn=None, arg=None):
        self.id = id_
        self.fn = fn      # None for plain symbols
        self.arg = arg    # Rat argument for function atoms


def sym_atom(name):
    a = _ATOMS.get(name)
    if a is None:
        a = _ATOMS[name] = Atom(name)
    return a


_FN_BUCKETS = {}     # (fn, rounded fingerprint) -> [Atom]: arguments that are equal as rational functions share one atom


def fn_atom(fn, arg):
    """arg: Rat.  Key by the canonical form of the argument; non-polynomial arguments (whose printed form is not
    canonical) are identified semantically: fingerprint bucket + exact cross-multiplication."""
    key = '%s(%s)' % (fn, arg.key())
    a = _ATOMS.get(key)
    if a is not None:
        return a
    if not arg.is_poly():
        fp = fingerprint(arg)
        if fp is not None:
            bk = (fn, round(fp.real, 6), round(fp.imag, 6))
            for cand in _FN_BUCKETS.get(bk, ()):
                if cand.arg.equals(arg):
                    _ATOMS[key] = cand
                    return cand
            a = _ATOMS[key] = Atom(key, fn, arg)
            _FN_BUCKETS.setdefault(bk, []).append(a)
            return a
    a = _ATOMS[key] = Atom(key, fn, arg)
    return a


def atom_of(id_):
    return _ATOMS[id_]


# --------------------------------------------------------------------------- coefficients: Q(i) as (re, im)
def _cadd(a, b):
    return (a[0] + b[0], a[1] + b[1])


def _cmul(a, b):
    return (a[0] * b[0] - a[1] * b[1], a[0] * b[1] + a[1] * b[0])


def _czero(a):
    return a[0] == 0 and a[1] == 0


def _cinv(a):
    n = a[0] * a[0] + a[1] * a[1]
    return (a[0] / n, -a[1] / n)


ONE_C = (Fr(1), Fr(0))


def _to_c(x):
    if isinstance(x, tuple):
        return x
    if isinstance(x, bool):
        return (Fr(int(x)), Fr(0))
    if isinstance(x, (int, Fr)):
        return (Fr(x), Fr(0))
    if isinstance(x, float):
        return (_fr_float(x), Fr(0))
    if isinstance(x, complex):
        return (_fr_float(x.real), _fr_float(x.imag))
    raise TypeError('not a constant: %r' % (x,))


def _fr_float(x):
    if x != x or x in (float('inf'), float('-inf')):
        raise Undecidable('non-finite float constant')
    # decimal literals in source (0.5, 1e-4, 2.0) are meant as exact rationals
    return Fr(repr(x))      # the decimal literal is meant exactly (also for 1e-12, 2.2e-308)


class Undecidable(Exception):
    """the construct leaves the fragment the algebra understands"""


# --------------------------------------------------------------------------- Poly
class Poly(object):
    """dict: monomial -> coefficient.  monomial = tuple of (atom_id, exp) sorted by atom_id."""
    __slots__ = ('t', '_key')

    def __init__(self, terms=None):
        self.t = terms if terms is not None else {}
        self._key = None

    # ---- constructors
    @staticmethod
    def const(c):
        c = _to_c(c)
        return Poly({} if _czero(c) else {(): c})

    @staticmethod
    def atom(a):
        return Poly({((a.id, 1),): ONE_C})

    # ---- predicates
    def is_zero(self):
        return not self.t

    def is_const(self):
        return all(m == () for m in self.t)

    def const_value(self):
        assert self.is_const()
        return self.t.get((), (Fr(0), Fr(0)))

    def atoms(self):
        s = set()
        for m in self.t:
            for a, _ in m:
                s.add(a)
        return s

    def all_atoms(self):
        """atoms including those nested inside function-atom arguments"""
        out = set()
        todo = list(self.atoms())
        while todo:
            a = todo.pop()
            if a in out:
                continue
            out.add(a)
            at = _ATOMS[a]
            if at.arg is not None:
                todo.extend(at.arg.num.atoms())
                todo.extend(at.arg.den.atoms())
        return out

    def degree_in(self, atom_id):
        d = 0
        for m in self.t:
            for a, e in m:
                if a == atom_id and e > d:
                    d = e
        return d

    # ---- arithmetic
    def __add__(self, o):
        if not isinstance(o, Poly):
            o = Poly.const(o)
        t = dict(self.t)
        for m, c in o.t.items():
            if m in t:
                s = _cadd(t[m], c)
                if _czero(s):
                    del t[m]
                else:
                    t[m] = s
            else:
                t[m] = c
        return Poly(t)

    __radd__ = __add__

    def __neg__(self):
        return Poly({m: (-c[0], -c[1]) for m, c in self.t.items()})

    def __sub__(self, o):
        if not isinstance(o, Poly):
            o = Poly.const(o)
        return self + (-o)

    def __rsub__(self, o):
        return Poly.const(o) - self

    def scale(self, c):
        c = _to_c(c)
        if _czero(c):
            return Poly()
        return Poly({m: _cmul(k, c) for m, k in self.t.items()})

    def __mul__(self, o):
        if not isinstance(o, Poly):
            return self.scale(o)
        if len(self.t) > len(o.t):
            self, o = o, self
        if len(self.t) * len(o.t) > MAX_PRODUCT_TERMS:
            raise Undecidable('polynomial product too large (%d x %d terms): the expression left the tractable fragment'
                              % (len(self.t), len(o.t)))
        if DEADLINE is not None and len(self.t) * len(o.t) > 64:
            import time as _time
            if _time.time() > DEADLINE:
                raise Undecidable('the time limit of this theorem is exceeded (expressions outside the exact fragment grow without bound)')
        acc = {}
        pending = []  # reducible products are expanded separately
        for m1, c1 in self.t.items():
            for m2, c2 in o.t.items():
                m, red = _mono_mul(m1, m2)
                c = _cmul(c1, c2)
                if red:
                    pending.append((m, c))
                    continue
                if m in acc:
                    s = _cadd(acc[m], c)
                    if _czero(s):
                        del acc[m]
                    else:
                        acc[m] = s
                else:
                    acc[m] = c
        res = Poly(acc)
        for m, c in pending:
            res = res + _reduce_mono(m).scale(c)
        return res

    __rmul__ = __mul__

    def __pow__(self, n):
        if not isinstance(n, int) or n < 0:
            raise Undecidable('power %r of a polynomial' % (n,))
        r = Poly.const(1)
        b = self
        while n:
            if n & 1:
                r = r * b
            n >>= 1
            if n:
                b = b * b
        return r

    # ---- complex structure (all atoms are real)
    def real(self):
        return Poly({m: (c[0], Fr(0)) for m, c in self.t.items() if c[0] != 0})

    def imag(self):
        return Poly({m: (c[1], Fr(0)) for m, c in self.t.items() if c[1] != 0})

    def conj(self):
        return Poly({m: (c[0], -c[1]) for m, c in self.t.items()})

    def is_real(self):
        return all(c[1] == 0 for c in self.t.values())

    # ---- canonical key / printing
    def key(self):
        if self._key is None:
            parts = []
            for m in sorted(self.t):
                c = self.t[m]
                cs = _cstr(c)
                ms = '*'.join(a if e == 1 else '%s^%d' % (a, e) for a, e in m)
                parts.append(cs + ('*' + ms if ms else ''))
            self._key = ' + '.join(parts) if parts else '0'
        return self._key

    def __repr__(self):
        return self.key()

    def __eq__(self, o):
        if not isinstance(o, Poly):
            try:
                o = Poly.const(o)
            except TypeError:
                return NotImplemented
        return self.t == o.t

    def __ne__(self, o):
        r = self.__eq__(o)
        return r if r is NotImplemented else not r

    def __hash__(self):
        return hash(self.key())

    # ---- calculus / substitution / evaluation
    def subst(self, mapping):
        """mapping: atom_id -> Rat.  Function atoms have their arguments substituted too."""
        res = Rat.const(0)
        cache = {}
        for m, c in self.t.items():
            term = Rat(Poly.const(c))
            for a, e in m:
                if a not in cache:
                    cache[a] = _subst_atom(a, mapping)
                term = term * (cache[a] ** e)
            res = res + term
        return res

    def diff(self, atom_id):
        """d/d(atom) as a Rat (chain rule through function atoms)."""
        res = Rat.const(0)
        for m, c in self.t.items():
            for i, (a, e) in enumerate(m):
                da = _datom(a, atom_id)
                if da.is_zero():
                    continue
                rest = m[:i] + (((a, e - 1),) if e > 1 else ()) + m[i + 1:]
                res = res + Rat(Poly({rest: _cmul(c, (Fr(e), Fr(0)))})) * da
        return res

    def evalf(self, env):
        tot = 0j
        for m, c in self.t.items():
            v = complex(float(c[0]), float(c[1]))
            for a, e in m:
                v *= _atom_value(a, env) ** e
            tot += v
        return tot

    def evalf_scaled(self, env):
        tot = 0j
        scale = 0.0
        for m, c in self.t.items():
            v = complex(float(c[0]), float(c[1]))
            for a, e in m:
                v *= _atom_value(a, env) ** e
            tot += v
            scale += abs(v)
        return tot, scale


def _cstr(c):
    if c[1] == 0:
        return str(c[0])
    if c[0] == 0:
        return '%sj' % c[1]
    return '(%s+%sj)' % (c[0], c[1])


def _mono_mul(m1, m2):
    if not m1:
        return m2, False
    if not m2:
        return m1, False
    d = dict(m1)
    for a, e in m2:
        d[a] = d.get(a, 0) + e
    red = False
    for a, e in d.items():
        if e >= 2:
            fn = _ATOMS[a].fn
            if fn == 'sqrt' or fn == 'sin':
                red = True
                break
    return tuple(sorted(d.items())), red


def _reduce_mono(m):
    """expand a monomial containing sqrt(u)^e (e>=2) or sin(u)^e (e>=2) into a Poly"""
    res = Poly.const(1)
    for a, e in m:
        at = _ATOMS[a]
        if e >= 2 and at.fn == 'sqrt':
            u = at.arg.as_poly()   # sqrt atoms always have polynomial arguments (see apply_fn)
            res = res * (u ** (e // 2))
            if e % 2:
                res = res * Poly.atom(at)
        elif e >= 2 and at.fn == 'sin':
            cosa = fn_atom('cos', at.arg)
            one_minus = Poly.const(1) - Poly.atom(cosa) ** 2
            res = res * (one_minus ** (e // 2))
            if e % 2:
                res = res * Poly.atom(at)
        else:
            res = res * Poly({((a, e),): ONE_C})
    return res


def _subst_atom(a, mapping):
    at = _ATOMS[a]
    if a in mapping:
        return mapping[a]
    if at.fn is None:
        return Rat(Poly.atom(at))
    new_arg = at.arg.subst(mapping)
    return apply_fn(at.fn, new_arg)


def _datom(a, wrt):
    at = _ATOMS[a]
    if a == wrt:
        return Rat.const(1)
    if at.fn is None:
        return Rat.const(0)
    du = at.arg.diff(wrt)
    if du.is_zero():
        return Rat.const(0)
    u = at.arg
    if at.fn == 'cos':
        return -Rat(Poly.atom(fn_atom('sin', u))) * du
    if at.fn == 'sin':
        return Rat(Poly.atom(fn_atom('cos', u))) * du
    if at.fn == 'sqrt':
        return du / (Rat(Poly.atom(at)) * 2)
    if at.fn == 'log':
        return du / u
    if at.fn == 'exp':
        return Rat(Poly.atom(at)) * du
    if at.fn == 'tan':
        c = Rat(Poly.atom(fn_atom('cos', u)))
        return du / (c * c)
    if at.fn == 'atan':
        return du / (u * u + 1)
    raise Undecidable('derivative of %s' % at.fn)


def _atom_value(a, env):
    if a in env:
        return env[a]
    at = _ATOMS[a]
    if at.fn is None:
        raise KeyError(a)
    u = at.arg.evalf(env)
    f = at.fn
    if f == 'sqrt':
        return cmath.sqrt(u)
    if f == 'cos':
        return cmath.cos(u)
    if f == 'sin':
        return cmath.sin(u)
    if f == 'tan':
        return cmath.tan(u)
    if f == 'log':
        return cmath.log(u)
    if f == 'exp':
        return cmath.exp(u)
    if f == 'atan':
        return cmath.atan(u)
    if f == 'acos':
        return cmath.acos(u)
    if f == 'asin':
        return cmath.asin(u)
    if f == 'abs':
        return abs(u)
    if env.get('__fingerprint__'):
        # uninterpreted function: any fixed function of the argument value serves for fingerprinting
        h = sum(ord(c) for c in f) * 0.37
        return cmath.sin(u * 1.2345 + h) + 0.5
    raise KeyError(a)


# --------------------------------------------------------------------------- Rat
class Rat(object):
    """num/den with Poly num, den.  den is kept constant-free where possible."""
    __slots__ = ('num', 'den', '_key')

    def __init__(self, num, den=None):
        if den is None:
            self.num, self.den = num, _ONE
        else:
            if den.is_zero():
                raise Undecidable('division by an expression that is identically zero')
            if not den.is_const() and not num.is_zero():
                num, den = _cancel_monomials(num, den)
            if den.is_const():
                num = num.scale(_cinv(den.const_value()))
                den = _ONE
            elif num.is_zero():
                den = _ONE
            self.num, self.den = num, den
        self._key = None

    @staticmethod
    def const(c):
        return Rat(Poly.const(c))

    @staticmethod
    def sym(name):
        return Rat(Poly.atom(sym_atom(name)))

    @staticmethod
    def csym(name):
        """complex symbol name = name.re + 1j*name.im"""
        return Rat(Poly.atom(sym_atom(name + '.re')) + Poly.atom(sym_atom(name + '.im')).scale((Fr(0), Fr(1))))

    def is_zero(self):
        return self.num.is_zero()

    def is_poly(self):
        return self.den is _ONE or self.den == _ONE

    def as_poly(self):
        if not self.is_poly():
            raise Undecidable('rational function where a polynomial is required')
        return self.num

    def is_const(self):
        return self.is_poly() and self.num.is_const()

    def const_value(self):
        return self.num.const_value()

    def as_fraction(self):
        """exact real rational constant or None"""
        if self.is_const():
            c = self.num.const_value()
            if c[1] == 0:
                return c[0]
        return None

    def _coerce(self, o):
        if isinstance(o, Rat):
            return o
        if isinstance(o, Poly):
            return Rat(o)
        return Rat.const(o)

    def __add__(self, o):
        o = self._coerce(o)
        if self.den == o.den:
            return Rat(self.num + o.num, self.den)
        return Rat(self.num * o.den + o.num * self.den, self.den * o.den)

    __radd__ = __add__

    def __neg__(self):
        return Rat(-self.num, self.den)

    def __sub__(self, o):
        return self + (-self._coerce(o))

    def __rsub__(self, o):
        return self._coerce(o) - self

    def __mul__(self, o):
        o = self._coerce(o)
        if self.is_poly() and o.is_poly():
            return Rat(self.num * o.num)
        # cheap cross-cancellation of identical factors
        n1, d1, n2, d2 = self.num, self.den, o.num, o.den
        if n1 == d2:
            return Rat(n2, d1)
        if n2 == d1:
            return Rat(n1, d2)
        return Rat(n1 * n2, d1 * d2)

    __rmul__ = __mul__

    def inv(self):
        if self.num.is_zero():
            raise Undecidable('division by an expression that is identically zero')
        return Rat(self.den, self.num)

    def __truediv__(self, o):
        return self * self._coerce(o).inv()

    def __rtruediv__(self, o):
        return self._coerce(o) * self.inv()

    def __pow__(self, n):
        if isinstance(n, Rat):
            f = n.as_fraction()
            if f is None:
                raise Undecidable('symbolic exponent')
            n = f
        if isinstance(n, float):
            n = Fr(repr(n))
        if isinstance(n, Fr):
            if n.denominator == 1:
                n = int(n)
            elif n.denominator == 2:
                # x ** (k/2) = sqrt(x) ** k
                return apply_fn('sqrt', self) ** int(n.numerator)
            else:
                raise Undecidable('fractional power %s' % n)
        if not isinstance(n, int):
            raise Undecidable('power %r' % (n,))
        if n < 0:
            return self.inv() ** (-n)
        return Rat(self.num ** n, self.den ** n)

    # ---- complex structure
    def _realden(self):
        if self.den.is_real():
            return self.num, self.den
        cj = self.den.conj()
        return self.num * cj, (self.den * cj)

    def real(self):
        n, d = self._realden()
        return Rat(n.real(), d)

    def imag(self):
        n, d = self._realden()
        return Rat(n.imag(), d)

    def conj(self):
        return Rat(self.num.conj(), self.den.conj())

    def is_real(self):
        return self.imag().is_zero()

    # ---- comparison / keys
    def equals(self, o):
        o = self._coerce(o)
        return (self.num * o.den - o.num * self.den).is_zero()

    def key(self):
        if self._key is None:
            if self.is_poly():
                self._key = self.num.key()
            else:
                n, d = _normalize_pair(self.num, self.den)
                self._key = '(%s)/(%s)' % (n.key(), d.key())
        return self._key

    def __repr__(self):
        return self.key()

    def subst(self, mapping):
        return self.num.subst(mapping) / self.den.subst(mapping) if not self.is_poly() else self.num.subst(mapping)

    def diff(self, atom_id):
        if self.is_poly():
            return self.num.diff(atom_id)
        dn = self.num.diff(atom_id)
        dd = self.den.diff(atom_id)
        d = Rat(self.den)
        return (dn * d - Rat(self.num) * dd) / (d * d)

    def evalf(self, env):
        return self.num.evalf(env) / self.den.evalf(env)

    def atoms(self):
        return self.num.all_atoms() | self.den.all_atoms()

    def has_fn_atoms(self):
        return any(_ATOMS[a].fn is not None for a in self.atoms())


_ONE = Poly.const(1)


def _cancel_monomials(num, den):
    """divide numerator and denominator by their common monomial content (no polynomial gcd)"""
    common = None
    for p in (num, den):
        for m in p.t:
            d = dict(m)
            if common is None:
                common = d
            else:
                for a in list(common):
                    e = min(common[a], d.get(a, 0))
                    if e:
                        common[a] = e
                    else:
                        del common[a]
            if not common:
                return num, den
    if not common:
        return num, den

    def div(p):
        out = {}
        for m, c in p.t.items():
            d = dict(m)
            for a, e in common.items():
                d[a] -= e
                if d[a] == 0:
                    del d[a]
            out[tuple(sorted(d.items()))] = c
        return Poly(out)
    return div(num), div(den)


def _normalize_pair(n, d):
    """divide both by the leading coefficient of d (first monomial in sorted order)"""
    m0 = min(d.t)
    c = _cinv(d.t[m0])
    return n.scale(c), d.scale(c)


# --------------------------------------------------------------------------- function application
def _sqrt_fraction(f):
    """exact sqrt of a non-negative Fraction if it is a perfect square, else None"""
    if f < 0:
        return None
    a, b = f.numerator, f.denominator
    ra, rb = math.isqrt(a), math.isqrt(b)
    if ra * ra == a and rb * rb == b:
        return Fr(ra, rb)
    return None


PI = Rat.sym('pi')


def apply_fn(fn, x):
    """x: Rat.  returns Rat"""
    if fn == 'sqrt':
        f = x.as_fraction()
        if f is not None:
            r = _sqrt_fraction(f)
            if r is not None:
                return Rat.const(r)
        if not x.is_poly():
            # formal algebraic element: sqrt(n/d) := sqrt(n)/sqrt(d); consistent with sqrt(u)**2 -> u
            return apply_fn('sqrt', Rat(x.num)) / apply_fn('sqrt', Rat(x.den))
        # square content: sqrt(s^2 * q) := s * sqrt(q) for the largest rational s with real coefficients (so that |c z| and |c| |z|
        # share one normal form)
        coeffs = list(x.num.t.values())
        if (len(coeffs) > 1 or (f is not None and f > 0)) and all(c[1] == 0 for c in coeffs):
            from math import gcd
            num = 0
            den = 1
            for c in coeffs:
                num = gcd(num, abs(c[0].numerator))
                den = den * c[0].denominator // gcd(den, c[0].denominator)
            content = Fr(num, den)          # positive rational gcd of the coefficients

            def square_part(n):
                s, k = 1, 2
                while k * k <= n and k < 2000:
                    while n % (k * k) == 0:
                        s *= k
                        n //= k * k
                    k += 1
                return s
            # content = a/b; content*b^2 = a*b is an integer: sqrt(content) = sqrt(a*b)/b
            ab = content.numerator * content.denominator
            s = Fr(square_part(ab), content.denominator)
            if s != 1:
                return Rat.const(s) * Rat(Poly.atom(fn_atom('sqrt', x / Rat.const(s * s))))
        return Rat(Poly.atom(fn_atom('sqrt', x)))
    if fn in ('cos', 'sin', 'tan'):
        if x.is_zero():
            return Rat.const(1 if fn == 'cos' else 0)
        # exact values at integer multiples of pi/2
        q = x / PI
        f = q.as_fraction() if q.is_const() else None
        if f is not None and (2 * f).denominator == 1:
            k = int(2 * f) % 4
            c, s_ = [(1, 0), (0, 1), (-1, 0), (0, -1)][k]
            if fn == 'cos':
                return Rat.const(c)
            if fn == 'sin':
                return Rat.const(s_)
            if c == 0:
                raise Undecidable('tan at an odd multiple of pi/2')
            return Rat.const(0)
        if fn == 'tan':
            return apply_fn('sin', x) / apply_fn('cos', x)
        # parity: put the argument in a canonical sign
        sgn, ax = _canon_sign(x)
        if fn == 'cos':
            return Rat(Poly.atom(fn_atom('cos', ax)))
        r = Rat(Poly.atom(fn_atom('sin', ax)))
        return r if sgn > 0 else -r
    if fn == 'exp':
        if x.is_zero():
            return Rat.const(1)
        re, im = x.real(), x.imag()
        res = Rat.const(1)
        if not re.is_zero():
            res = res * Rat(Poly.atom(fn_atom('exp', re)))
        if not im.is_zero():
            res = res * (apply_fn('cos', im) + apply_fn('sin', im) * Rat.const(1j))
        return res
    if fn == 'abs':
        f = x.as_fraction()
        if f is not None:
            return Rat.const(abs(f))
        re, im = x.real(), x.imag()
        if im.is_zero() and re.is_poly() and not re.is_zero():
            return _abs_real_poly(re.num)
        return apply_fn('sqrt', re * re + im * im)
    if fn == 'log':
        f = x.as_fraction()
        if f == 1:
            return Rat.const(0)
        return Rat(Poly.atom(fn_atom('log', x)))
    if fn in ('acos', 'asin', 'atan', 'phase') and x.is_const():
        # exact values on the axes (multiples of pi/2)
        f = x.as_fraction()
        table = {'acos': {1: Fr(0), 0: Fr(1, 2), -1: Fr(1)}, 'asin': {0: Fr(0), 1: Fr(1, 2), -1: Fr(-1, 2)}, 'atan': {0: Fr(0)}}
        if fn != 'phase' and f is not None and f in table[fn]:
            return PI * Rat.const(table[fn][f])
        if fn == 'phase':
            c = x.const_value()
            re_, im_ = c[0], c[1]
            if im_ == 0 and re_ != 0:
                return Rat.const(0) if re_ > 0 else PI
            if re_ == 0 and im_ != 0:
                return PI * Rat.const(Fr(1, 2) if im_ > 0 else Fr(-1, 2))
    if fn in ('acos', 'asin', 'atan', 'ceil', 'floor', 'sign', 'clip', 'phase', 'round'):
        return Rat(Poly.atom(fn_atom(fn, x)))
    raise Undecidable('function %s' % fn)


def _abs_real_poly(p):
    """|p| for a real polynomial: |content| * prod |atom|^e * |primitive part|, where |q| := sqrt(q^2)
    (so that abs(a*b), abs(a)*abs(b) and sqrt(a*a)*abs(b) share one normal form)"""
    monos = list(p.t)
    # monomial content
    common = dict(monos[0])
    for m in monos[1:]:
        d = dict(m)
        for a in list(common):
            e = min(common[a], d.get(a, 0))
            if e:
                common[a] = e
            else:
                del common[a]
    m0 = min(p.t)
    lead = p.t[m0][0]
    res = Rat.const(abs(lead))
    prim = {}
    for m, c in p.t.items():
        d = dict(m)
        for a, e in common.items():
            d[a] -= e
            if d[a] == 0:
                del d[a]
        prim[tuple(sorted(d.items()))] = (c[0] / lead, Fr(0))
    for a, e in sorted(common.items()):
        at = _ATOMS[a]
        if at.fn == 'sqrt' or a in POSITIVE:
            base = Rat(Poly.atom(at))          # sqrt(.) / declared-positive symbols are non-negative
        else:
            base = Rat(Poly.atom(fn_atom('sqrt', Rat(Poly.atom(at) ** 2))))
        res = res * base ** e
    q = Poly(prim)
    if not (q.is_const()):
        res = res * Rat(Poly.atom(fn_atom('sqrt', Rat(q * q))))
    return res


def _canon_sign(x):
    """return (+1, x) or (-1, -x) so that the first monomial's coefficient is 'positive'"""
    n, d = x.num, x.den
    if n.is_zero():
        return 1, x
    m0 = min(n.t)
    c = n.t[m0]
    lead = c[0] if c[0] != 0 else c[1]
    if not x.is_poly():
        m1 = min(d.t)
        c1 = d.t[m1]
        lead1 = c1[0] if c1[0] != 0 else c1[1]
        if lead1 < 0:
            lead = -lead
    if lead < 0:
        return -1, -x
    return 1, x


# --------------------------------------------------------------------------- probabilistic refutation helper
def numerically_zero(r, trials=16, seed=20240229):
    """Evaluate a Rat built by the checker at random points (NOT the package's code).
    Used only to avoid reporting a VIOLATION when a mismatch of normal forms may be due to
    a relation between function atoms that the rewrite system does not know."""
    rnd = random.Random(seed)
    atoms = [a for a in r.atoms() if _ATOMS[a].fn is None]
    ok = 0
    atoms = sorted(atoms)
    for trial in range(trials):
        # signs: trial 0 all positive, trial 1 all negative, then pseudo-random mixtures
        env = {}
        for a in atoms:
            neg = (trial == 1) or (trial > 1 and rnd.random() < 0.5)
            env[a] = rnd.uniform(0.3, 1.7) * (-1 if (neg and a not in POSITIVE) else 1)
        if 'pi' in env:
            env['pi'] = math.pi
        try:
            # the quotient vanishes iff its numerator does; compare with the size of the numerator's own terms
            v, scale = r.num.evalf_scaled(env)
        except (ZeroDivisionError, ValueError, OverflowError, KeyError):
            continue
        if v != v or scale != scale:
            continue
        if abs(v) > 1e-9 * scale:
            return False
        ok += 1
    return ok >= 3


_FP_ENV = {'__fingerprint__': True}


def fingerprint(r):
    """numeric fingerprint of a Rat at a fixed pseudo-random point: equal normal forms (modulo the rewrite
    relations) have equal fingerprints; used only to skip hopeless `equals` calls"""
    rnd = random.Random(987654321)
    for a in sorted(x for x in r.atoms() if _ATOMS[x].fn is None):
        if a not in _FP_ENV:
            h = random.Random(a).uniform(0.4, 1.6)
            _FP_ENV[a] = math.pi if a == 'pi' else h
    try:
        v = r.evalf(_FP_ENV)
    except (ZeroDivisionError, OverflowError, ValueError):
        return None
    return v
