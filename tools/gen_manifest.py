#!/venv/bin/python
"""writes /verif/MANIFEST.json from the table below (single source of truth for the interface)."""
import json, os

HERE = os.path.dirname(os.path.dirname(os.path.abspath(__file__)))
BASELINE = ("cd /repo && /venv/bin/python -m pytest -ra -q -p no:cacheprovider --timeout=900 "
            "--continue-on-collection-errors")

TRUST = ("Trusted base: CPython ast; /verif/svtstatic (source model, statement CFG, polynomial normal form over Q(i), "
         "syntax-directed interpreter); ring semantics of arithmetic (no rounding); the oracle tables transcribed in the "
         "check module. The package is parsed, never imported or executed.")

# id -> (category, technique, text, note, design_ref)   (only claimed properties)
CLAIMED = {}
# id -> reason
NOT_APPLICABLE = {}


def claim(pid, category, technique, text, note, ref):
    CLAIMED[pid] = (category, technique, text, note, ref)


def na(pid, reason):
    NOT_APPLICABLE[pid] = reason


claim('C03', 'proof',
      'abstract interpretation of the source over a polynomial normal form (Q(i)[atoms]); identity = normal-form equality',
      'Decides, for all control points and all t over C, that point/poly/points/derivative/bpoints, the basis changes and '
      'the dispatch helpers of Line/QuadraticBezier/CubicBezier denote the Bernstein curve (64 identities, each a finite '
      'normal-form comparison of what the current source computes with the definition built in the checker). '
      'The numeric "to within rounding" clause is not decided.',
      TRUST + ' numpy.poly1d is modelled as a formal polynomial.', 'DESIGN.md section 3 C03')

claim('C16', 'other',
      'typestate/effect analysis on per-method CFGs (must-pass-through invalidation, eq/hash field sets, package-wide who-may-write scan); '
      'abstract interpretation of length() on a segment holding a stale symbolic cache entry (keyed hits, tolerance directions, fills), of every '
      'primitive mutator from a consistent populated state (post-state judged), and of one-step query-mutate-query histories on segments and '
      'paths compared with freshly built objects (hash() made adversarial)',
      'Decides for ALL mutation/query histories (all code paths, not sampled sequences) the structural discipline that '
      'makes the property hold: every statement of Path that can mutate the segment store reaches every normal exit only '
      'through `self._length = None` and a refresh of _start/_end (helper methods summarised by must-assign sets); reads of the '
      'store after a shrinking mutation are emptiness-guarded; every cached return of QuadraticBezier/CubicBezier/Arc/Path is '
      'control-dependent on its key and on tolerance guards whose direction is derived from segment_length; cache fills write all '
      'key fields; caches shared with a reversed copy are re-keyed; no foreign writer of the private fields exists; '
      '__hash__ fields are a subset of __eq__ fields (one known finding: Path._closed). Semantically, for symbolic paths/segments: after every '
      'primitive mutation (all index shapes, path sizes 3/1/0) no length table of the old segment list survives and the cached end points are '
      'the new ones; the methods that rebuild the table are discovered by interpretation and their tolerance guards judged; point/T2t/t2T/length/'
      'start/end and every whole-path answer that may be memoised (isclosed, iscontinuous, bbox) after each mutation equal those of a fresh path; bpoints/poly/point/derivative/bbox/hash of a segment after reassigning a '
      'control point equal those of a fresh segment (whatever memo exists, however keyed; length() on concrete control points with hash() '
      'adversarial; seg[i]/len/iteration after cache-filling queries); a reversed() copy never inherits a cache that is not valid for the current control '
      'points (F25 found and fixed) nor a loosely measured length as a tight one. Numeric equality of recomputed values '
      'is not re-derived (determinism trusted).',
      TRUST + ' MutableSequence mixins reduce to insert/__setitem__/__delitem__ (collections.abc contract). Implicit exceptions '
      '(e.g. IndexError) are not CFG edges; R16.2 covers the one place where they matter.', 'DESIGN.md section 3 C16')

claim('C19', 'other',
      'abstract interpretation over a polynomial normal form per degree (identities) + AST/CFG provenance rules (root filters, index domains) '
      "+ exhaustive label exploration of rational_limit's case table",
      'Identity clauses are decided for all control points per degree (0..5 quick, 0..8 thorough): n_choose_k, bernstein, bezier_point, '
      'bezier2polynomial (all output forms), polynomial2bezier inverse, split_bezier and halve_bezier under the documented parameter maps; '
      'the same answers when several degrees are asked in a non-monotone order within one run (tables shared between calls). '
      "For the root helpers only necessary conditions are decided: polyroots' real filter/condition filter/polyroots01 arguments (a symbolic coefficient list reaches the root finder with every coefficient), "
      'the index-domain rule (an index selects from the very collection it enumerated, not re-bound in between), and the three-case '
      "L'Hopital table of rational_limit with every division guarded. What numpy.roots returns, isclose tolerances and the float zero "
      'tests of rational_limit are not decided.',
      TRUST, 'DESIGN.md section 3 C19')

claim('C09', 'other',
      'abstract interpretation over a polynomial normal form (identities), constructor-argument tables for Arc, exhaustive case '
      'table of Path.cropped over (segment of T0, segment of T1, order), AST provenance rule for lookups by value',
      'Decides for all control points/parameters: reversed().point(t)==point(1-t), split(s) pieces, cropped(0,s)/(s,1) for '
      'Line/Quadratic/Cubic and Line.cropped(t0,t1); the structure of crop_bezier around its numeric relocation step; the Arc '
      'tables of reversed/cropped/split including the large-arc rule |delta*(t1-t0)| <= 180 in degrees; Path.reversed; the '
      'complete piece table of Path.cropped on a closed 3-segment path (9 index pairs x both orders, interior parameters); and that '
      'Path never looks up by value a segment whose index it knows. Not decided: the numeric relocation of t1 in crop_bezier '
      '(radialrange), boundary parameters of Path.cropped (np.isclose branches), lengths.',
      TRUST + ' Arc geometry is summarised by symbols theta/delta/center (their meaning is C04).', 'DESIGN.md section 3 C09')

claim('C10', 'other',
      'abstract interpretation over a polynomial/trigonometric normal form (affine-map identities), constructor-argument tables for Arc, '
      'symbolic execution-free welding table, backward-slice information-flow rules',
      'Decides for all control points, parameters and t that translate/rotate (explicit, zero and default origin)/scale (uniform, '
      'non-uniform, with origin)/transform(3x3 matrix) of Line/Quadratic/Cubic equal the affine map applied to point(t), that the '
      'translated/rotated/scaled methods forward their arguments, the Arc tables for translate/rotate/uniform scale, that non-uniform '
      'scale of an Arc raises, that Path.joints pairs cyclically and transform_segments_together welds every coinciding joint '
      'including the closing one (and no other), and that every Path branch delegates per segment with the same parameters. '
      'Three information-flow necessary conditions on the arc branch of transform() fail on the pinned tree and are listed as known '
      'findings (F08a-c). Numerics of that branch are not decided.',
      TRUST, 'DESIGN.md section 3 C10')

claim('C04', 'other',
      'abstract interpretation over a polynomial/trigonometric normal form with value-directed let-abstraction; exhaustive exploration '
      'of the sign-label paths of Arc._parameterize (4 flag combinations x ~96 paths) against the F.6.5 formulas transcribed in the checker',
      'Decides: derivative(t,n) == d^n/dt^n point(t) for n=1..8; point(t) on the stored ellipse; initialisation order and normalisation in '
      '__init__; on every path of _parameterize, for all four flag combinations: x1\', radius_check, scaling by sqrt(radius_check) iff '
      '> 1 (ValueError iff autoscale is off), radicand, a radical that is guarded against radicand ~ 0, the centre with its sign rule, '
      'theta and raw delta case tables and the +-360 adjustment (spec table under the stated feasibility lemma); cubic/quadratic '
      'approximations chained, end-point exact, joints on the arc, control points on the tangents; after construction start, end, rotation, phi, '
      'rot_matrix and the flags are the values the arguments define; 128 concrete quarter / three-quarter circles between axis points (all flags, '
      'rotations 0/90/180/-90, two centres) get the exact centre, theta, delta, end points and intermediate axis points through the real constructor, '
      'also when built one after the other with colliding hashes; every Arc handed out by scaled/rotated/translated/reversed/cropped/split carries the '
      'derived state of its own fields and answers like a freshly built one (point, derivative, bbox at both ends); Path.approximate_arcs_with_* replaces each arc of a multi-arc path in place by its own chain. '
      'Not decided: point(0)=start and point(1)=end for general arcs as numeric statements (acos/sqrt/clip), monotonicity and minimality up to rounding.',
      TRUST + ' Relations used: cos^2+sin^2=1, sqrt(u)^2=u; clip() is treated as an uninterpreted function in the same places on both sides. '
      'Feasibility lemma (F.6.5 geometry): raw delta > 0 iff sweep != large_arc.', 'DESIGN.md section 3 C04')

claim('C01', 'other',
      'abstract interpretation of writer (Path.d) and reader (Path._parse_path) composed through a lexer model, over symbolic paths of every '
      'shape x option combination, with linear equality reasoning on the explored label paths; regex->DFA language inclusion',
      'Decides the composition parse(tokens(d(path))) == path as polynomial identities in all coordinates, for every sequence of segment '
      'classes (<= 2 segments quick plus selected 3-segment shapes; all <= 3 thorough) x joint continuity x closedness x the 8 option '
      'combinations, on every label path (coincidences of distinct points, smoothness equations under which S/T is emitted, Z decisions), '
      'that every printed number uses the full-precision default format and is separated, and that everything the writer can print lies in '
      'the lexer\'s language. Found and repaired F01 and F23 this way. Not decided: float repr/float exactness (CPython guarantee), rounding '
      'of emitted differences in relative form, the <=1e-12 radius caveat, leftmost-greedy tokenisation order.',
      TRUST + ' Lexer model: commands split the string, numbers are separated by blanks/commas (justified at language level by R01.6/R02.8).',
      'DESIGN.md section 3 C01')

claim('C02', 'other',
      'abstract interpretation of Path._parse_path on token programs (all command sequences of bounded length with symbolic numbers) against '
      'the SVG 1.1 section 8.3 semantics transcribed in the checker; regex->DFA language equality for the lexer',
      'Decides, for all numeric arguments at once, that every program [Mm] + up to 2 (quick) / 3 (thorough: 16000 programs) of the 20 command '
      'letters, with implicit repetitions and closepath contexts, parses to exactly the segment list the SVG semantics prescribes: abs/rel '
      'operands, implicit lineto after moveto, S/T reflection and its fallback, closepath line only when the pen is elsewhere, commands '
      'after Z, zero-radius arcs. This is exhaustive over the parser\'s finite control state (command, last command, abs/rel). Lexer: '
      'L(FLOAT_RE) equals the SVG number language, command letters cannot occur inside numbers, arc operands are tokenised with '
      'single-character flags for both A and a. The public entry points parse_path / Path(s, pos) hand the string unchanged and the start '
      'position to that parser and return a fresh object per call (memoising decorators are modelled). Not decided: ungrammatical input, '
      'tokenisation priority, float().',
      TRUST + ' The SVG semantics oracle is transcribed by hand (checks/c02.py:svg_semantics).', 'DESIGN.md section 3 C02')

claim('C05', 'other',
      'abstract interpretation of the sibling scans (Path.point, T2t, t2T) on a symbolic 3-segment path with sign-label exploration; '
      'hooked segment.length / segment.point to observe delegation',
      'Decides for all fractions and all T in (0,1) at once: point(T) and T2t(T) select the same segment and local parameter on every '
      'label path (so a boundary T cannot be assigned to different segments by the two scans), the selected segment is the first whose '
      'cumulative fraction reaches T, t == (T - cumulative)/fraction, t2T(T2t(T)) == T; the 0/1 shortcuts and start/end getters; '
      '_calc_lengths sums one length() per segment with the given tolerances and normalises by that very sum (zero total guarded); '
      'iscontinuous / isclosedac / continuous_subpaths agree with the joint coincidences on all 4 coincidence patterns and partition the '
      'path. Not decided: that the fractions are true arc-length fractions (C06), rounding at boundaries.',
      TRUST, 'DESIGN.md section 3 C05')

claim('C06', 'other',
      'abstract interpretation with hooked quad / segment_length (call-site argument tables in both scipy configurations), symbolic '
      'differentiation of the quadratic closed form over a normal form with sqrt/log atoms',
      'Thin by nature: decides only definitional necessary conditions. In both configurations (scipy available / unavailable, switched '
      'through the module flag) CubicBezier.length and Arc.length integrate |derivative(tau)| over exactly (t0,t1) with epsabs=error, resp. '
      'call segment_length(self, t0, t1, point(t0), point(t1), error, min_depth, 0); segment_length halves the interval, shares the mid '
      'point, recurses at depth+1 and returns the two-chord sum at the base; Path.length composes first partial + whole middle segments + '
      'last partial for all index pairs of a 3-segment path; Line.length; the quadratic closed form satisfies ds/dt1 == speed(t1) and '
      's(t1=t0) == 0 with c2 t^2+c1 t+c0 the squared speed, its degenerate branch and the three isnan-fallback returns are the exact '
      'integrals. NOT decided (the heart of C06): accuracy of quadrature/recursion (1e-6 / 5e-3 brackets), for which float inputs the '
      'closed form yields NaN or inf, additivity as a numeric statement.',
      TRUST + ' Relations: sqrt(u)^2=u, d/dt of sqrt/log atoms.', 'DESIGN.md section 3 C06')

claim('C07', 'other',
      'abstract interpretation of inv_arclength with sign labels (range check), CFG loop-variant rule, abstract case analysis of one '
      'bisection iteration with the midpoint rounded onto either bound, hooked recursion/t2T/delegation tables',
      'Thin by nature. Decides: ValueError exactly for s outside [0,L] and before any other work, ilength(0)=0, ilength(L)=1; the loop '
      'counter is incremented on every iteration path and falling out of the loop raises; when the computed midpoint equals a bound '
      '(bracket cannot shrink) every path of the iteration leaves the loop (F05 was found this way); the Path branch recurses on '
      '(segment, s - consumed length) with all four tolerances and maps back through t2T by index; the five ilength methods forward every '
      'parameter or answer correctly themselves (Line: t*L == s; 0 and 1 exactly at the ends and only there), the loop and the Path branch being '
      'located wherever inv_arclength reaches and the Path branch entered through both public entry points; on concrete straight Beziers with non-constant speed (exact arc length known) a parameter computed without the inverter '
      'satisfies length(0,t) == s. Not decided: inverse accuracy and monotonicity (numeric).',
      TRUST + ' Float rounding is modelled only as: the midpoint may equal either bound.', 'DESIGN.md section 3 C07')

claim('C08', 'other',
      'abstract interpretation with min/max modelled as selectors (candidate-set extraction), polynomial identities for the closed-form '
      'cubic extrema, hooked root finder, no-fork collection mode for Arc.bbox, slot-protocol tables',
      'Decides: in bezier_real_minmax the closed-form candidates are exactly the roots of the coordinate derivative, delta is a positive '
      'multiple of its discriminant, on every label path every root that is not known to lie outside (0,1) and both end points are '
      'evaluated, and a degenerate leading coefficient falls back to the numeric derivative roots; the generic Bezier box hands the '
      'real/imag derivative polynomials to the root finder with a filter no stricter than 0<r<1; producers return '
      '(min re, max re, min im, max im) and the consumers (boxes_intersect, box_area, bbox2path, is_contained_by, disvg) use that order; '
      'Arc.bbox: the critical angles annihilate x\'/y\' (general rotation and the axis-aligned special cases), the candidate parameters '
      'solve angle(t) = atan + k*pi for every k in -3..3, the end points are candidates; Path.bbox / big_bounding_box are slot-wise '
      'unions. Not decided: that numeric root finding returns the roots (C19), rounding.',
      TRUST + ' Documented ranges theta in [-180,180], delta in [-360,360].', 'DESIGN.md section 3 C08')

claim('C11', 'other',
      'abstract interpretation with hooked solvers (operand-order tables for all 11 delegating class pairs), sign-label reasoning on the '
      'bounding-box pre-filters, rational identities (Line-Line), polynomial identities for the u1transform branch',
      'Thin by nature. Decides: every X.intersect(Y) returns pairs (t on self, t on other) whatever the operand order of the delegate; '
      'the bounding-box pre-filters return [] only on paths that know the boxes to be strictly disjoint; the Line-Line closed form '
      'satisfies the intersection equations identically and both parameters are range-tested; in the Arc-Bezier branch u1transform maps '
      'the arc to the unit circle and is affine, the polynomial handed to the root finder is |u1transform(B(t))|^2 - 1, each returned t1 is '
      'the phase2t image of its own t2 and both are range-tested; Path.intersect attaches each parameter to its own path/segment and maps '
      'through t2T; in the subdivision solver bezier_intersections (up to three levels of the work-list interpreted on concrete box scenarios, '
      'symbolic tol_deC, Python live list iteration) every examined sub-curve is the dyadic piece of its own input curve, each reported pair '
      'carries the mid parameters of an overlapping cell, and only on paths that know BOTH boxes to be below tol_deC; isclose() tests between '
      'positions in point_to_t are absolute (rtol=0); Arc.point_to_t maps the axis points of concrete axis circles, exact and displaced outward '
      'by 1e-9 r, to their parameter (clamping of the inverse-trig arguments); on concrete straight axis-parallel Beziers (zero-area boxes) the points '
      'of every reported pair coincide. Not decided: floating-point accuracy of subdivision and of the arc solvers '
      '(1e-5 / 1e-3).', TRUST, 'DESIGN.md section 3 C11')

claim('C12', 'other',
      'abstract interpretation of Arc.phase2t as a whole (mod/floordiv atoms, sign-label paths), of the line solver and of Path.intersect\'s '
      'joint de-duplication (per label path: what is kept / dropped and what the path knows), AST/CFG provenance (index domains), shared '
      'cubic-extrema completeness obligation',
      'Thin by nature: only necessary conditions, each of which has produced a real finding or catches a seeded break. Decides: phase2t '
      'shifts the phase into [limit, limit+360) with limit = the lower end of the angular interval for both signs of delta (F09), by '
      'floor(limit/360)*360 (+360 exactly when below the limit), t == (degs-theta)/delta; Path.intersect drops a crossing only when an earlier '
      'one is known to lie within the absolute tol; in bezier_intersections scenarios, overlapping small cells that share no piece are reported once '
      'each and cells that share a piece once in all (the four-cell corner scenario is known finding F24: a crossing reported twice); index domains of the de-duplication steps in polyroots (F10) and Path.intersect; closed filters '
      '[0,1] / [0,line_length] and single visit per root in the line solver; completeness of the cubic extrema used to prune the '
      'subdivision. NOT decided: completeness of recursive subdivision / numeric root finding - the heart of C12.',
      TRUST, 'DESIGN.md section 3 C12')

claim('C13', 'other',
      'abstract interpretation with hooked root finder and min/max selectors; rational identities and 4-path decision table for '
      'Line.radialrange; exhaustive enumeration of the weak orderings seen by the arg-min/arg-max fold',
      'Decides: bezier_radialrange (quadratic, cubic) takes the roots of d/dt|B(t)-z|^2, evaluates (distance, t) at {0,1} and the roots and '
      'selects by distance; Line.radialrange\'s closed-form t is the critical point and its decision table is clamp / farther end on all '
      'four paths; Path.radialrange is a correct arg-min/arg-max fold (with index of the same iteration) on all 54 weak orderings of three '
      'segments including ties and zero distances; closest/farthest_point_in_path pick slots 0/1 and, whatever route they take, return the '
      'global extremum with its segment index on concrete rational three-line paths in all six orders and four rigid images. Not decided: completeness of the root '
      'finder (C19).', TRUST, 'DESIGN.md section 3 C13')

claim('C14', 'other',
      'abstract interpretation with numpy.poly1d modelled as formal polynomials (Green form identity on a symbolic closed path), '
      'hooked nested helpers (seg2lines, area_without_arcs), parity table, sign-label table for is_contained_by',
      'Thin by nature. Decides: area() of a symbolic closed Line+Quadratic+Cubic path equals the sum of the integrals of x dy as a polynomial '
      'identity in all control points (any valid Green form passes, the boundary terms telescope; the sign is therefore decided too); Arc '
      'segments are integrated as the chord polyline produced by seg2lines, whose chords run through point(k/n), k=0..n, for n = 1, 2, 3; '
      'path_encloses_pt asserts closedness and returns the parity of the crossings of Path(Line(pt,opt)); is_contained_by returns False on '
      'any crossing or when the start lies outside the closed bbox and otherwise delegates with a probe end strictly outside the bbox. '
      'Not decided: numeric exactness, the crossing counts themselves (C12), chord error for arcs.', TRUST, 'DESIGN.md section 3 C14')

claim('C15', 'other',
      'abstract interpretation on stub segments (derivative/poly as symbols), normal-form identities for tangent and curvature formulas, '
      'information-flow (parity) test of the singular fallback by evaluating it on d and -d',
      'Decides: normal == -1j*unit_tangent in all five classes (same parameter); regular-point tangents are derivative(t)/|derivative(t)| of '
      'the first derivative (also on real quadratic/cubic segments with symbolic control points at t = 0, 1, 1/2 and symbolic t, on every label path); the singular fallback is sqrt(rational_limit(d^2, |d|^2, t)) with d = poly().deriv() - and cannot see the sign of '
      'd (known finding F11); segment_curvature (regular and singular branch) and Path.curvature implement '
      '|x\'y\'\'-y\'x\'\'|/(x\'^2+y\'^2)^(3/2); Path.derivative rescales by length**n; Line.curvature == 0; Arc.derivative n=1,2. '
      'Not decided: limits as numeric statements; invariance under transforms follows from C10 plus these formulas and is not re-derived.',
      TRUST, 'DESIGN.md section 3 C15')

claim('C17', 'other',
      'abstract interpretation of the transform parser on tokenised strings with symbolic numbers (3x3 matrices exact), of both tree '
      'traversals on stub XML elements with symbolic matrices, of every converter composed with the interpreted path parser; AST rules '
      '(discarded results, dict/Element protocol, tag registries); regex->DFA inclusion',
      'Decides: all six transform kinds with their optional operands give the SVG 1.1 section 7.6 matrix (9 forms, blank and comma separated); lists '
      'compose left to right under blank/comma/newline separators; in Document.flattened_paths and SaxDocument.sax_parse the matrix applied '
      'to each element of a model tree (three levels of groups; siblings with and without an own transform in both orders) is (outermost '
      'ancestor ... own transform) in that order, and the transformed path is what is returned; flattened_paths_from_group returns exactly the '
      'leaves below the requested group (all levels when recursive) in the root frame, also through Document.paths / Document.paths_from_group; elements with equal path data and no transform keep their own path objects; rect (plain, rounded, rx only), circle, ellipse, polyline, polygon and line convert to d-strings that the interpreted '
      'parser turns into exactly the section 9 geometry for all attribute values; converters touch their element only through .get(); no result of a '
      'pure curve function is discarded; the three readers register the same seven tags with the same converters; every CSS number is in '
      'the point-list lexer\'s language; wrappers (svgstr2paths, svg2paths2, ...) hand each conversion option to the callee\'s option of the same name (resolved positional/keyword binding). Not decided: XML parsing itself, filters, numerics of transform() on arcs.',
      TRUST + ' XML elements are stubs offering get/iterfind/iter/attrib/tag.', 'DESIGN.md section 3 C17')

claim('C18', 'other',
      'abstract interpretation of writers and readers against stub library objects (svgwrite Drawing, ElementTree SubElement/iterparse, '
      'minidom document) + a stated API model for name serialisation; writer x reader qualified-name matrix',
      'Decides: for each writer (disvg/wsvg, Document.add_path+save, SaxDocument.save) x reader (svg2paths, Document.paths, SaxDocument) '
      'whether the reader\'s name test matches what the writer serialises (one known finding: Document.save -> svg2paths, F22; F21 was found '
      'and repaired); elements created by add_path/add_group are in the namespace the Document searches; attribute pass-through in disvg '
      '(per-path and svg-level), add_path (d overrides, caller dict untouched), svg2paths (all attributes) and SaxDocument (own attribute > '
      'own style > inherited); every element keeps its own path object and tag when several elements carry equal path data; Document.save writes the '
      'attribute values of the serialisation unchanged; two Documents created from scratch are independent; order preservation; generate_dom writes the matrix in the permutation the matrix(...) reader inverts. '
      'no regex / string substitution that can match inside an attribute value is applied to the serialised XML on its way to the file (pattern DFA x plain attribute text, with witness). '
      'Not decided: svgwrite / ElementTree / minidom internals beyond the API model, d-string equality (C01).',
      TRUST + ' API model rows listed in the evidence assumptions.', 'DESIGN.md section 3 C18')

claim('C20', 'other',
      'abstract interpretation of smoothed_joint on symbolic unit directions (identities with positive factors, interval evaluation of '
      'linear offset factors over 0<tightness<2, transitive closure of the path\'s ordering facts), exhaustive label exploration of '
      'smoothed_path\'s bookkeeping against a specification replay',
      'Decides: for line-line, line-curve and curve-line joints the elbow meets the trimmed pieces exactly, elbow\'(0) = b v and elbow\'(1) = b w '
      'with b/a positive on the whole tightness range, outer end points are kept, trimmed lines keep their direction with factor (len - a), '
      'all elbow control points lie within a resp. 4a/3 of the joint, a is the minimum of maxjointsize/2, len0/20, len1/20 on every label '
      'path; the curve-curve branch chains its >= 3 pieces end to end; smoothed_path keeps/replaces/inserts exactly the right pieces for every '
      'pattern of smooth/kink joints on open and closed 3-segment paths (closing joint included) and returns a single-segment path as is. '
      'Not decided: the metric bound for curve-curve joints (ilength/cropped), tolerance-based kink detection.',
      TRUST + ' Convex-hull property of Bezier curves.', 'DESIGN.md section 3 C20')

ALL = ['C%02d' % i for i in range(1, 21)]
for pid in ALL:
    if pid not in CLAIMED and pid not in NOT_APPLICABLE:
        na(pid, 'static check for this property is not built yet (work in progress); nothing is claimed')


def main():
    checks = []
    for pid in ALL:
        if pid not in CLAIMED:
            continue
        cat, tech, text, note, ref = CLAIMED[pid]
        checks.append({
            'property_id': pid,
            'quick_cmd': '/venv/bin/python check %s' % pid,
            'thorough_cmd': '/venv/bin/python check %s --thorough' % pid,
            'evidence_file': 'evidence/%s.json' % pid,
            'replay_cmd_template': '/venv/bin/python check %s --replay {path}' % pid,
            'engine': 'svtstatic',
            'level_claimed': {'category': cat, 'text': text, 'design_ref': ref},
            'level_note': note,
            'technique': 'static analysis: ' + tech,
        })
    man = {
        'version': 1,
        'setup_cmd': '/venv/bin/python -m compileall -q svtstatic checks',
        'hooks': {
            'guard': 'SVGPATHTOOLS_VERIF',
            'enable': 'none needed: the checks read the source of /repo, no hooks or instrumentation exist',
            'baseline_off_cmd': BASELINE,
            'source_commits': [],
            'add_only': True,
        },
        'engines': [{
            'name': 'svtstatic',
            'path': 'svtstatic/',
            'serves_properties': [c['property_id'] for c in checks],
            'kind_free_text': 'repository-specific static analyser on CPython ast: source model + resolved call graph, '
                              'statement CFG/dataflow, algebraic normal form (polynomials over Q(i) with function atoms) '
                              'for loop-free code, table extraction, regex->DFA',
        }],
        'checks': checks,
        'not_applicable': [{'property_id': p, 'reason': NOT_APPLICABLE[p]} for p in ALL if p in NOT_APPLICABLE],
        'notes': 'All checks: ./check <ID> [--thorough] [--repo DIR] [--replay FILE]; exit 0 ok / 1 VIOLATION / 2 ANALYSIS-ERROR. '
                 'Known findings: known_findings.json. Seeded breaking changes: seeded/. See DESIGN.md.',
    }
    with open(os.path.join(HERE, 'MANIFEST.json'), 'w') as f:
        json.dump(man, f, indent=1)
    print('MANIFEST.json: %d checks, %d not applicable' % (len(checks), len(man['not_applicable'])))


if __name__ == '__main__':
    main()
