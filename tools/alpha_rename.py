import ast, glob, sys
root = sys.argv[1]

class Renamer(ast.NodeTransformer):
    def __init__(self, names):
        self.names = names
    def visit_Name(self, n):
        if n.id in self.names:
            n.id = n.id + '_lv'
        return n
    def _nested(self, node):
        # names rebound as parameters in the nested scope shadow the outer ones
        params = {a.arg for a in node.args.posonlyargs + node.args.args + node.args.kwonlyargs}
        if node.args.vararg: params.add(node.args.vararg.arg)
        if node.args.kwarg: params.add(node.args.kwarg.arg)
        inner = Renamer(self.names - params)
        if isinstance(node, ast.Lambda):
            node.body = inner.visit(node.body)
        else:
            node.body = [inner.visit(s) for s in node.body]
            node.decorator_list = [self.visit(d) for d in node.decorator_list]
        # defaults are evaluated in the outer scope
        node.args.defaults = [self.visit(d) for d in node.args.defaults]
        node.args.kw_defaults = [self.visit(d) if d is not None else None for d in node.args.kw_defaults]
        return node
    def visit_FunctionDef(self, node):
        return self._nested(node)
    def visit_Lambda(self, node):
        return self._nested(node)
    def visit_ExceptHandler(self, node):
        if node.name in self.names:
            node.name = node.name + '_lv'
        self.generic_visit(node)
        return node

def locals_of(fn):
    params = {a.arg for a in fn.args.posonlyargs + fn.args.args + fn.args.kwonlyargs}
    if fn.args.vararg: params.add(fn.args.vararg.arg)
    if fn.args.kwarg: params.add(fn.args.kwarg.arg)
    declared = set()
    names = set()
    def walk(node, top):
        for ch in ast.iter_child_nodes(node):
            if isinstance(ch, (ast.FunctionDef, ast.Lambda, ast.ClassDef)) :
                if isinstance(ch, ast.FunctionDef):
                    names.add(ch.name)      # nested def name is a local
                continue
            if isinstance(ch, (ast.Global, ast.Nonlocal)):
                declared.update(ch.names)
            if isinstance(ch, ast.Name) and isinstance(ch.ctx, (ast.Store, ast.Del)):
                names.add(ch.id)
            if isinstance(ch, ast.ExceptHandler) and ch.name:
                names.add(ch.name)
            if isinstance(ch, (ast.Import, ast.ImportFrom)):
                continue
            walk(ch, False)
    walk(fn, True)
    return {n for n in names - params - declared if not n.startswith('__')}

def process_function(fn):
    names = locals_of(fn)
    # nested function names used as hooks by tools? keep nested def names unchanged (they are locals but also 'API' for readers)
    names = {n for n in names if not any(isinstance(x, ast.FunctionDef) and x.name == n for x in ast.walk(fn) if x is not fn)}
    r = Renamer(names)
    fn.body = [r.visit(s) for s in fn.body]
    # recurse into nested functions for their own locals
    for x in ast.walk(fn):
        if isinstance(x, ast.FunctionDef) and x is not fn:
            pass

total = 0
for f in glob.glob(root + '/svgpathtools/*.py'):
    tree = ast.parse(open(f).read())
    for node in ast.walk(tree):
        if isinstance(node, ast.ClassDef):
            for st in node.body:
                if isinstance(st, ast.FunctionDef):
                    process_function(st); total += 1
    for st in tree.body:
        if isinstance(st, ast.FunctionDef):
            process_function(st); total += 1
    open(f, 'w').write(ast.unparse(tree) + '\n')
print('functions renamed:', total)
