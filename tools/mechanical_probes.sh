#!/bin/sh
# two mechanical behaviour-preserving transformations of the whole package, each followed by all checks (every exit must be 0):
#  (1) every module re-emitted by ast.unparse (all formatting and comments gone)
#  (2) every function-local variable renamed (x -> x_lv), scopes respected; the test suite is run on it first (must be at baseline)
set -e
V=$(cd "$(dirname "$0")/.." && pwd)
for kind in unparse alpha; do
  d=$(mktemp -d /tmp/mech-XXXXXX); rmdir "$d"
  git -C /repo worktree add -q --detach "$d" HEAD
  if [ $kind = unparse ]; then
    /venv/bin/python - "$d" <<'PY'
import ast, glob, sys
for f in glob.glob(sys.argv[1] + '/svgpathtools/*.py'):
    src = open(f).read()
    open(f, 'w').write(ast.unparse(ast.parse(src)) + '\n')
PY
  else
    /venv/bin/python "$V/tools/alpha_rename.py" "$d" >/dev/null
  fi
  suite=$(cd "$d" && /venv/bin/python -m pytest -q -p no:cacheprovider --timeout=900 2>&1 | tail -1)
  echo "$kind: suite [$suite]"
  for i in 01 02 03 04 05 06 07 08 09 10 11 12 13 14 15 16 17 18 19 20; do echo C$i; done | \
    xargs -P 6 -I{} sh -c "cd $V && ./check {} --repo $d --no-evidence >/dev/null 2>&1; echo \"$kind {} exit=\$?\"" | sort | grep -v "exit=0" || echo "$kind: all 20 checks exit 0"
  git -C /repo worktree remove --force "$d"
done
