#!/bin/sh
# usage: try_patch.sh <patch.diff> <PROP> [more check args]   -- runs ./check PROP against a scratch copy of /repo with the patch applied
set -e
patch="$1"; prop="$2"; shift 2
d=$(mktemp -d /tmp/scratch-XXXXXX)
mkdir -p "$d/repo"
cp -r /repo/svgpathtools "$d/repo/svgpathtools"
( cd "$d/repo" && git init -q . 2>/dev/null && git apply "$patch" ) || { echo "PATCH DOES NOT APPLY"; rm -rf "$d"; exit 3; }
set +e
cd /verif && ./check "$prop" --repo "$d/repo" --no-evidence "$@"
code=$?
rm -rf "$d"
exit $code
