#!/venv/bin/python
"""runs the claimed checks against every seeded change (scratch copy of /repo/svgpathtools with the patch applied)
usage: run_seeds.py [--all-props] [seed-name ...]     prints one line per seed: which checks fire"""
import os, sys, json, subprocess, tempfile, shutil, re
from concurrent.futures import ThreadPoolExecutor

VERIF = os.path.dirname(os.path.dirname(os.path.abspath(__file__)))


def claimed():
    man = json.load(open(os.path.join(VERIF, 'MANIFEST.json')))
    return [c['property_id'] for c in man['checks']]


SEEDDIR = ['seeded']


def run_seed(name, props):
    sd = os.path.join(VERIF, SEEDDIR[0], name)
    d = tempfile.mkdtemp(prefix='seedrun-', dir='/tmp')
    try:
        os.makedirs(os.path.join(d, 'repo'))
        shutil.copytree('/repo/svgpathtools', os.path.join(d, 'repo', 'svgpathtools'))
        subprocess.run(['git', 'init', '-q', '.'], cwd=os.path.join(d, 'repo'), capture_output=True)
        r = subprocess.run(['git', 'apply', os.path.join(sd, 'patch.diff')], cwd=os.path.join(d, 'repo'), capture_output=True, text=True)
        if r.returncode != 0:
            return name, {'*': ('patch does not apply', '')}
        out = {}
        for p in props:
            try:
                r = subprocess.run([os.path.join(VERIF, 'check'), p, '--repo', os.path.join(d, 'repo'), '--no-evidence'], cwd=VERIF,
                                   capture_output=True, text=True, timeout=1500)
            except subprocess.TimeoutExpired:
                out[p] = (2, 'timeout after 1500 s')
                continue
            rules = sorted(set(re.findall(r': (R[0-9]+\.[\w.]+) in ', r.stdout)))
            errs = [l for l in r.stdout.splitlines() if l.startswith('ANALYSIS-ERROR')]
            out[p] = (r.returncode, ','.join(rules) if r.returncode == 1 else ('; '.join(errs)[:160] if r.returncode == 2 else ''))
        return name, out
    finally:
        shutil.rmtree(d, ignore_errors=True)


def main():
    args = [a for a in sys.argv[1:] if not a.startswith('--')]
    allp = '--all-props' in sys.argv
    benign = '--benign' in sys.argv      # behaviour-preserving refactorings under /verif/benign: every check must stay silent
    if benign:
        SEEDDIR[0] = 'benign'
        allp = True
    seeds = args or sorted(os.listdir(os.path.join(VERIF, SEEDDIR[0])))
    cl = claimed()
    only = [a[7:].split(',') for a in sys.argv if a.startswith('--only=')]
    if only:
        cl = [p for p in cl if p in only[0]]      # --only=C16,C17: restrict the checks that are run
    jobs = []
    for s in seeds:
        own = s.split('-')[0]
        props = cl if allp else [p for p in cl if p == own]
        jobs.append((s, props))
    with ThreadPoolExecutor(12) as ex:
        results = list(ex.map(lambda j: run_seed(*j), jobs))
    if benign:
        bad = 0
        for name, out in results:
            acc = {}
            ef = os.path.join(VERIF, 'benign', name, 'expected.json')
            if os.path.exists(ef):
                acc = json.load(open(ef)).get('accepted_undecided', {})
            # exit 2 (analysis gives up, nothing claimed) is tolerated only where it is recorded with its reason; exit 1 never is
            noisy = [p for p, (c, _) in out.items() if c != 0 and not (c == 2 and p in acc)]
            bad += bool(noisy)
            print('%-8s %-9s %s' % (name, 'FALSE-ALARM' if noisy else 'silent', ' '.join('%s[%s:%s]' % (p, out[p][0], out[p][1]) for p in noisy)))
        print('%d/%d silent' % (len(results) - bad, len(results)))
        sys.exit(1 if bad else 0)
    caught = 0
    for name, out in results:
        own = name.split('-')[0]
        fired = [p for p, (c, _) in out.items() if c == 1]
        und = [p for p, (c, _) in out.items() if c == 2]
        status = 'CAUGHT' if fired else ('undecided' if und else ('missed' if out else 'no-check'))
        if fired:
            caught += 1
        print('%-8s %-9s %s' % (name, status, ' '.join('%s[%s]' % (p, out[p][1]) for p in fired + und)))
    print('%d/%d caught' % (caught, len(results)))


if __name__ == '__main__':
    main()
