#!/bin/sh
# usage: verify_refactor.sh <dir containing patch.diff equiv.py meta.json> <name>
# confirms in a scratch git worktree of /repo HEAD: patch applies, suite at baseline with patch, equiv.py output identical on the
# unchanged and on the refactored tree (behaviour-preserving refactoring: a false-alarm probe for the checks).
src="$1"; name="$2"
wt=$(mktemp -d /tmp/vref-XXXXXX); rmdir "$wt"
git -C /repo worktree add -q --detach "$wt" HEAD || exit 9
res="name=$name"
cd "$wt"
d0=$(PYTHONPATH="$wt" timeout 900 /venv/bin/python "$src/equiv.py" 2>/dev/null | sha256sum | cut -c1-16)
if git apply "$src/patch.diff" 2>/dev/null; then
  res="$res applies=yes"
  s=$(timeout 900 /venv/bin/python -m pytest -q -p no:cacheprovider --timeout=900 2>&1 | tail -1)
  case "$s" in *"1 failed, 91 passed"*) ;; *) s2=$(timeout 900 /venv/bin/python -m pytest -q -p no:cacheprovider --timeout=900 2>&1 | tail -1); s="$s2 (2nd run; 1st: $s)";; esac
  res="$res suite=[$s]"
  d1=$(PYTHONPATH="$wt" timeout 900 /venv/bin/python "$src/equiv.py" 2>/dev/null | sha256sum | cut -c1-16)
  res="$res digest_clean=$d0 digest_refactored=$d1"
else
  res="$res applies=NO"
fi
cd /; git -C /repo worktree remove --force "$wt"
echo "$res"
