#!/bin/sh
# usage: store_benign.sh <out dir with r1/ r2/> <name prefix e.g. A08>   verify each refactoring, store under /verif/benign/<prefix>-r<k>, run all checks
src="$1"; pre="$2"
for r in r1 r2; do
  [ -f "$src/$r/patch.diff" ] || continue
  line=$(/verif/tools/verify_refactor.sh "$src/$r" "$pre-$r")
  echo "$line"
  /venv/bin/python - "$line" "$src/$r" "$pre-$r" <<'PY'
import sys, re, os, json, shutil
line, src, name = sys.argv[1:4]
m = re.match(r'name=(\S+) applies=yes suite=\[(.*?)\] digest_clean=(\w+) digest_refactored=(\w+)', line)
if not (m and m.group(3) == m.group(4) and '1 failed, 91 passed' in m.group(2)):
    print('REJECT', name); sys.exit(0)
dst = '/verif/benign/' + name
os.makedirs(dst, exist_ok=True)
for f in ('patch.diff', 'equiv.py'):
    shutil.copy(os.path.join(src, f), os.path.join(dst, f))
meta = json.load(open(os.path.join(src, 'meta.json')))
meta['origin'] = 'independent sub-agent asked for a behaviour-preserving refactoring; given only the area and a scratch worktree of /repo@ae1263e'
meta['confirmed'] = {'by': 'tools/verify_refactor.sh in a fresh scratch worktree', 'suite_with_patch': m.group(2),
                     'equiv_output_sha_clean': m.group(3), 'equiv_output_sha_refactored': m.group(4)}
json.dump(meta, open(os.path.join(dst, 'meta.json'), 'w'), indent=1)
print('stored', name)
PY
done
