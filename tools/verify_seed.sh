#!/bin/sh
# usage: verify_seed.sh <dir containing patch.diff demo.py meta.json> <name>
# confirms in a scratch git worktree of /repo HEAD: patch applies, suite at baseline with patch, demo FAILS with patch, demo PASSES without.
src="$1"; name="$2"
wt=$(mktemp -d /tmp/vseed-XXXXXX); rmdir "$wt"
git -C /repo worktree add -q --detach "$wt" HEAD || exit 9
res="name=$name"
cd "$wt"
PYTHONPATH="$wt" timeout 600 /venv/bin/python "$src/demo.py" >/tmp/vseed-$name.clean.log 2>&1; res="$res demo_clean_exit=$?"
if git apply "$src/patch.diff" 2>/dev/null; then
  res="$res applies=yes"
  s=$(timeout 900 /venv/bin/python -m pytest -q -p no:cacheprovider --timeout=900 2>&1 | tail -1)
  case "$s" in *"1 failed, 91 passed"*) ;; *) s2=$(timeout 900 /venv/bin/python -m pytest -q -p no:cacheprovider --timeout=900 2>&1 | tail -1); s="$s2 (2nd run; 1st: $s)";; esac
  res="$res suite=[$s]"
  PYTHONPATH="$wt" timeout 600 /venv/bin/python "$src/demo.py" >/tmp/vseed-$name.mut.log 2>&1; res="$res demo_mut_exit=$?"
else
  res="$res applies=NO"
fi
cd /; git -C /repo worktree remove --force "$wt"
echo "$res"
