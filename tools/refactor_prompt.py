#!/usr/bin/env python3
"""prompt for a sub-agent that produces BEHAVIOUR-PRESERVING refactorings (false-alarm probes for the checks)"""
import sys
k, area = sys.argv[1], sys.argv[2]
wt = '/tmp/wt/R%s' % k
out = '/tmp/wt/out-R%s' % k
print(f"""You are helping test a verification effort for the Python library svgpathtools (pure-Python SVG path geometry).
A scratch git worktree of the library is at {wt} (package directory {wt}/svgpathtools, tests in {wt}/test).
Work ONLY inside {wt} and {out}. Never read or write /repo or /verif (they are off limits), do not create other git worktrees, and never use `git stash` (it is shared between worktrees; use `git diff > file` and `git checkout -- .` instead).

Environment facts:
- Use /venv/bin/python. The package is installed in editable mode pointing elsewhere, so to import the worktree's copy you MUST run with PYTHONPATH={wt} (or cwd={wt} for `python -m pytest`). Verify with: cd {wt} && /venv/bin/python -c "import svgpathtools; print(svgpathtools.__file__)".
- Existing test suite: cd {wt} && /venv/bin/python -m pytest -q -p no:cacheprovider --timeout=900   (~10 s). Baseline on the unchanged tree: exactly one test fails (test_groups.py::TestGroups::test_group_transform, a numpy incompatibility) and 91 pass. test_path.py::Test_intersect::test_arc_line is randomised and very occasionally flakes: re-run if it is the only extra failure.
- No network.

YOUR TASK: produce TWO independent, realistic, BEHAVIOUR-PRESERVING refactorings of this part of the library:
    {area}
Each refactoring should be the kind of clean-up a maintainer might really commit, touching several functions of that area (roughly 20-80 changed lines): rename local variables and parameters-internal names, extract small helper functions or inline them, reorder independent statements, turn loops into comprehensions or the reverse, restructure if/elif/else chains or early returns, cache a repeated sub-expression in a local, use an equivalent standard-library / numpy call, rewrite arithmetic into an algebraically identical form (e.g. Horner vs expanded, (a+b)/2 vs 0.5*(a+b)), replace string building by an equivalent formatting style (the produced strings must stay character-for-character identical), use chained comparisons or their expansion, etc.
HARD REQUIREMENT: the observable behaviour must be EXACTLY preserved for all inputs - same return values (bit-for-bit for floats wherever the arithmetic is unchanged, and mathematically identical where you re-associate), same exceptions in the same situations, same mutation/caching behaviour, same public names and signatures. Do NOT fix bugs, do NOT change tolerances or constants, do NOT change which branch handles which input. Module-level public constants and function/class/method names must stay as they are.
The two refactorings must be different in style and touch different functions where possible.

For EACH refactoring k in (1, 2) deliver in {out}/r<k>/:
 - patch.diff : `git -C {wt} diff` against the worktree HEAD, made from a clean tree (use `git -C {wt} checkout -- .` between the two); must apply with `git apply` at the repository root.
 - equiv.py : a standalone differential program that imports the package from PYTHONPATH, exercises every function you touched on many inputs (including edge cases and error cases) and prints a deterministic digest (e.g. a sha256 of repr() of all results, with floats rounded to 12 significant digits where you re-associated arithmetic). You run it on the unchanged tree and on the refactored tree and the two digests MUST be identical. It is run as: cd <tree> && PYTHONPATH=<tree> /venv/bin/python {out}/r<k>/equiv.py
 - meta.json : {{"area": "{area}", "summary": "<what was refactored>", "functions": ["<qualified names touched>"], "digest_clean": "<digest>", "digest_refactored": "<digest>", "suite": "<pytest summary line with the refactoring applied>"}}
Before finishing verify for each: suite at baseline with the patch; digests identical. Leave the worktree clean (git -C {wt} checkout -- .).
Final answer: a short report of the two refactorings.""")
