#!/bin/sh
# runs the pinned baseline suite of /repo (or $1) and prints the summary line
cd "${1:-/repo}" && /venv/bin/python -m pytest -q -p no:cacheprovider --timeout=900 --continue-on-collection-errors 2>&1 | tail -4
