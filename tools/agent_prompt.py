#!/usr/bin/env python3
"""prints the prompt handed to a mutant-writing sub-agent for one property (text of the property only)"""
import json, sys
pid = sys.argv[1]
for l in open('/verif/properties.jsonl'):
    p = json.loads(l)
    if p['id'] == pid:
        break
else:
    raise SystemExit('no such property')
wt = '/tmp/wt/%s' % pid
out = '/tmp/wt/out-%s' % pid
import os
taken = json.load(open("/tmp/taken.json")).get(pid, []) if os.path.exists("/tmp/taken.json") else []
note = ("Other testers have already delivered changes for this property in these places; pick DIFFERENT functions/mechanisms: " + "; ".join(taken) + ". Never use `git stash` (the stash is shared between worktrees): to get back to a clean tree run `git checkout -- .` inside your own worktree after saving your diff to a file.") 
FLAVOURS = {
 'subtle': "Prefer subtle semantic changes (a sign, an index, a comparison direction, a dropped cache invalidation, a wrong operand, a swapped argument, an off-by-one, a missing case) in code the property depends on.",
 'added': "This round asks for ADDED or RESTRUCTURED code rather than one-token edits: a new fast path, a new helper, a cache, a rewritten loop, a 'simplification' -- the kind of change a maintainer would actually submit -- that is wrong for a class of inputs.",
 'boundary': "This round asks for changes whose fault shows only at BOUNDARIES or in INTERACTIONS: parameters exactly 0 or 1, empty or single-segment paths, closed paths, zero-length or degenerate segments, repeated or coincident points, negative or out-of-range indices, keyword versus positional arguments, rarely combined options, ints versus floats versus numpy scalars, or two public calls in sequence where the second sees state left by the first. The change itself may be a small edit or added code, but ordinary interior inputs must behave exactly as before.",
}
FLAVOURS['untouched'] = ("This round asks for changes in code that no earlier tester has touched. Prefer to place each change in one of the following functions/methods "
    "WHEN it is relevant to the property (directly, or because the property's functions call it): " + os.environ.get('UNTOUCHED', '') +
    ". If none of these is relevant, pick any function that is not in the 'already delivered' list below. Small edits and added code are both fine.")
FLAVOURS['cooperating'] = ("This round asks for changes made of TWO COOPERATING EDITS in different functions (or different branches), each of which looks correct and harmless when read alone - "
    "a helper whose contract is changed slightly plus one caller that still assumes the old contract; a value now stored in a different unit/order/sign and one reader that was not updated; "
    "a default argument changed in one place while another place relies on the old default; an invariant established in one method and silently relied on in another. "
    "Every other caller / reader must keep working, so that ordinary use and the test suite see no difference.")
FLAVOURS['entrypoints'] = ("This round asks for changes that show only through a RARELY USED PUBLIC ENTRY POINT or OPTION: an alternative constructor, a keyword argument with a non-default value, "
    "a convenience wrapper, a module-level helper function that duplicates a method, an operator overload - while the commonly used route stays exactly correct.")
flavour = FLAVOURS[os.environ.get('FLAVOUR', 'subtle')]
print(f"""You are helping test a verification effort for the Python library svgpathtools (pure-Python SVG path geometry).
A scratch git worktree of the library is at {wt} (package directory {wt}/svgpathtools, tests in {wt}/test).
Work ONLY inside {wt} and {out}. Never read or write /repo or /verif (they are off limits), and do not create other git worktrees.

IMPORTANT environment facts:
- Use /venv/bin/python. The package is installed in editable mode pointing elsewhere, so to import the worktree's copy you MUST run with the worktree as current directory (cd {wt}) or with PYTHONPATH={wt}. Verify with: cd {wt} && /venv/bin/python -c "import svgpathtools; print(svgpathtools.__file__)"  (must print a path under {wt}).
- Existing test suite: cd {wt} && /venv/bin/python -m pytest -q -p no:cacheprovider --timeout=900   (takes ~10 s). On the unchanged tree exactly one test fails (test_groups.py::TestGroups::test_group_transform, a numpy incompatibility) and 91 pass; that is the baseline. test_path.py::Test_intersect::test_arc_line uses unseeded random numbers and very occasionally flakes: re-run if it is the only extra failure.
- No network access.

Here is a semantic property that the library is supposed to satisfy:

ID: {p['id']} - {p['title']}
STATEMENT: {p['statement']}
QUANTIFIED OVER: {p['quantifier']['text']}
WHY THE EXISTING TESTS CANNOT SETTLE IT: {p['why_tests_cant']}

YOUR TASK: produce TWO different, independent, realistic changes (mutations/bugs) to the library source under {wt}/svgpathtools, each of which
 (a) BREAKS the property above (makes the library violate it for some inputs),
 (b) still imports fine and still passes the existing test suite exactly at baseline (91 passed, only test_group_transform failing),
 (c) looks like a plausible mistake or plausible 'refactoring gone wrong' a developer could make (not sabotage like 'if x == 12345'), and
 (d) needs something SPECIFIC to manifest: an unusual input, a particular option combination, a multi-step sequence of operations, a rarely taken branch, or two cooperating sites that each look fine alone. It should NOT be exposed at once by ordinary use.
{flavour} The two changes should be in different functions/mechanisms.

For EACH change k in (1, 2) deliver in {out}/:
 - {out}/m<k>/patch.diff : the change as a unified diff produced by `git -C {wt} diff` (relative to the worktree HEAD; must apply with `git apply` at the repository root). Each patch must be standalone (made from a clean tree: use `git -C {wt} checkout -- .` between the two).
 - {out}/m<k>/demo.py : a small standalone program that exits 0 and prints PASS when the property holds on the inputs it tries, and exits 1 printing FAIL (with the offending input/values) when it does not. It must FAIL with your change applied and PASS on the unchanged tree. It is run as: cd <tree> && PYTHONPATH=<tree> /venv/bin/python {out}/m<k>/demo.py  (PYTHONPATH is what selects the tree: a script's own directory, not the cwd, is first on sys.path; the demo itself must not hard-code any tree path)
 - {out}/m<k>/meta.json : {{"property": "{p['id']}", "summary": "<one line: what was changed>", "file": "<file>", "function": "<function or method>", "needs": "<what is needed for the violation to manifest>", "suite": "<the pytest summary line you observed with the change applied>"}}
Before finishing, verify for each change yourself: suite at baseline with the change; demo FAILS with the change; demo PASSES without it. Leave the worktree clean at the end (git -C {wt} checkout -- .).
{note}
Final answer: a short report listing the two changes (file, function, what, why tests miss it, what triggers it).""")
