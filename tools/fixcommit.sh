#!/bin/sh
# usage: fixcommit.sh "<message>"  -- runs the suite on /repo and commits tracked changes if 91 pass
out=$(/verif/tools/run_suite.sh | tail -1)
echo "$out"
case "$out" in
  *"1 failed, 91 passed"*) cd /repo && git commit -qam "$1" && git log --oneline | head -1;;
  *) echo "SUITE NOT AT BASELINE - not committed";;
esac
