#!/venv/bin/python
"""store confirmed round-N seeds: store_seeds.py <results file> <src root> <suffix map e.g. m1=m3,m2=m4> <origin commit>"""
import os, json, shutil, re, sys
resf, root, mp, origin = sys.argv[1:5]
mp = dict(x.split('=') for x in mp.split(','))
n = 0
for l in open(resf):
    m = re.match(r'name=(\S+) demo_clean_exit=(\d+) applies=(\S+) suite=\[(.*)\] demo_mut_exit=(\d+)', l.strip())
    if not m:
        continue
    name, clean, app, suite, mut = m.groups()
    prop, mk = name.split('-')[-2:]
    if not (clean == '0' and app == 'yes' and mut == '1' and '1 failed, 91 passed' in suite):
        print('REJECT', name, clean, app, suite, mut)
        continue
    src = os.path.join(root, 'out-%s' % prop, mk)
    dst = os.path.join('/verif/seeded', '%s-%s' % (prop, mp[mk]))
    os.makedirs(dst, exist_ok=True)
    for f in ('patch.diff', 'demo.py'):
        shutil.copy(os.path.join(src, f), os.path.join(dst, f))
    meta = json.load(open(os.path.join(src, 'meta.json')))
    meta['origin'] = 'independent sub-agent (round 9) given only the property text and a scratch worktree of /repo@%s' % origin
    meta['confirmed'] = {'by': 'tools/verify_seed.sh in a fresh scratch worktree', 'suite_with_patch': suite,
                         'demo_exit_unchanged_tree': int(clean), 'demo_exit_with_patch': int(mut),
                         'run': 'cd <tree> && PYTHONPATH=<tree> /venv/bin/python demo.py'}
    json.dump(meta, open(os.path.join(dst, 'meta.json'), 'w'), indent=1)
    n += 1
print(n, 'stored')
